import chunk as _c
import nodettl as N
def queued_requests(rng, n):
    """a peer request that is admitted while the chunk is live but has to wait in the upload queue (the peer's one slot is taken by an
    unacknowledged transfer) and is answered later, at an acknowledgement or a tick: by then the chunk may have expired (while a
    later-expiring manifest for the id keeps the cache entry valid) or have been overwritten.  What reaches the peer then is judged
    at THAT instant (event get via=peerlate)"""
    out = []
    for k in range(n):
        line, d = N.reset_line(rng)
        mn, mx = d["min"], d["max"]
        t1 = mn
        lines = [line, "store c=0 b=1 ttl=%d" % t1, "store c=1 b=2 ttl=%d" % mx, "peerreq c=1 p=1", "peerreq c=0 p=1"]
        if rng.random() < 0.3:
            lines.append("peerreq c=0 p=2")          # another peer's request is served at once
        variant = k % 3
        if variant == 0:      # deadline passes, a foreign manifest with a later expiry arrived meanwhile
            lines += ["mk m=1 c=0 b=1 e=%d" % ((t1 + mx + 5) * 1000), "ingest m=1", "adv ms=%d" % (t1 * 1000 + rng.choice([0, 1, 200, 999]))]
        elif variant == 1:    # overwritten with other bytes while waiting
            lines += ["adv ms=%d" % rng.choice([0, 300]), "store c=0 b=5 ttl=%d" % mx]
        else:                 # deadline passes, nothing else
            lines += ["adv ms=%d" % (t1 * 1000 + rng.choice([0, 1, 500]))]
        lines += [rng.choice(["peerack c=1 p=1 ok=1", "peerack c=1 p=1 ok=0", "tick"]), "tick", "peerack c=1 p=1", "get c=0" if False else "fetch c=0", "list", "adv ms=1000", "tick"]
        out.append(lines)
    return out


def run(chk):
    thorough = chk.tier == "thorough"
    _c.run(chk)                      # ChunkStore level: TLC design model, state/transition cover, random
    # Node level: store_chunk / fetch_chunk / peer request / export / stored_chunks / tick
    N.model_check(chk)
    N.run_driver(chk, N.model_sequences(chk, 4000 if thorough else 600, foreign_offset=4), "node-tlc-state-cover")
    N.run_driver(chk, N.random_behaviours(chk.rng, 3000 if thorough else 300, "c01"), "node-random-store-read")
    N.run_driver(chk, queued_requests(chk.rng, 400 if thorough else 60), "node-queued-peer-requests")
    chk.assumptions += N.ASSUME


from replaykit import replay  # noqa: E402,F401
