import chunk as _c
import nodettl as N
def run(chk):
    thorough = chk.tier == "thorough"
    _c.run(chk)                      # ChunkStore level: TLC design model, state/transition cover, random
    # Node level: store_chunk / fetch_chunk / peer request / export / stored_chunks / tick
    N.model_check(chk)
    N.run_driver(chk, N.model_sequences(chk, 4000 if thorough else 600, foreign_offset=4), "node-tlc-state-cover")
    N.run_driver(chk, N.random_behaviours(chk.rng, 3000 if thorough else 300, "c01"), "node-random-store-read")
    chk.assumptions += N.ASSUME


from replaykit import replay  # noqa: E402,F401
