import re, os
import vlib, nodettl as N
def grid(name):
    s = open(os.path.join(vlib.SPEC, "ConfigSanitize.tla")).read()
    return [int(x) for x in re.search(name + r" == \{([^}]*)\}", s).group(1).split(",")]
def run(chk):
    thorough = chk.tier == "thorough"
    r = vlib.mc("ConfigSanitize", "MC_ConfigSanitize.cfg", workers=8, timeout=900)
    chk.add_model("ConfigSanitize: transcription of sanitize_config/clamp_chunk_ttl vs the C02 contract over the boundary grid", r, "C02_Window C02_Lifetimes")
    N.model_check(chk)
    N.GRID_S[:] = grid("DefGridS"); N.POW[:] = grid("DefGridPow")
    reqs = grid("DefReqS")
    rng = chk.rng
    beh = []
    # every grid value in every duration field at least once (others random), then random grid points
    for field in ("min", "max", "default", "rot"):
        for v in N.GRID_S:
            line, d = N.reset_line(rng, small=False, **{field: v})
            beh.append([line] + ["store c=%d b=%d ttl=%d" % (i % 4, i % 8, t) for i, t in enumerate(reqs)] + ["list"])
    for field in ("apow", "hpow", "spow"):
        for v in N.POW:
            line, d = N.reset_line(rng, small=False, **{field: v})
            beh.append([line, "store c=0 b=1 ttl=0"])
    beh += N.config_grid_behaviours(rng, 4000 if thorough else 300)
    N.run_driver(chk, beh, "config-grid")
    # the same behaviours with a clock that moves between the reads inside one call (20 ms tolerance in the contract)
    jit = [[b[0] + " jitter_us=50"] + b[1:] for b in beh]
    N.run_driver(chk, jit if thorough else jit[: max(150, len(jit) // 3)], "config-grid-moving-clock")
    N.run_driver(chk, N.model_sequences(chk, 3000 if thorough else 300), "tlc-state-cover")
    import livetests
    if thorough or False:
        livetests.run(chk)   # the repository's own scenario tests, traced and validated against the same contract
    chk.assumptions += N.ASSUME + ["the control-plane refusal of STORE TTLs outside the window is exercised by the C28 check (clause C28.accepted-bad-ttl) on the real ControlServer"]


from replaykit import replay  # noqa: E402,F401
