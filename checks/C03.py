import nodettl as N
def run(chk):
    thorough = chk.tier == "thorough"
    N.model_check(chk, dev=[("dev_nocap", "C03_Derived"), ("dev_keeplater", "C03_ArrivalWrites")], reach=[("reach_farfuture", "Reach_FarFutureCapped"), ("reach_pending", "Reach_PendingFetch")])
    N.run_driver(chk, N.model_sequences(chk, 6000 if thorough else 600), "tlc-state-cover")
    N.run_driver(chk, N.random_behaviours(chk.rng, 4000 if thorough else 300, "c03"), "random-manifest-arrivals")
    N.run_driver(chk, N.random_behaviours(chk.rng, 2000 if thorough else 150, "c05"), "random-with-ticks")
    import livetests, system
    system.run(chk, 600 if thorough else 80)   # System.tla schedules on 2-3 real nodes: arbitrary message order, loss, late delivery
    if thorough or True:
        livetests.run(chk)   # the repository's own scenario tests, traced and validated against the same contract
    if thorough:
        jit = [[b[0] + " jitter_us=50"] + b[1:] for b in N.random_behaviours(chk.rng, 1500, "c03")]
        N.run_driver(chk, jit, "random-moving-clock")   # clock advances 50 us per read inside the node; contract tolerance 20 ms
    chk.assumptions += N.ASSUME


from replaykit import replay  # noqa: E402,F401
