import nodettl as N
def extreme_expiries(rng):
    """manifests whose expiry lies centuries in the past or future (the ends of what the codec carries), through every arrival path: the
    long-expired ones must be refused without a trace, the far-future ones capped"""
    out = []
    for k, eabs in enumerate([-9223372036, -9223372035, -9100000000, -8000000000, -7523372037, -7523372036, -7523372035, -7000000000, -2208988800, 0,
                              9223372036, 9223372035, 9000000000]):
        line, d = N.reset_line(rng)
        lines = [line, "mk m=1 c=5 b=3 e=0 eabs=%d" % eabs, "ingest m=1", "announce m=1 p=1 ttl=%d assign=1" % rng.choice([0, 9, 100000]), "recv m=1", "chunkin m=1 p=2",
                 "request m=1 p=3", "fetch c=5", "peerreq c=5 p=2", "list", "tick", "adv ms=%d" % (d["max"] * 1000 + 1000), "tick", "drain"]
        out.append(lines)
    return out


def run(chk):
    thorough = chk.tier == "thorough"
    N.model_check(chk, dev=[("dev_nocap", "C03_Derived"), ("dev_keeplater", "C03_ArrivalWrites")], reach=[("reach_farfuture", "Reach_FarFutureCapped"), ("reach_pending", "Reach_PendingFetch")])
    N.run_driver(chk, N.model_sequences(chk, 6000 if thorough else 600), "tlc-state-cover")
    N.run_driver(chk, N.random_behaviours(chk.rng, 4000 if thorough else 300, "c03"), "random-manifest-arrivals")
    N.run_driver(chk, N.random_behaviours(chk.rng, 2000 if thorough else 150, "c05"), "random-with-ticks")
    N.run_driver(chk, extreme_expiries(chk.rng), "extreme-expiries")
    import livetests, system
    system.run(chk, 600 if thorough else 80)   # System.tla schedules on 2-3 real nodes: arbitrary message order, loss, late delivery
    if thorough or True:
        livetests.run(chk)   # the repository's own scenario tests, traced and validated against the same contract
    if thorough:
        jit = [[b[0] + " jitter_us=50"] + b[1:] for b in N.random_behaviours(chk.rng, 1500, "c03")]
        N.run_driver(chk, jit, "random-moving-clock")   # clock advances 50 us per read inside the node; contract tolerance 20 ms
    chk.assumptions += N.ASSUME


from replaykit import replay  # noqa: E402,F401
