import nodettl as N
def run(chk):
    thorough = chk.tier == "thorough"
    N.model_check(chk, dev=[("dev_nocap", "C03_Derived")], reach=[("reach_farfuture", "Reach_FarFutureCapped"), ("reach_pending", "Reach_PendingFetch")])
    N.run_driver(chk, N.model_sequences(chk, 6000 if thorough else 600), "tlc-state-cover")
    N.run_driver(chk, N.random_behaviours(chk.rng, 4000 if thorough else 300, "c03"), "random-manifest-arrivals")
    N.run_driver(chk, N.random_behaviours(chk.rng, 2000 if thorough else 150, "c05"), "random-with-ticks")
    import livetests, system
    system.run(chk, 600 if thorough else 80)   # System.tla schedules on 2-3 real nodes: arbitrary message order, loss, late delivery
    if thorough or True:
        livetests.run(chk)   # the repository's own scenario tests, traced and validated against the same contract
    chk.assumptions += N.ASSUME
