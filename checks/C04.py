import chunk as _c
def run(chk):
    _c.run(chk)


from replaykit import replay  # noqa: E402,F401
