import nodettl as N
def run(chk):
    thorough = chk.tier == "thorough"
    N.model_check(chk, dev=[("dev_noprune", "C05_Clean"), ("dev_eraseonlookup", "C05_Once"), ("dev_nowithdraw", "C05_Clean")], reach=[("reach_lookup", "Reach_LookupBetweenDeadlineAndTick")])
    N.run_driver(chk, N.model_sequences(chk, 6000 if thorough else 600), "tlc-state-cover")
    N.run_driver(chk, N.random_behaviours(chk.rng, 4000 if thorough else 300, "c05"), "random-with-ticks")
    N.run_driver(chk, N.random_behaviours(chk.rng, 2000 if thorough else 150, "c05x"), "random-foreign-manifests-on-local-ids")
    import livetests
    if thorough or False:
        livetests.run(chk)   # the repository's own scenario tests, traced and validated against the same contract
    chk.assumptions += N.ASSUME
