import nodettl as N
def run(chk):
    thorough = chk.tier == "thorough"
    N.model_check(chk, dev=[("dev_noprune", "C05_Clean"), ("dev_eraseonlookup", "C05_Once"), ("dev_nowithdraw", "C05_Clean")], reach=[("reach_lookup", "Reach_LookupBetweenDeadlineAndTick")])
    N.run_driver(chk, N.model_sequences(chk, 6000 if thorough else 600), "tlc-state-cover")
    N.run_driver(chk, N.random_behaviours(chk.rng, 4000 if thorough else 300, "c05"), "random-with-ticks")
    N.run_driver(chk, N.random_behaviours(chk.rng, 2000 if thorough else 150, "c05x"), "random-foreign-manifests-on-local-ids")
    import livetests
    if thorough or False:
        livetests.run(chk)   # the repository's own scenario tests, traced and validated against the same contract
    if thorough:
        jit = [[b[0] + " jitter_us=50"] + b[1:] for b in N.random_behaviours(chk.rng, 1500, "c05")]
        N.run_driver(chk, jit, "random-moving-clock")   # clock advances 50 us per read inside the node; contract tolerance 20 ms
    chk.assumptions += N.ASSUME


from replaykit import replay  # noqa: E402,F401
