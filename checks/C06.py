import dht as _d
def run(chk):
    _d.run(chk)
def replay(chk, path):
    _d.replay(chk, path)
