import shamir as _s
def run(chk):
    _s.run_c10(chk)
def replay(chk, path):
    _s.replay_c10(chk, path)
