import shamir as _s
def run(chk):
    _s.run_c12(chk)
def replay(chk, path):
    _s.replay_c12(chk, path)
