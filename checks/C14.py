import transport as T
def run(chk):
    T.run(chk)
def replay(chk, path):
    T.replay(chk, path)
