import transport as T
def run(chk):
    T.run(chk)
