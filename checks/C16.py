import wire as _w
def run(chk):
    _w.run(chk)
def replay(chk, path):
    _w.replay(chk, path)
