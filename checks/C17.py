import manifest as _m
def run(chk):
    _m.run(chk)
def replay(chk, path):
    _m.replay(chk, path)
