import pow as _p
def run(chk):
    _p.run(chk)
def replay(chk, path):
    _p.replay(chk, path)
