import admit as _a
def run(chk):
    _a.run(chk)
def replay(chk, path):
    _a.replay(chk, path)
