import swarm as _s
def run(chk):
    _s.run(chk)
def replay(chk, path):
    _s.replay(chk, path)
