import sched as _s
def run(chk):
    _s.run_uploads(chk)
def replay(chk, path):
    _s.replay(chk, path)
