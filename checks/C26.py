import relay as _r
def run(chk):
    _r.run(chk)
def replay(chk, path):
    _r.replay(chk, path)
