import clifetch as _c
def run(chk):
    _c.run(chk)
def replay(chk, path):
    _c.replay(chk, path)
