import parsers as _p
def run(chk):
    _p.stun_run(chk)
def replay(chk, path):
    _p.stun_replay(chk, path)
