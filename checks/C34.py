import parsers as _p
def run(chk):
    _p.adv_run(chk)
def replay(chk, path):
    _p.adv_replay(chk, path)
