"""C35: no remote input crashes node or daemon (spec/NodeInputs*.tla, harness/inputs.cpp)."""
import os, re
import vlib
from vlib import log

ACTS = [("announce", m) for m in ("ok", "dupidx", "zeroidx", "thr0", "thrbig", "expired", "idmismatch", "assignabsent", "garbage", "empty", "s255")] + \
       [("chunk", d) for d in ("right", "wrong", "empty", "huge")] + [("store", None)] + \
       [("ctlfetch", m) for m in ("ok", "dupidx", "zeroidx", "garbage", "expired")] + [("other", k) for k in range(8)] + \
       [("ctlemptyout", None)] + [("ctlmalformed", k) for k in range(15)] + [("ctlabort", 0), ("ctlabort", 1), ("peerabort", 0)]


HOSTILE_EPS = ["hugeport", "port65536", "port0", "noport", "emptyport", "neg", "alpha", "colons", "long", "nul", "v6", "space"]


class Scripter:
    def __init__(self, rng):
        self.rng, self.peer = rng, 2

    def line(self, op, arg, c=1, sock=0):
        s = " sock=1" if sock and op in ("announce", "chunk", "other") else ""
        if op == "announce":
            self.peer += 1
            return "announce c=%d m=%s p=%d%s%s" % (c, arg, self.peer, " assign=1" if self.rng.random() < 0.3 else "", s)
        if op == "chunk":
            return "chunk c=%d d=%s p=%d%s" % (c, arg or "right", self.peer, s)
        if op == "store":
            return "store c=%d" % c
        if op == "ctlfetch":
            return "ctlfetch c=%d m=%s%s" % (c, arg, " stream=1" if self.rng.random() < 0.3 else "")
        if op == "other":
            return "other k=%d p=%d%s" % (arg, self.peer, s)
        if op == "ctlemptyout":
            return "ctlemptyout c=%d" % c
        if op in ("ctlabort", "peerabort"):
            self.peer += 1
            return "%s k=%d" % (op, arg if op == "ctlabort" else self.peer)
        return "ctlmalformed k=%d" % arg

    def from_hist(self, h, sock=0):
        self.peer = 2
        lines = ["reset"]
        k = 0
        for a in h:
            k += 1
            op = a["op"]
            if op in ("announce", "ctlfetch"):
                lines.append(self.line(op, a["m"], a["c"], sock))
            elif op in ("chunk", "store"):
                lines.append(self.line(op, None, a["c"], sock))
            elif op == "other":
                lines.append(self.line("other", self.rng.randrange(8), 1, sock))
            elif op == "ctlemptyout":
                lines.append(self.line("ctlemptyout", None))
            elif op in ("wire", "prehs"):
                self.peer += 1
                lines.append("%s k=%d p=%d" % (op, self.rng.randrange(520), self.peer))
            elif op == "ctlabort":
                lines.append(self.line("ctlabort", self.rng.randrange(2)))
            elif op == "peerabort":
                lines.append(self.line("peerabort", 0))
            elif op == "annassign":      # the announcer is always peer 60: "the" session of the model
                if a["ep"] == "relayhint":   # a usable endpoint nobody listens on, and a manifest whose discovery hints name relays
                    lines.append("announce c=%d m=ok p=60 assign=1 ep=%s hints=%s%s" % (a["c"], self.rng.choice(["port0", "ok"]), self.rng.choice(["relay", "relay", "relaybad", "mixed", "control"]), " sock=1" if sock else ""))
                else:
                    lines.append("announce c=%d m=ok p=60 assign=1 ep=%s%s%s" % (a["c"], "ok" if a["ep"] == "ok" else self.rng.choice(HOSTILE_EPS),
                                                                                 " hints=%s" % self.rng.choice(["relay", "mixed", "relaybad"]) if self.rng.random() < 0.25 else "", " sock=1" if sock else ""))
            elif op == "peerdrop":
                lines.append("peerdrop p=60")
            elif op == "ticks":
                lines.append("ticks n=%d ms=%d" % (self.rng.choice([3, 12, 30]), self.rng.choice([700, 1500, 2500])))
            else:
                lines.append(self.line("ctlmalformed", self.rng.randrange(15)))
        return lines


def run_driver(chk, beh, label, flavour="plain"):
    b = vlib.build("inputs", flavour)["inputs"]
    wd = vlib.workdir("inputs-%s" % label)
    events_all, nviol = [], 0
    # one driver process per batch of behaviours: a termination ends the batch, the rest is re-run
    todo = list(beh)
    batches = 0
    base = 0            # behaviours of `beh` consumed by earlier batches (the driver numbers a batch's behaviours from 1)
    hangs = 0
    while todo and batches < 40 and hangs < 3:       # three hangs are enough evidence; every further one costs the watchdog's 90 s
        batches += 1
        base = len(beh) - len(todo)
        script, trace = os.path.join(wd, "script%d.txt" % batches), os.path.join(wd, "trace%d.ndjson" % batches)
        open(script, "w").write("\n".join("\n".join(x) for x in todo) + "\n")
        rc, out = vlib.sh([b, script, trace, os.path.join(wd, "dir")], timeout=1500, check=False)
        events = vlib.read_ndjson(trace)
        for e in events:
            if e["op"] == "reset" and "bi" in e:
                e["bi"] += base
        crashed = ["# harness=inputs label=%s" % label] + ["SCRIPT " + ln for ln in beh[min(len(beh) - 1, base + max(sum(1 for e in events if e["op"] == "reset"), 1) - 1)]]
        if rc not in (0, 3, 6):        # 3: an exception escaped (event `terminated`), 6: an operation never returned (event `hung`)
            # sanitizer abort or crash: report with the operations executed so far
            kind = "sanitizer" if "Sanitizer" in out or "runtime error" in out else "killed-by-signal/SIGPIPE" if rc in (141, -13) else "killed-by-signal/%d" % (-rc if rc < 0 else rc - 128) if (rc < 0 or rc > 128) else "crash-rc%d" % rc
            if rc in (141, -13):
                chk.report("C35.killed-by-signal/SIGPIPE", "the process hosting node and daemon was killed by SIGPIPE while a remote end disconnected", crashed + [str(e) for e in events[-6:]], replay_name="C35.sigpipe")
                events_all += events
                done = sum(1 for e in events if e["op"] == "reset")
                todo = todo[max(done, 1):]
                continue
            m = re.search(r"(AddressSanitizer|UndefinedBehaviorSanitizer|runtime error)[^\n]*", out)
            chk.report("C35.%s/%s" % (kind, (m.group(0)[:60] if m else "")), "driver died (rc=%d) while delivering remote input: %s" % (rc, out[-600:]),
                       crashed + [str(e) for e in events[-6:]], replay_name="C35.%s" % kind)
        events_all += events
        hangs += 1 if rc == 6 else 0
        done = sum(1 for e in events if e["op"] == "reset")
        todo = todo[done:] if rc in (0,) else todo[max(done, 1):]
        if rc == 0:
            break
    trace = os.path.join(wd, "trace.ndjson")
    with open(trace, "w") as f:
        import json
        for e in events_all:
            f.write(json.dumps(e) + "\n")
    res = vlib.validate("NodeInputsTrace", trace)
    chk.add_traces(sum(1 for e in events_all if e["op"] == "reset"), len(events_all), res, label)
    for e in events_all:
        chk.nontrivial([e["op"], e.get("m"), e.get("k"), e.get("d"), e.get("out"), e.get("sock")])
    chk.sample({"source": label, "first_events": events_all[:8]})
    vlib.report_trace_violations(chk, res, events_all, label=label, behaviours=beh, harness="inputs")
    log("[trace] %s: %d events, %d clause failures" % (label, len(events_all), len(res["viol"])))


def run(chk):
    thorough = chk.tier == "thorough"
    r = vlib.mc("NodeInputs", "MC_NodeInputs.cfg", workers=2, timeout=300)
    chk.add_model("NodeInputs as coded (index validation, guarded key reconstruction, guarded control handler): C35_NoThrow", r)
    for cfg in ("dev_noguard", "dev_nocontrolguard", "dev_sigpipe", "dev_unsafedecode", "dev_endpointthrows", "dev_norelayclient"):
        vlib.mc("NodeInputs", "MC_NodeInputs_%s.cfg" % cfg, expect_violation="C35_NoThrow", workers=2, timeout=300)
    vlib.mc("NodeInputs", "MC_NodeInputs_reach_poisonchunk.cfg", expect_violation="Reach_PoisonThenChunk", workers=2, timeout=300)
    vlib.mc("NodeInputs", "MC_NodeInputs_reach_poisonfetch.cfg", expect_violation="Reach_PoisonHeldThenFetch", workers=2, timeout=300)
    vlib.mc("NodeInputs", "MC_NodeInputs_reach_endpoint.cfg", expect_violation="Reach_HostileEndpointParsed", workers=2, timeout=300)
    vlib.mc("NodeInputs", "MC_NodeInputs_reach_relayhint.cfg", expect_violation="Reach_RelayHintWalked", workers=2, timeout=300)
    # sequences are taken from the model WITHOUT index validation: they contain the poison-then-trigger histories
    rg, hists = vlib.dump_hists("NodeInputs", "MC_NodeInputs_gen.cfg", workers=2, timeout=300)
    chk.add_model("NodeInputs without index validation (sequence generator: every reachable cache/held state)", rg)
    sc = Scripter(chk.rng)
    hists = [h for h in hists if h]
    beh = [sc.from_hist(h) for h in hists]
    # transition cover: every action of the harness alphabet after every state-cover path (sample in quick)
    paths = hists if thorough else chk.rng.sample(hists, min(len(hists), 8))
    for h in paths:
        for op, arg in ACTS:
            base = sc.from_hist(h, sock=0)
            beh.append(base + [sc.line(op, arg, 1)])
    # the same through the node's own reader thread (frames over the adopted session)
    beh += [sc.from_hist(h, sock=1) for h in (hists if thorough else hists[:10])]
    # structurally hostile encodings (extreme / wrapping length words, truncations): validly MACed over the session
    # (driver thread and the node's reader thread) and unauthenticated to the transport listener before any handshake
    NW = 520
    step = 1 if thorough else 3
    beh.append(["reset"] + ["wire k=%d p=7" % k for k in range(0, NW, step)])
    beh.append(["reset"] + ["wire k=%d p=8 sock=1" % k for k in range(1, NW, step * 2)])
    beh.append(["reset"] + ["prehs k=%d" % k for k in range(2, NW, step)] + ["prehs k=0 lenoverride=4294967295", "prehs k=0 lenoverride=0", "prehs k=1 lenoverride=70000"])
    # attacker-chosen endpoint texts in otherwise valid announces (with a shard assigned, so that a fetch is pending), the announcer's
    # session then ends, and the daemon's loop keeps ticking: the node falls back to the advertised endpoint at a fetch retry
    EPS = HOSTILE_EPS + ["ok"]
    for k, ep in enumerate(EPS):
        beh.append(["reset", "announce c=%d m=ok p=%d assign=1 ep=%s" % (1 + k % 3, 11 + k, ep), "peerdrop p=%d" % (11 + k), "ticks n=12 ms=1500",
                    "announce c=%d m=ok p=%d assign=1 ep=%s sock=1" % (2 + k % 2, 31 + k, ep), "ticks n=3 ms=700", "peerdrop p=%d" % (31 + k), "ticks n=40 ms=2000", "other k=0 p=5"])
    # manifests whose discovery hints name relays / control endpoints, on a node in the shipped default configuration (relaying enabled,
    # no relay endpoint listed) and on one with relaying switched off: the hints are walked once the direct attempt at the announcer fails
    for k, (hints, ep, relay) in enumerate([(h, e, r) for h in ("relay", "relaybad", "mixed", "control") for e in ("port0", "ok") for r in ("default", "off")]):
        beh.append(["reset relay=%s" % relay, "announce c=%d m=ok p=%d assign=1 ep=%s hints=%s" % (1 + k % 3, 51 + k, ep, hints), "ticks n=2 ms=700",
                    "peerdrop p=%d" % (51 + k), "ticks n=20 ms=1500", "other k=0 p=5"])
    run_driver(chk, beh, "tlc-sequences")
    if thorough:
        run_driver(chk, beh[: len(hists) + 60], "tlc-sequences-asan", flavour="asan")
    chk.assumptions += ["signed adversarial messages are produced with the session key of a stub peer (an attacker who completed a handshake)",
                        "pre-handshake bytes on the transport listener are exercised by the C14/C20 socket drivers, not here",
                        "sanitizers (thorough tier) are monitors for the memory-safety part; the functional oracle is the trace contract"]


def replay(chk, path):
    harness, lines = vlib.read_replay(path)
    run_driver(chk, [lines], "replay")
