"""C36: daemon threads never race on shared node state (spec/Concurrency*.tla, harness/conc.cpp)."""
import os, re
import vlib
from vlib import log


def run(chk):
    thorough = chk.tier == "thorough"
    r = vlib.mc("Concurrency", "MC_Concurrency.cfg", workers=4, timeout=600)
    chk.add_model("Concurrency as coded: groups guarded by scheduler_mutex are race free (handshake_state, manifest_cache, dht, fetch_table)", r)
    for cfg, inv in (("dev_key", "RF_key_contexts"), ("dev_session", "RF_session_key"), ("dev_adv", "RF_advertised_endpoints")):
        vlib.mc("Concurrency", "MC_Concurrency_%s.cfg" % cfg, expect_violation=inv, workers=2, timeout=300)
    r2 = vlib.mc("Concurrency", "MC_Concurrency_repaired.cfg", workers=4, timeout=600)
    chk.add_model("Concurrency with a guard mutex on key_contexts, session_key, advertised_endpoints: C36_RaceFree holds", r2)
    b = vlib.build("conc")["conc"]
    wd = vlib.workdir("conc-C36")
    runs = 6 if thorough else 2
    for i in range(runs):
        trace = os.path.join(wd, "trace%d.ndjson" % i)
        rc, out = vlib.sh([b, trace, os.path.join(wd, "dir"), str(150 if thorough else 40), str(chk.seed + i)], timeout=900, check=False)
        if rc not in (0, 4):
            raise vlib.MachineryError("conc driver failed rc=%d\n%s" % (rc, out[-2000:]))
        events = vlib.read_ndjson(trace)
        if rc == 4:
            # the process fell over under the concurrent load; the accesses observed until then are still analysed
            chk.cov["scenario_crashed_runs"] = chk.cov.get("scenario_crashed_runs", 0) + 1
            log("[trace] run %d crashed with signal %s under concurrent load (a manifestation of the races reported below)" % (i, events[0].get("crashed") if events else "?"))
        res = vlib.validate("ConcurrencyTrace", trace)
        chk.add_traces(1, len(events), res, "daemon-scenario-%d" % i)
        for e in events[1:]:
            chk.nontrivial([e["group"], e["site"], e["w"], sorted(e["locks"])])
        if i == 0:
            chk.sample({"first_events": events[:10]})
        vlib.report_trace_violations(chk, res, events, label="lockset analysis of observed accesses")
        log("[trace] run %d: %d distinct accesses (%s probe hits), %d racing events" % (i, len(events) - 1, events[0].get("probes"), len(res["viol"])))
    # second observer: ThreadSanitizer watches the same scenario and sees accesses that carry no probe.  Each of its race reports
    # becomes two access events (site = innermost function of the tree under test, lockset = the mutexes TSan saw held) and the same
    # trace specification judges them; an access pair on state the probes do not cover forms a group of its own
    tsan_observe(chk, wd, 60 if thorough else 25)
    chk.assumptions += ["locksets are observed by interposing pthread_mutex_lock/trylock/unlock in the driver; accesses are observed at the guarded probe sites only",
                        "Eraser-style lockset discipline: a conflicting pair with disjoint locksets is reported even if the two accesses were ordered by chance in this run",
                        "accesses before the daemon's threads exist (construction) are not recorded; the scenario arms the probes before start_transport"]


KNOWN_GROUP = (("KeyManager::", "key_contexts"), ("Node::preferred_control_endpoints", "advertised_endpoints"),
               ("Node::refresh_advertised_endpoints", "advertised_endpoints"))
TRANSPORT_CLASSES = ("SessionManager", "ControlServer", "ControlClient", "ControlPlane", "RelayClient", "StructuredLogger", "Impl")


def _short(fn):
    fn = re.sub(r"\(.*$", "", fn.strip())
    fn = re.sub(r"<[^<>]*>", "", fn)
    parts = [x for x in fn.split("::") if x and x not in ("ephemeralnet", "network", "core", "daemon", "crypto", "protocol", "dht", "storage", "security")]
    return "::".join(parts[-2:]) if parts else fn


def tsan_reports(text, repo):
    """[(group or None, [(site, w, tid, locks), (site, w, tid, locks)])] of the data-race reports whose stacks reach the tree under test"""
    out = []
    for rep in text.split("WARNING: ThreadSanitizer: data race")[1:]:
        rep = rep.split("==================")[0]
        secs = re.split(r"\n  (?=(?:Previous )?(?:[Aa]tomic )?(?:[Ww]rite|[Rr]ead) of size)", rep)
        acc = []
        files = []
        for sec in secs[1:3]:
            head = sec.split("\n", 1)[0]
            w = "rite" in head.split(" of size")[0]
            tid = re.search(r"by (main thread|thread T(\d+))", head)
            t = 0 if not tid or tid.group(2) is None else int(tid.group(2))
            locks = sorted(set(re.findall(r"\bM\d+\b", head)))
            frames = re.findall(r"#\d+ (.+?) %s/((?:src|include)/[\w/\.\-]+):\d+" % re.escape(repo), sec.split("\n\n")[0])
            if not frames:
                acc = []
                break
            files += [f for _, f in frames]
            acc.append((_short(frames[0][0]), w, t, locks, [_short(fn) for fn, _ in frames]))
        if len(acc) != 2:
            continue
        allfns = acc[0][4] + acc[1][4]
        # construction / destruction of a node object (the scenario's short-lived peer nodes reuse stack slots) is not one of the schedules
        # the property quantifies over (control requests, handshakes and messages on session threads, ticks)
        if any(fn.split("::")[-1].startswith("~") or (len(fn.split("::")) >= 2 and fn.split("::")[-1] == fn.split("::")[-2]) for fn in allfns):
            continue
        group = None
        for pat, g in KNOWN_GROUP:
            if any(pat in fn for fn in allfns):
                group = g
                break
        if group is None:
            inner = [acc[0][0], acc[1][0]]
            if all(fn.split("::")[0] in TRANSPORT_CLASSES for fn in inner):
                # inside the transport / control classes: Session::key replaced by register_peer_key while the session's threads read it
                # is the session_key group; their sockets and own records are not node state
                if any("register_peer_key" in fn for fn in inner):
                    group = "session_key"
                else:
                    continue
            else:
                group = "unprobed:" + "~".join(sorted(set(inner)))
        out.append((group, [a[:4] for a in acc]))
    return out


def tsan_observe(chk, wd, rounds):
    import glob, json
    bt = vlib.build("conc", "tsan")["conc"]
    logp = os.path.join(wd, "tsanlog")
    for f in glob.glob(logp + ".*"):
        os.remove(f)
    rc, out = vlib.sh([bt, os.path.join(wd, "tsan.ndjson"), os.path.join(wd, "dir-tsan"), str(rounds), str(chk.seed)], timeout=1500, check=False,
                      env={"TSAN_OPTIONS": "halt_on_error=0 report_signal_unsafe=0 history_size=4 exitcode=0 log_path=" + logp})
    if rc not in (0, 4, 66):
        raise vlib.MachineryError("conc driver (tsan) failed rc=%d\n%s" % (rc, out[-2000:]))
    text = "".join(open(f, errors="replace").read() for f in sorted(glob.glob(logp + ".*")))
    reps = tsan_reports(text, vlib.REPO.rstrip("/"))
    sites = sorted({a[0] for _, accs in reps for a in accs})
    events = [{"op": "reset", "probes": 0, "observer": "tsan", "reports": len(reps)}]
    seen = set()
    for k, (group, accs) in enumerate(reps):
        key = (group, tuple(sorted((a[0], a[1]) for a in accs)))
        if key in seen:
            continue
        seen.add(key)
        for site, w, tid, locks in accs:
            events.append({"op": "access", "obj": len(seen), "group": group, "site": "tsan:" + site, "sid": sites.index(site), "w": w, "tid": tid + 1000 * (accs[0][2] == accs[1][2] and site == accs[1][0]),
                           "locks": locks})
    trace = os.path.join(wd, "tsan-accesses.ndjson")
    with open(trace, "w") as f:
        for e in events:
            f.write(json.dumps(e) + "\n")
    res = vlib.validate("ConcurrencyTrace", trace)
    chk.add_traces(1, len(events), res, "thread-sanitizer-observer")
    for e in events[1:]:
        chk.nontrivial(["tsan", e["group"], e["site"], e["w"]])
    chk.cov["tsan_race_reports"] = len(reps)
    chk.cov["tsan_groups"] = sorted({g for g, _ in reps})[:40]
    vlib.report_trace_violations(chk, res, events, label="ThreadSanitizer reports judged by the lockset contract")
    log("[tsan] %d data-race reports reaching the tree under test, %d distinct access pairs, groups %s, %d racing events" % (
        len(reps), len(seen), sorted({g for g, _ in reps}), len(res["viol"])))
    chk.assumptions.append("ThreadSanitizer (g++ -fsanitize=thread) is a second observer of accesses: a report is turned into two access events with the locks TSan saw held; "
                           "reports whose stacks stay inside SessionManager / ControlServer / RelayClient (sockets, their own records) are not node state and are not judged")


def replay(chk, path):
    """the concurrency scenario is not scripted (threads, rounds and seed are fixed by the check): a replay re-runs it and
    reports the racing site pairs it observes, which is what the replay file of a C36 violation records"""
    run(chk)
