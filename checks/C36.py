"""C36: daemon threads never race on shared node state (spec/Concurrency*.tla, harness/conc.cpp)."""
import os, re
import vlib
from vlib import log


def run(chk):
    thorough = chk.tier == "thorough"
    r = vlib.mc("Concurrency", "MC_Concurrency.cfg", workers=4, timeout=600)
    chk.add_model("Concurrency as coded: groups guarded by scheduler_mutex are race free (handshake_state, manifest_cache, dht, fetch_table)", r)
    for cfg, inv in (("dev_key", "RF_key_contexts"), ("dev_session", "RF_session_key"), ("dev_adv", "RF_advertised_endpoints")):
        vlib.mc("Concurrency", "MC_Concurrency_%s.cfg" % cfg, expect_violation=inv, workers=2, timeout=300)
    r2 = vlib.mc("Concurrency", "MC_Concurrency_repaired.cfg", workers=4, timeout=600)
    chk.add_model("Concurrency with a guard mutex on key_contexts, session_key, advertised_endpoints: C36_RaceFree holds", r2)
    b = vlib.build("conc")["conc"]
    wd = vlib.workdir("conc-C36")
    runs = 6 if thorough else 2
    for i in range(runs):
        trace = os.path.join(wd, "trace%d.ndjson" % i)
        rc, out = vlib.sh([b, trace, os.path.join(wd, "dir"), str(150 if thorough else 40), str(chk.seed + i)], timeout=900, check=False)
        if rc not in (0, 4):
            raise vlib.MachineryError("conc driver failed rc=%d\n%s" % (rc, out[-2000:]))
        events = vlib.read_ndjson(trace)
        if rc == 4:
            # the process fell over under the concurrent load; the accesses observed until then are still analysed
            chk.cov["scenario_crashed_runs"] = chk.cov.get("scenario_crashed_runs", 0) + 1
            log("[trace] run %d crashed with signal %s under concurrent load (a manifestation of the races reported below)" % (i, events[0].get("crashed") if events else "?"))
        res = vlib.validate("ConcurrencyTrace", trace)
        chk.add_traces(1, len(events), res, "daemon-scenario-%d" % i)
        for e in events[1:]:
            chk.nontrivial([e["group"], e["site"], e["w"], sorted(e["locks"])])
        if i == 0:
            chk.sample({"first_events": events[:10]})
        vlib.report_trace_violations(chk, res, events, label="lockset analysis of observed accesses")
        log("[trace] run %d: %d distinct accesses (%s probe hits), %d racing events" % (i, len(events) - 1, events[0].get("probes"), len(res["viol"])))
    if thorough:
        # ThreadSanitizer watches the same scenario (monitor for accesses that carry no probe)
        bt = vlib.build("conc", "tsan")["conc"]
        rc, out = vlib.sh([bt, os.path.join(wd, "tsan.ndjson"), os.path.join(wd, "dir"), "60", str(chk.seed)], timeout=1500, check=False,
                          env={"TSAN_OPTIONS": "halt_on_error=0 report_signal_unsafe=0 history_size=4"})
        pairs = set()
        for rep in out.split("WARNING: ThreadSanitizer: data race")[1:]:
            fr = re.findall(r"#\d+ ([\w:~<>]+)\(?[^\n]*?/repo/src/([\w/]+\.cpp):\d+", rep)
            fns = []
            for fn, f in fr:
                if fn not in fns:
                    fns.append(fn)
            if fns:
                pairs.add(" / ".join(sorted(fns[:2])))
        chk.cov["tsan_reports_in_repo_frames"] = sorted(pairs)[:40]
        log("[tsan] %d distinct race reports with /repo frames" % len(pairs))
    chk.assumptions += ["locksets are observed by interposing pthread_mutex_lock/trylock/unlock in the driver; accesses are observed at the guarded probe sites only",
                        "Eraser-style lockset discipline: a conflicting pair with disjoint locksets is reported even if the two accesses were ordered by chance in this run",
                        "accesses before the daemon's threads exist (construction) are not recorded; the scenario arms the probes before start_transport"]


def replay(chk, path):
    """the concurrency scenario is not scripted (threads, rounds and seed are fixed by the check): a replay re-runs it and
    reports the racing site pairs it observes, which is what the replay file of a C36 violation records"""
    run(chk)
