import parsers as _p
def run(chk):
    _p.log_run(chk)
def replay(chk, path):
    _p.log_replay(chk, path)
