import parsers as _p
def run(chk):
    _p.upd_run(chk)
def replay(chk, path):
    _p.upd_replay(chk, path)
