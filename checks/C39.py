"""C39: key rotation (spec/KeyRotation*.tla, harness/keyrot.cpp)."""
import os
import vlib
from vlib import log

UNIT_S = 5   # one model time unit = 5 s (the smallest rotation interval the node accepts)


def scripts_from(hists, ia, ib, skew):
    out = []
    for h in hists:
        lines = ["reset ia=%d ib=%d skew=%d" % (ia * UNIT_S, ib * UNIT_S, skew * UNIT_S * 1000)]
        for a in h:
            lines.append("adv ms=%d" % (UNIT_S * 1000) if a["op"] == "adv" else "rehs from=%s" % a["n"] if a["op"] == "rehs" else "tick n=%s" % a["n"])
        lines += ["send from=a", "send from=b"]
        out.append(lines)
    return out


def run(chk):
    thorough = chk.tier == "thorough"
    # the code-shaped design violates the contract (that is the recorded finding); the two repairs satisfy it
    for cfg in ("", "_skew", "_timefree_only"):
        r = vlib.mc("KeyRotation", "MC_KeyRotation%s.cfg" % cfg, expect_violation="C39_SameKeyWhileOpen", workers=2, timeout=300)
    for cfg in ("_repair_coordinated", "_repair_teardown"):
        r = vlib.mc("KeyRotation", "MC_KeyRotation%s.cfg" % cfg, workers=2, timeout=300)
        chk.add_model("KeyRotation %s: C39_SameKeyWhileOpen holds" % cfg, r)
    vlib.mc("KeyRotation", "MC_KeyRotation_reach_equal.cfg", expect_violation="Reach_BothRotatedEqually", workers=2, timeout=300)
    # "... or the session is torn down and re-established": a re-handshake over the open connection puts both ends on one key again
    r = vlib.mc("KeyRotation", "MC_KeyRotation_rehs.cfg", workers=2, timeout=300)
    chk.add_model("KeyRotation as coded with one re-handshake over the open connection: C39_ReHandshakeConverges holds", r)
    vlib.mc("KeyRotation", "MC_KeyRotation_dev_rehsignored.cfg", expect_violation="C39_ReHandshakeConverges", workers=2, timeout=300)
    vlib.mc("KeyRotation", "MC_KeyRotation_reach_rehs.cfg", expect_violation="Reach_ReHandshakeAfterDrift", workers=2, timeout=300)
    # a tick takes its "now" at its top and rotates at its end; a handshake registered in between is younger than that "now"
    r = vlib.mc("KeyRotation", "MC_KeyRotation_split.cfg", workers=2, timeout=300)
    chk.add_model("KeyRotation as coded with ticks split into begin / end and a re-handshake in between: C39_NoEarlyRotation, C39_ReHandshakeConverges hold", r)
    vlib.mc("KeyRotation", "MC_KeyRotation_dev_negelapsed.cfg", expect_violation="C39_NoEarlyRotation", workers=2, timeout=300)
    vlib.mc("KeyRotation", "MC_KeyRotation_reach_inside.cfg", expect_violation="Reach_HandshakeInsideTick", workers=2, timeout=300)
    r, hists = vlib.dump_hists("KeyRotation", "MC_KeyRotation_gen.cfg", workers=2, timeout=300)
    chk.add_model("KeyRotation design as coded (IntA=2, IntB=3, skew 1, now<=6): reachable states used as tick schedules", r)
    hists = [h for h in hists if h]
    beh = scripts_from(hists, 2, 3, 1) + scripts_from(hists, 2, 2, 0)
    rng = chk.rng
    # random phases with millisecond offsets between the two nodes' ticks
    for _ in range(400 if thorough else 40):
        ia, ib = rng.choice([5, 5, 7, 10]), rng.choice([5, 6, 10])
        lines = ["reset ia=%d ib=%d skew=%d seed=%d hpow=%d" % (ia, ib, rng.choice([0, 0, 1, 500, 3000]), rng.randrange(50), rng.choice([0, 16, 16]))]
        for _ in range(rng.randint(3, 14)):
            x = rng.random()
            if x < 0.45:
                lines.append("adv ms=%d" % rng.choice([1, 999, 1000, 2500, 4999, 5000, 5001, 10000]))
            elif x < 0.85:
                lines.append("tick n=%s" % rng.choice("ab"))
            elif x < 0.90:
                lines.append("send from=%s" % rng.choice("ab"))
            elif x < 0.94:
                lines.append("rehs from=%s" % rng.choice("ab"))
            elif x < 0.97:
                lines.append("tickrace n=%s adv=%d" % (rng.choice("ab"), rng.choice([1, 50, 900])))
            else:
                lines.append("intrude n=%s k=%d" % (rng.choice("ab"), rng.randrange(100)))
        beh.append(lines)
    # a refused third-party handshake under the peer's id, inside the rotation interval: nothing may move
    for n in "ab":
        beh.insert(0, ["reset ia=3600 ib=3600 skew=0 seed=7 hpow=16", "send from=a", "intrude n=%s k=1" % n, "send from=a", "send from=b", "intrude n=%s k=2" % n, "tick n=a", "tick n=b", "send from=b"])
    # drift by one end's rotation, then a re-handshake over the open connection: the session is re-established on one key
    for frm in "ab":
        for ia, ib in ((5, 5), (5, 3600), (3600, 5)):
            beh.insert(0, ["reset ia=%d ib=%d skew=0 seed=3 hpow=0" % (ia, ib), "send from=a", "adv ms=5300", "tick n=a", "tick n=b", "rehs from=%s" % frm, "send from=a", "send from=b",
                           "adv ms=5300", "tick n=b", "tick n=a", "rehs from=%s" % frm, "send from=b"])
    # a tick in flight while the other end handshakes again: the key material is younger than the tick's "now", nothing is due
    for n in "ab":
        for ia, ib in ((300, 300), (5, 3600), (3600, 5)):
            beh.insert(0, ["reset ia=%d ib=%d skew=0 seed=5 hpow=0" % (ia, ib), "send from=a", "adv ms=1000", "tickrace n=%s adv=50" % n, "send from=a", "send from=b",
                           "tick n=a", "tick n=b", "send from=b", "tickrace n=%s adv=1" % n, "send from=a"])
    if not thorough:
        beh = beh[:40] + rng.sample(beh[40:], min(len(beh) - 40, 110)) if len(beh) > 150 else beh
    execute(chk, beh, "tlc-schedules+random-phases")
    chk.assumptions += ["loopback sessions between two in-process Nodes; virtual clock (ticks placed at chosen instants)",
                        "key identity compared by value through Node::session_key(); rotation counters are inferred (ghost) from key changes at the node's own tick"]


def replay(chk, path):
    harness, lines = vlib.read_replay(path)
    execute(chk, [lines], "replay")


def execute(chk, beh, label):
    b = vlib.build("keyrot")["keyrot"]
    wd = vlib.workdir("keyrot-C39-%s" % ("replay" if label == "replay" else "run"))
    script, trace = os.path.join(wd, "script.txt"), os.path.join(wd, "trace.ndjson")
    open(script, "w").write("\n".join("\n".join(x) for x in beh) + "\n")
    vlib.sh([b, script, trace, os.path.join(wd, "dir")], timeout=1500)
    events = vlib.read_ndjson(trace)
    res = vlib.validate("KeyRotationTrace", trace)
    chk.add_traces(len(beh), len(events), res, label)
    for e in events:
        chk.nontrivial([e["op"], e.get("n"), e["ka"] == e["kb"], e["ca"], e["cb"], e.get("delivered")])
    chk.sample({"first_events": events[:12]})
    lost = sum(1 for e in events if e["op"] == "send" and e["sent"] and not e["delivered"] and e["ka"] != e["kb"])
    chk.cov["messages_lost_while_keys_differ"] = lost
    vlib.report_trace_violations(chk, res, events, label="two real nodes over loopback", behaviours=beh, harness="keyrot")
    log("[trace] %d behaviours, %d events, %d clause failures; %d messages sent while keys differed were not delivered intact" % (len(beh), len(events), len(res["viol"]), lost))
