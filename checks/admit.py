"""Admission checks shared by C20 (inbound transport handshakes) and C21 (ANNOUNCE admission):
spec/Handshake*.tla, spec/Announce*.tla, harness/admit.cpp."""
import os, json, concurrent.futures
import vlib
from vlib import log

HS_INV = ["C20_AcceptNeedsValidKey", "C20_AcceptNeedsValidPow", "C20_AcceptRegisters", "C20_RejectKeepsKeys", "C20_RejectLowersRep"]
HS_SIDE = [("dev_cooldownskip", "C20_AcceptNeedsValidPow"), ("dev_badkeynopenalty", "C20_RejectLowersRep"), ("dev_oldversion", "C20_AcceptNeedsValidPow"),
           ("reach_otherkeyincooldown", "Reach_OtherKeyInCooldown"), ("reach_badnonceincooldown", "Reach_BadNonceInCooldown"),
           ("reach_repeatincooldown", "Reach_RepeatInCooldown"), ("reach_atcooldownend", "Reach_AtCooldownEnd"),
           ("reach_rejectatfloor", "Reach_RejectAtFloor"), ("reach_badkeywithsession", "Reach_BadKeyWithSession")]
ANN_SIDE = [("dev_nolockcheck", "C21_LockedMeansNoChange"), ("dev_lockshort", "C21_LockedMeansNoChange"),
            ("dev_nointerval", "C21_SpacingOK"), ("dev_burstoffbyone", "C21_BurstOK"), ("dev_noassigned", "C21_StateChangeOnlyIfAdmissible"),
            ("reach_lockedrefusal", "Reach_LockedRefusal"), ("reach_acceptatlockend", "Reach_AcceptAtLockEnd"),
            ("reach_burstrefusal", "Reach_BurstRefusal"), ("reach_acceptatinterval", "Reach_AcceptAtInterval"),
            ("reach_otherpeerlocked", "Reach_OtherPeerLocked"), ("reach_tworeadings", "Reach_TwoReadings")]


def side_models(module, side, workers=1, par=4, timeout=300):
    """deviation configs must violate the named invariant, reach configs must reach their scenario"""
    def one(x):
        cfg, inv = x
        return vlib.mc(module, "MC_%s_%s.cfg" % (module, cfg), expect_violation=inv, workers=workers, timeout=timeout)
    with concurrent.futures.ThreadPoolExecutor(par) as ex:
        return list(ex.map(one, side))


# --------------------------------------------------------------------------------------------
# script <-> trace plumbing.  Every script command yields exactly one event, so event line l is
# script command l; a replay file is the failing behaviour's commands.
def run_script(chk, groups, trace_module):
    """groups: [(label, [behaviour = list of commands])]; one driver run, one TLC validation"""
    groups = [(lab, bs) for lab, bs in groups if bs]
    if not groups:
        return []
    b = vlib.build("admit")["admit"]
    wd = vlib.workdir("admit-%s" % chk.pid)
    script, trace = os.path.join(wd, "script.txt"), os.path.join(wd, "trace.ndjson")
    cmds, spans = [], []
    for lab, bs in groups:
        lo = len(cmds)
        for lines in bs:
            cmds += lines
        spans.append((lab, lo, len(cmds), len(bs)))
    with open(script, "w") as f:
        f.write("\n".join(cmds) + "\n")
    vlib.sh([b, script, trace], timeout=900)
    events = vlib.read_ndjson(trace)
    if len(events) != len(cmds):
        raise vlib.MachineryError("driver wrote %d events for %d commands" % (len(events), len(cmds)))
    res = vlib.validate(trace_module, trace)
    for lab, lo, hi, nb in spans:
        nv = sum(1 for v in res.get("viol", []) if lo < v["l"] <= hi)
        chk.add_traces(nb, hi - lo, res if lab == spans[0][0] else None, lab)
        chk.sample({"source": lab, "first_events": [slim(e) for e in events[lo:lo + 5]]})
        log("[trace] %s: %d behaviours, %d events, %d clause failures" % (lab, nb, hi - lo, nv))
    log("[trace] validated by %s: %s" % (trace_module, res.get("stats")))
    starts = [i for i, c in enumerate(cmds) if c.startswith("reset")]
    for v in res.get("viol", []):
        l = v["l"]
        st = max(s for s in starts if s < l)
        lab = next(lab for lab, lo, hi, nb in spans if lo < l <= hi)
        lines = ["# failing event (command %d of the behaviour): %s" % (l - st, json.dumps(v.get("detail")))] + cmds[st:l]
        for cl in (v["clause"] if isinstance(v["clause"], list) else [v["clause"]]):
            chk.report(cl, "%s contract clause %s fails on a recorded execution of the real Node (%s)" % (chk.pid, cl, lab), lines, replay_name=cl)
    return events


def slim(e):
    e = dict(e)
    for k in ("keyB", "keyA", "acckey"):
        if k in e:
            e[k] = "(%d bytes)" % len(e[k]) if k == "acckey" else [len(x) for x in e[k]]
    return e


def replay(chk, path):
    cmds = [x.rstrip("\n") for x in open(path) if x.strip() and not x.startswith("#")]
    if not cmds:
        raise vlib.MachineryError("empty replay file")
    mod = "HandshakeTrace" if chk.pid == "C20" else "AnnounceTrace"
    run_script(chk, [("replay", [cmds])], mod)


# --------------------------------------------------------------------------------------------
# C20
def hs_scripts(hists, cooldown=2, tick_ms=1000):
    out = []
    for h in hists:
        lines = ["reset mode=hs cooldown=%d diff=8 npeers=2" % cooldown]
        for a in h:
            if a["op"] == "adv":
                lines.append("adv ms=%d" % (a["d"] * tick_ms))
            else:
                k = 0 if a["pub"] == 99 else a["pub"]
                # the requested protocol version is the attacker's choice too (the model's "old": below the version that introduced announce PoW)
                ver = " ver=%d" % (1 + (a["p"] + k + len(lines)) % 2) if a.get("ver") == "old" else ""
                lines.append("hs p=%d k=%d nonce=%s%s" % (a["p"], k, "solved" if a["pow"] else "bad", ver))
        out.append(lines)
    return out


HS_ACTS = ["hs p=%d k=%d nonce=%s" % (p, k, n) for p in (1, 2) for k in (0, 1, 2) for n in ("solved", "bad")] + ["adv ms=1000"]


def hs_random(rng, n):
    out = []
    # configured bootstrap peers with a pinned identity: the pinned key with work that does not verify, at once and after the cooldown
    for cd in (0, 5):
        out.append(["reset mode=hs cooldown=%d diff=8 npeers=2 boot=1" % cd, "hs p=1 k=1 nonce=bad", "hs p=1 k=1 nonce=rand", "hs p=2 k=1 nonce=bad", "hs p=2 k=1 nonce=bad",
                    "adv ms=%d" % (cd * 1000 + 1), "hs p=1 k=1 nonce=bad", "hs p=1 k=2 nonce=bad", "hs p=1 k=1 nonce=solved", "hs p=2 k=0 bad=1 nonce=rand", "tick", "hs p=2 k=1 nonce=rand"])
    for _ in range(n):
        cd = rng.choice([0, 1, 2, 2, 5, 5, 30])
        npeers = rng.choice([1, 2, 3])
        diff = rng.choice([8, 8, 8, 10, 0])
        lines = ["reset mode=hs cooldown=%d diff=%d npeers=%d%s" % (cd, diff, npeers, " boot=1" if rng.random() < 0.3 else "")]
        now, marks = 0, []
        for _ in range(rng.randint(2, 30)):
            x = rng.random()
            if x < 0.72:
                p = rng.randint(1, npeers)
                k = rng.choice([1, 1, 2, 2, 0])
                nonce = rng.choice(["solved", "solved", "solved", "bad", "bad", "alt", "other", "rand"]) if k else rng.choice(["solved", "bad", "rand"])
                lines.append("hs p=%d k=%d%s nonce=%s%s" % (p, k, "" if k else " bad=%d" % rng.randrange(6), nonce, rng.choice(["", "", "", " ver=1", " ver=2", " ver=3", " ver=0", " ver=255"])))
                marks.append(now)
            else:
                # land exactly on / next to the end of a cooldown that started at an earlier handshake
                future = [m + cd * 1000 + o for m in marks for o in (-1, 0, 0, 1) if m + cd * 1000 + o > now]
                if future and rng.random() < 0.6:
                    d = rng.choice(future) - now
                else:
                    d = rng.choice([0, 1, 500, 999, 1000, 1001, 2000, 5000, 60000])
                now += d
                lines.append("adv ms=%d" % d)
        out.append(lines)
    return out


def hs_classes(chk, events):
    cd = 0
    for e in events:
        if e["op"] == "reset":
            cd = e.get("cooldown", 0) * 1000
        elif e["op"] == "hs":
            p, (ok, last, same) = e["p"], e["recB"]
            el = e["t"] - last
            where = "first" if ok < 0 else "afterfail" if ok == 0 else "in" if el < cd else "edge" if el == cd else "after"
            chk.nontrivial(["hs", e["k"] > 0, e["pow"], e["acc"], where, bool(same), bool(e["keyB"][p - 1]), e["keyA"] != e["keyB"],
                            (e["repA"][p - 1] > e["repB"][p - 1]) - (e["repA"][p - 1] < e["repB"][p - 1]), e["repB"][p - 1] <= -100, e["src"]])


def run_c20(chk):
    thorough = chk.tier == "thorough"
    rng = chk.rng
    # thorough: the full model (<= 12 actions) is model-checked; sequences are exported from the
    # 8-action model (the dump of the full one is too large to replay usefully)
    main_cfg = "MC_Handshake_cover.cfg" if thorough else "MC_Handshake.cfg"
    with concurrent.futures.ThreadPoolExecutor(3) as ex:
        fside = ex.submit(side_models, "Handshake", HS_SIDE)
        ffull = ex.submit(vlib.mc, "Handshake", "MC_Handshake_full.cfg", workers=8, timeout=1000) if thorough else None
        r, hists = vlib.dump_hists("Handshake", main_cfg, workers=8, timeout=600 if thorough else 280)
        fside.result()
        rfull = ffull.result() if ffull else None
    note = "invariants " + " ".join(HS_INV) + "; deviations CooldownSkipsChecks / InvalidKeyNoPenalty violate; 6 reach scenarios"
    chk.add_model("Handshake design=>contract (2 claimed peers x (2 valid keys + invalid key) x powOK, cooldown 2, now<=4, %s)" % main_cfg, r, note)
    if rfull:
        chk.add_model("same, <= 12 actions, reputation scale -6..2 (MC_Handshake_full.cfg)", rfull, note)
    # handshakes that request an old protocol version (the PoW nonce is part of the handshake payload in every version)
    rv, hists_v = vlib.dump_hists("Handshake", "MC_Handshake_versions.cfg", workers=8, timeout=280)
    chk.add_model("Handshake design=>contract with requested versions {current, old}, <= 4 actions", rv, note)
    scripts = hs_scripts(hists) + hs_scripts([h for h in hists_v if any(a.get("ver") == "old" for a in h)])
    log("[gen] %d TLC state-cover sequences" % len(scripts))
    cover = rng.sample(scripts, min(len(scripts), 8000 if thorough else 1500))
    ext = [lines + [a, b] for lines in rng.sample(scripts, min(len(scripts), 400 if thorough else 50)) for a in HS_ACTS for b in rng.sample(HS_ACTS, 2)]
    ev = run_script(chk, [("tlc-state-cover", cover), ("tlc-transition-cover", ext), ("random", hs_random(rng, 3000 if thorough else 400))], "HandshakeTrace")
    hs_classes(chk, ev)
    chk.assumptions += ["'valid PoW' = the nonce the node's own solver finds (peer Node::generate_handshake_work); 'invalid' = a nonce the node's own "
                        "verifier rejects at difficulty >= 8; the digest itself is C19's business",
                        "handshakes are delivered through Node::handle_transport_handshake (friend access), i.e. the handler SessionManager calls for an "
                        "inbound TransportHandshake; the socket path (ACK bytes on the wire, is_connected) is not driven",
                        "'session' is observed as Node::session_key(peer) and the returned acceptance; SessionManager's private key table is not readable",
                        "virtual clock by link-time interposition of steady_clock::now / system_clock::now"]


# --------------------------------------------------------------------------------------------
# C21
PRE_KINDS = ["self", "uri", "pow", "ver"]
POST_KINDS = ["dec", "chunk", "thr", "unexp", "assigned"]
KIND_ARGS = {"ok": "", "self": " self=0", "uri": " uri=empty", "dec": " uri=%s", "chunk": " mchunk=0", "thr": " nsh=1 thr=2",
             "unexp": " exp=%d", "assigned": " asg=1,9", "pow": " pow=0", "ver": " ver=2"}


def ann_cmd(rng, p, kind, chunks=2):
    a = KIND_ARGS[kind]
    if kind == "dec":
        a = a % rng.choice(["garbage", "trunc"])
    if kind == "unexp":
        a = a % rng.choice([-1, -5, -3600])
    if kind == "assigned":
        # an assigned shard the manifest does not carry: out of range, or inside 1..total although only a subset of the shares is carried
        a = rng.choice([" asg=1,9", " asg=9", " idx=1,2,3 tot=5 asg=5", " idx=1,2,4 tot=5 asg=3", " idx=2,3,5 tot=5 asg=2,1", " idx=1,2 tot=3 asg=3"])
    else:
        a += rng.choice(["", " asg=1", " asg=1,3", " idx=2,3,5 tot=5 asg=5", " idx=1,2,3 tot=5 asg=2"])
    return "ann p=%d c=%d%s" % (p, rng.randrange(chunks), a)


def ann_scripts(rng, hists, tick_s, powdiff=8, vary=True):
    out = []
    for h in hists:
        lines = ["reset mode=ann interval=%d window=%d burst=2 powdiff=%d npeers=2" % (2 * tick_s, 4 * tick_s, powdiff)]
        for a in h:
            if a["op"] == "adv":
                lines.append("adv ms=%d" % (a["d"] * tick_s * 1000))
            else:
                k = a["k"]
                if vary and k in PRE_KINDS:
                    k = rng.choice(PRE_KINDS)
                elif vary and k in POST_KINDS:
                    k = rng.choice(POST_KINDS)
                lines.append(ann_cmd(rng, a["p"], k))
        out.append(lines)
    return out


def ann_random(rng, n):
    out = []
    for _ in range(n):
        interval, window, burst = rng.choice([(1, 1, 1), (15, 120, 4), (60, 120, 2), (2, 4, 2), (30, 30, 3), (0, 0, 0), (120, 180, 2), (5, 3600, 3), (45, 90, 8),
                                              # a minimum interval above the window, and above the one-hour cap of the window
                                              (100, 10, 3), (7200, 600, 4), (3600, 60, 2), (5000, 5000, 2)])
        powdiff = rng.choice([8, 8, 8, 9, 0])
        npeers = rng.choice([1, 2, 3])
        lines = ["reset mode=ann interval=%d window=%d burst=%d powdiff=%d npeers=%d" % (interval, window, burst, powdiff, npeers)]
        iv, wd = max(interval, 1), max(window, interval, 1)
        now, marks = 0, []
        for _ in range(rng.randint(3, 40)):
            x = rng.random()
            if x < 0.62:
                p = rng.randint(1, npeers)
                kind = rng.choice(["ok"] * 8 + PRE_KINDS + POST_KINDS)
                cmd = ann_cmd(rng, p, kind, 3)
                if kind == "ok" and rng.random() < 0.15:
                    cmd += " exp=%d" % rng.choice([0, 1, 29, 30, 31, 86400])     # expiry exactly now / around the minimum manifest TTL
                if kind == "ok" and rng.random() < 0.1:
                    cmd += " ver=3"
                if rng.random() < 0.2:
                    cmd += " ttl=%d" % rng.choice([0, 1, 30, 100000])
                lines.append(cmd)
                marks.append(now)
            else:
                # land exactly on / next to a boundary that started at an earlier announce
                future = [m + s * 1000 + o for m in marks[-6:] for s in (iv, wd, 120, 180, 3600) for o in (-1, 0, 0, 1) if m + s * 1000 + o > now]
                if future and rng.random() < 0.65:
                    d = rng.choice(future) - now
                else:
                    d = rng.choice([0, 1, 999, 1000, iv * 1000 - 1, iv * 1000, iv * 1000 + 1, wd * 1000, 119000, 120000, 121000, 179000, 180000, 181000])
                now += d
                lines.append("adv ms=%d" % d)
                if rng.random() < 0.35:
                    lines.append("tick")      # the daemon ticks between announces (cleanup passes must not refill a peer's budget)
        out.append(lines)
    # minimum intervals longer than the (capped) burst window: an announce between the window and the interval after the last admitted one
    for interval, window in ((7200, 600), (5000, 5000), (3700, 3600), (100, 10)):
        cap = min(max(window, 1), 3600)
        for gap in (cap + 1, (cap + interval) // 2, interval - 1, interval, interval + 1):
            out.append(["reset mode=ann interval=%d window=%d burst=4 powdiff=0 npeers=2" % (interval, window), ann_cmd(rng, 1, "ok", 3), "adv ms=%d" % (gap * 1000),
                        ann_cmd(rng, 1, "ok", 3), ann_cmd(rng, 2, "ok", 3), "tick", "adv ms=1000", ann_cmd(rng, 1, "ok", 3)])
    # long quiet gaps inside wide burst windows, with ticks in the gap
    for _ in range(max(20, n // 10)):
        burst = rng.choice([2, 3, 4])
        window = rng.choice([600, 1800, 3600])
        interval = rng.choice([1, 15])
        lines = ["reset mode=ann interval=%d window=%d burst=%d powdiff=0 npeers=2" % (interval, window, burst)]
        for i in range(burst + 1):
            lines.append(ann_cmd(rng, 1, "ok", 3))
            lines.append("adv ms=%d" % ((interval + 1) * 1000))
        gap = rng.choice([121, 130, 200, window // 2])
        lines += ["adv ms=%d" % (gap * 1000), "tick", "adv ms=1000", "tick", ann_cmd(rng, 1, "ok", 3), ann_cmd(rng, 2, "ok", 3)]
        out.append(lines)
    return out


def ann_classes(chk, events):
    cfg = {}
    for e in events:
        if e["op"] == "reset":
            cfg = e
        elif e["op"] == "ann":
            changed = e["pre"] != e["post"]
            t, ah, fh, lk = e["t"], e["ah"], e["fh"], e["lk"]
            iv, wd = cfg.get("interval", 0) * 1000, cfg.get("window", 0) * 1000
            prev = [a for a in ah if a < t or not changed]
            gap = (t - prev[-1]) if prev else None
            gapc = "none" if gap is None else "lt" if gap < iv else "eq" if gap == iv else "eqw" if gap == wd else "gt"
            lkc = "none" if lk < 0 else "dead" if lk < t else "edge" if lk == t else "new" if lk - t == 180000 else "on"
            defect = ("self" if not e["self"] else "dec" if not e["dec"] else "chunk" if not e["chunk"] else "exp" if e["exp"] < t else "expedge" if e["exp"] == t
                      else "thr" if e["nsh"] < e["thr"] else "asg" if not set(e["asg"]) <= set(e["idx"]) else "ver" if cfg.get("powdiff", 0) > 0 and e["ver"] < 3
                      else "pow" if not e["pow"] else "none")
            chk.nontrivial(["ann", changed, defect, gapc, min(len(ah), 5), len(fh), lkc, len(e["post"]) - len(e["pre"]), bool(e["asg"])])


def run_c21(chk):
    thorough = chk.tier == "thorough"
    rng = chk.rng
    inv = "invariants C21_StateChangeOnlyIfAdmissible C21_LockedMeansNoChange C21_SpacingOK C21_BurstOK D_CodeIsAReading"
    with concurrent.futures.ThreadPoolExecutor(4) as ex:
        fside = ex.submit(side_models, "Announce", ANN_SIDE)
        f2p = ex.submit(vlib.mc, "Announce", "MC_Announce_2p_full.cfg" if thorough else "MC_Announce_2p.cfg", workers=4, timeout=1100 if thorough else 280)
        fvec = ex.submit(vlib.mc, "Announce", "MC_Announce_vec.cfg", workers=1, timeout=280)
        f30 = ex.submit(vlib.dump_hists, "Announce", "MC_Announce_t30.cfg", workers=4, timeout=600) if thorough else None
        r, hists = vlib.dump_hists("Announce", "MC_Announce.cfg", workers=4, timeout=280)
        fside.result()
        r2p, rvec = f2p.result(), fvec.result()
    chk.add_model("Announce design=>contract, 1 peer, interval 2 / window 4 / burst 2 / failure window 5 / lock 6, now<=12, all sequences", r, inv)
    if f30:
        r30, hists30 = f30.result()
        chk.add_model("same with failure window 4 (one tick = 30 s of the real constants 120 s / 180 s)", r30, inv)
    else:
        hists30 = hists
    chk.add_model("2 peers interleaved (%s)" % ("brief's constants, now<=12, <=10 actions" if thorough else "interval 1 / window 2 / burst 2 / failure window 2 / lock 3, now<=4, <=6 actions"), r2p, inv)
    chk.add_model("every single-defect admissibility vector (10 kinds), 1 peer, now<=3", rvec, inv)
    s24 = ann_scripts(rng, hists, 24)
    s30 = ann_scripts(rng, hists30, 30)
    log("[gen] %d + %d TLC state-cover sequences" % (len(s24), len(s30)))
    nc = 5000 if thorough else 1000
    acts = lambda: [ann_cmd(rng, p, k) for p in (1, 2) for k in ["ok", rng.choice(PRE_KINDS), rng.choice(POST_KINDS)]] + ["adv ms=30000", "adv ms=1"]
    ext = [lines + [a, ann_cmd(rng, 1, "ok"), ann_cmd(rng, 2, "ok")] for lines in rng.sample(s30, min(len(s30), 500 if thorough else 80)) for a in acts()]
    ev = run_script(chk, [("tlc-state-cover(tick 24 s)", rng.sample(s24, min(len(s24), nc))), ("tlc-state-cover(tick 30 s)", rng.sample(s30, min(len(s30), nc))),
                          ("tlc-transition-cover", ext), ("random", ann_random(rng, 2500 if thorough else 400))], "AnnounceTrace")
    ann_classes(chk, ev)
    chk.assumptions += ["'changes node state' = the projection (manifest_cache_ entries, DHT provider contacts, shard records, pending fetches; friend access) differs "
                        "before/after the call; every announce carries a unique endpoint and manifest tag so that an accepted announce is always visible",
                        "'valid PoW' = the nonce Node::apply_announce_pow finds for the final payload; 'invalid' = a nonce the node's own verifier rejects at difficulty >= 8 (digest: C19)",
                        "'decodable' = the URI was produced by protocol::encode_manifest (the driver checks it round-trips); undecodable = empty / garbage / truncated URI",
                        "announces are delivered through Node::handle_announce (friend access) with the sender the transport would report; the signed-message layer is C13",
                        "lock-out readings: see spec/AnnounceContract.tla (count restarts at an accepted announce; rejections during a lock-out do not count; boundary instants either way)",
                        "virtual clock by link-time interposition of steady_clock::now / system_clock::now"]


def run(chk):
    if chk.pid == "C20":
        run_c20(chk)
    else:
        run_c21(chk)
