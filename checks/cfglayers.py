"""C32 -- configuration layering (spec/ConfigLayers*.tla, harness/cfglayers.cpp).

run(chk):
  1. TLC checks Design => Contract on the case space of spec/ConfigLayers.tla (profile-graph shape x selection
     mode x which layers set which of two focus settings), the deviation configs must violate their invariant and
     the reach configs must find their scenario; the same TLC run exports the case list (-dump, variable `kase`)
     and the case tables (CFGLAYERS_TABLES line).
  2. every exported case is rendered (YAML / JSON, environment overrides in direct / `overrides:` form) and loaded
     by the real CLI (main() of src/main.cpp, in-process) -- plus seeded random cases that set all six settings at
     once over random profile graphs.
  3. TLC validates the recorded trace against the contract (spec/ConfigLayersTrace.tla); clause failures are the
     only source of VIOLATION lines.
"""
import json, os, re, socket, subprocess, time
from concurrent.futures import ThreadPoolExecutor
import vlib
from vlib import log

SETTINGS = ["ttl", "port", "token", "pow", "dir", "persistent", "aap", "minttl", "maxttl"]
BOOLS = ("persistent", "aap")
DEVS = (("dev_shallowmerge", "C32_Winner"), ("dev_nocyclecheck", "C32_NoHang"), ("dev_missingignored", "C32_MissingReported"),
        ("dev_profilebeatsflag", "C32_Winner"), ("dev_envprofilewins", "C32_Winner"), ("dev_windowasunit", "C32_Winner"))
REACH = ("Reach_EnvSelectedDeepChain", "Reach_CycleError", "Reach_MissingError", "Reach_FlagOverEnvProfile")   # one run, -continue
MAX_ABNORMAL = 12       # hang/crash events after which the remaining cases are not replayed any more


# ----------------------------------------------------------------------------------------
def build(name):
    """vlib.build, tried twice: objects shared with concurrently running builds of other checks can be mid-rewrite at link time"""
    try:
        return vlib.build(name)[name]
    except vlib.MachineryError:
        time.sleep(5)
        return vlib.build(name)[name]


def tables_of(r):
    m = re.search(r'<<"CFGLAYERS_TABLES", "((?:[^"\\]|\\.)*)">>', r.out)
    if not m:
        raise vlib.MachineryError("no CFGLAYERS_TABLES line in the TLC output")
    return json.loads(json.loads('"' + m.group(1) + '"'))


def model_check(chk, thorough):
    cfg = "MC_ConfigLayers.cfg" if thorough else "MC_ConfigLayers_cap3.cfg"

    def small(item):
        cfgname, inv = item
        for attempt in (1, 2):      # a JVM that dies under memory pressure is not a vacuous model: try once more
            try:
                wd = vlib.workdir("tlc-ConfigLayers-%s-%d" % (cfgname, os.getpid()))
                if inv is not None:
                    return vlib.mc("ConfigLayers", "MC_ConfigLayers_%s.cfg" % cfgname, expect_violation=inv, workers=1, timeout=300, heap="1g", wd=wd)
                r = vlib.tlc("ConfigLayers", "MC_ConfigLayers_reach.cfg", workers=1, timeout=300, heap="1g", wd=wd, extra=["-continue"])
                found = set(re.findall(r"Invariant (\S+) is violated", r.out))
                if not r.completed or set(REACH) - found:
                    raise vlib.MachineryError("vacuity: scenarios not reachable in ConfigLayers/MC_ConfigLayers_reach.cfg: %s\n%s"
                                              % (sorted(set(REACH) - found), r.out[-2000:]))
                log("[tlc] ConfigLayers MC_ConfigLayers_reach.cfg: %d distinct, %.1fs (scenarios found: %s)" % (r.distinct, r.dt, " ".join(sorted(found))))
                return r
            except vlib.MachineryError:
                if attempt == 2:
                    raise
    with ThreadPoolExecutor(max_workers=6) as ex:
        side = ex.map(small, DEVS + (("reach", None),))      # deviation / reach configs run beside the main model
        r, kases = vlib.dump_hists("ConfigLayers", cfg, var="kase", workers=8, timeout=900)
        list(side)
    chk.add_model("ConfigLayers design=>contract (%s: 11 graph shapes x 6 selection modes x 3 setting pairs x layer subsets)" % cfg, r,
                  "invariants C32_Contract C32_Winner C32_CycleReported C32_MissingReported C32_NoHang; %d deviation configs violate, %d reach configs found"
                  % (len(DEVS), len(REACH)))
    seen, cases = set(), []
    for k in kases:
        key = json.dumps(k, sort_keys=True)
        if key not in seen:
            seen.add(key)
            cases.append(k)
    cases.sort(key=lambda k: json.dumps(k, sort_keys=True))
    return tables_of(r), cases


# ----------------------------------------------------------------------------------------
def _join(items):
    return ",".join(items) if items else "-"


def line_of(cid, config, fmt, envform, profflag, envflag, envs, profiles, ext, fv, ev, pv):
    """script line of harness/cfglayers.cpp.  fv: [(setting, code)], ev: [(env, setting, code)], pv: [(profile, setting, code)]"""
    return ("case id=%d config=%d fmt=%s envform=%s profflag=%s envflag=%s envs=%s profiles=%s ext=%s fv=%s ev=%s pv=%s" % (
        cid, 1 if config else 0, fmt, envform, profflag or "-", envflag or "-",
        ";".join("%s:%s" % (n, p) for n, p in envs) if envs else "-", _join(profiles),
        _join(["%s:%s" % (c, p) for c, p in ext]), _join(["%s:%d" % (s, c) for s, c in fv]),
        _join(["%s.%s:%d" % (e, s, c) for e, s, c in ev]), _join(["%s.%s:%d" % (p, s, c) for p, s, c in pv])))


def expand(tables, k, cid, variant):
    """a TLC case [shape, mode, grp, a, b, pol] -> script line (same content as Flags/EnvLayer/Profiles/ExtPairs of the spec)"""
    t = tables["shapes"][k["shape"]][k["mode"]]
    s1, s2 = tables["groups"][k["grp"]]
    a, b = set(k["a"]["$set"]), set(k["b"]["$set"])
    top = min(b) if b else None

    def code(s, i):
        if s != "persistent":
            return i
        return 1 if ((i == top) == bool(k["pol"])) else 2

    def layer(i):
        return ([(s1, code(s1, i))] if i in a else []) + ([(s2, code(s2, i))] if i in b else [])
    fv = layer(1)
    ev, envs, pv, profiles, ext = [], [], [], [], []
    if t["config"]:
        chain = list(t["chain"])
        for j, name in enumerate(chain):
            pv += [(name, s, c) for s, c in layer(3 + j)]
        d = t["decoys"]
        decoys = [("other", d["other"]), (d["altname"], d["altroot"])]
        for name, dc in decoys:       # decoys set the two focus settings (DecoyLayer of the spec)
            pv += [(name, s, 1 if s == "persistent" else dc) for s in (s1, s2)]
        profiles = chain + [n for n, _ in decoys]
        if variant & 4:
            profiles.reverse()
        ext = [tuple(p) for p in t["ext"]]
        if t["envflag"]:
            envs.append((t["envflag"], t["envprof"]))
            ev += [(t["envflag"], s, c) for s, c in layer(2)]
        envs.append(("e9", "other"))
        ev += [("e9", s, 1 if s == "persistent" else 9) for s in (s1, s2)]
    return line_of(cid, t["config"], "json" if variant & 1 else "yaml", "overrides" if variant & 2 else "direct",
                   t["profflag"], t["envflag"], envs, profiles, ext, fv, ev, pv)


POOL = ["default", "p0", "a1", "a2", "a3", "other", "zz"]


def random_case(rng, cid):
    """all six settings at once over a random profile graph (cycles and missing parents included)"""
    config = rng.random() < 0.93
    fv = [(s, 1 if s == "aap" else rng.choice([1, 2]) if s == "persistent" else 1) for s in SETTINGS if rng.random() < 0.4]    # (no flag switches aap off)
    if not config:
        return line_of(cid, False, "yaml", "direct", "", "", [], [], [], fv, [], [])
    healthy = rng.random() < 0.6
    defined = [n for n in POOL if rng.random() < 0.6] or ["default"]
    if rng.random() < 0.7 and "default" not in defined:
        defined.append("default")
    ext = []
    order = list(defined)
    rng.shuffle(order)
    for idx, n in enumerate(order):
        if rng.random() < 0.6:
            if healthy:     # parent = a later profile in a random order: acyclic, always defined
                if idx + 1 < len(order):
                    ext.append((n, rng.choice(order[idx + 1:])))
            else:
                ext.append((n, rng.choice(POOL + ["ghost"])))
    profflag = rng.choice(["", "", rng.choice(defined), rng.choice(defined), rng.choice(POOL + ["ghost"])])
    envflag = rng.choice(["", "e1", "e1"])
    envs, ev = [], []
    e1prof = rng.choice(["", rng.choice(defined), rng.choice(defined), rng.choice(POOL + ["ghost"])]) if healthy or rng.random() < 0.7 else "ghost"
    if envflag or rng.random() < 0.5:
        envs.append(("e1", e1prof))
        ev += [("e1", s, rng.choice([1, 2]) if s in BOOLS else 2) for s in SETTINGS if rng.random() < 0.4]
    if rng.random() < 0.6:
        envs.append(("e9", rng.choice(defined)))
        ev += [("e9", s, 1 if s in BOOLS else 10) for s in SETTINGS if rng.random() < 0.5]
    pv = []
    for n in defined:
        c = 3 + POOL.index(n)
        pv += [(n, s, rng.choice([1, 2]) if s in BOOLS else c) for s in SETTINGS if rng.random() < 0.4]
    rng.shuffle(defined)
    return line_of(cid, True, rng.choice(["yaml", "json"]), rng.choice(["direct", "overrides"]), profflag, envflag, envs, defined, ext, fv, ev, pv)


# ----------------------------------------------------------------------------------------
def run_driver(lines, wd, tag, keep=False):
    """replay script lines on the real loader; restarts the driver after a hang/crash event.  Returns (trace path, events)"""
    b = build("cfglayers")
    trace = os.path.join(wd, "trace-%s.ndjson" % tag)
    open(trace, "w").close()
    done, abnormal, part = 0, 0, 0
    while done < len(lines):
        script = os.path.join(wd, "script-%s-%d.txt" % (tag, part))
        ptrace = os.path.join(wd, "trace-%s-%d.ndjson" % (tag, part))
        with open(script, "w") as f:
            f.write("\n".join(lines[done:]) + "\n")
        rc, out = vlib.sh([b, script, ptrace, os.path.join(wd, "run-" + tag), "5"], timeout=1500, check=False,
                          env={"CFGLAYERS_KEEP": "1"} if keep else None)
        got = [x for x in open(ptrace) if x.strip()] if os.path.exists(ptrace) else []
        with open(trace, "a") as f:
            f.writelines(got)
        if rc == 0:
            if len(got) != len(lines) - done:
                raise vlib.MachineryError("cfglayers driver answered %d of %d cases\n%s" % (len(got), len(lines) - done, out[-2000:]))
            done = len(lines)
        elif rc == 3 and got:
            done += len(got)
            abnormal += 1
            part += 1
            if abnormal >= MAX_ABNORMAL:
                log("[driver] %d hang/crash events: the remaining %d cases of '%s' are not replayed" % (abnormal, len(lines) - done, tag))
                break
        else:
            raise vlib.MachineryError("cfglayers driver failed rc=%d\n%s" % (rc, out[-3000:]))
    events = vlib.read_ndjson(trace)
    bad = [e for e in events if e["outcome"] == "nocapture"]
    if bad:
        raise vlib.MachineryError("the CLI returned without an error and without reaching the daemon start-up: %s" % json.dumps(bad[0])[:600])
    return trace, events


def validate_parallel(events, wd, nchunks):
    """TLC trace validation of the ndjson file in nchunks pieces side by side; violations get global line numbers"""
    keep = ("op", "id", "config", "profflag", "envflag", "envprof", "defined", "ext", "fv", "ev", "pv", "outcome", "err", "eff")
    rows = [json.dumps({k: e[k] for k in keep}, separators=(",", ":")) + "\n" for e in events]   # only what the trace spec reads
    nchunks = max(1, min(nchunks, (len(rows) + 19999) // 20000))
    size = (len(rows) + nchunks - 1) // nchunks
    parts = []
    for i in range(nchunks):
        path = os.path.join(wd, "vchunk-%d.ndjson" % i)
        with open(path, "w") as f:
            f.writelines(rows[i * size:(i + 1) * size])
        parts.append((i, path))

    def one(item):
        i, path = item
        r = vlib.tlc("ConfigLayersTrace", "ConfigLayersTrace.cfg", workers=1, timeout=1500, env={"TRACE": path}, heap="2g",
                     wd=vlib.workdir("tlc-ConfigLayersTrace-%s-%d-%d" % (os.path.basename(wd), i, os.getpid())))
        res = r.results()
        if not res:
            raise vlib.MachineryError("trace validation produced no result (ConfigLayersTrace on %s):\n%s" % (path, r.out[-4000:]))
        return i, res[-1], r.dt
    with ThreadPoolExecutor(max_workers=nchunks) as ex:
        outs = list(ex.map(one, parts))
    total = {"events": 0, "viol": [], "stats": {}, "wall": 0.0}
    for i, res, dt in outs:
        total["events"] += res["events"]
        total["wall"] = max(total["wall"], dt)
        for v in res.get("viol", []):
            v["l"] += i * size
            total["viol"].append(v)
        for k, n in (res.get("stats") or {}).items():
            total["stats"][k] = total["stats"].get(k, 0) + n
    if total["events"] != len(rows) or total["stats"].get("checked") != len(rows):
        raise vlib.MachineryError("trace validation covered %s of %d events" % (total["stats"].get("checked"), len(rows)))
    return total


def winners_key(e):
    """which layer won each setting / how the load ended -- the distinct non-trivial case classes"""
    return [e["outcome"], e.get("err", ""), bool(e["profflag"]), bool(e["envflag"]), bool(e["envprof"]), len(e["ext"]),
            [e["eff"].get(s) for s in SETTINGS] if e["outcome"] == "ok" else []]


def run_and_validate(chk, groups, name):
    """groups: [(label, script lines)] -- each group is replayed on the real loader, the recorded events of all groups
    are validated by one TLC run"""
    groups = [(lab, lines) for lab, lines in groups if lines]
    if not groups:
        return
    wd = vlib.workdir("cfglayers-%s-%s" % (chk.pid, name))
    t0 = time.time()
    events, by_id, label_of = [], {}, {}
    for label, lines in groups:
        _, evs = run_driver(lines, wd, label)
        events += evs
        for ln in lines:
            cid = int(re.search(r"id=(\d+)", ln).group(1))
            by_id[cid] = ln
            label_of[cid] = label
        for e in evs[:2] + [x for x in evs if x["outcome"] != "ok"][:1]:
            chk.sample({"source": label, "case": by_id.get(e["id"]), "outcome": e["outcome"], "err": e.get("err"), "effective": e.get("raw")})
    t1 = time.time()
    res = validate_parallel(events, wd, 8)
    t2 = time.time()
    chk.add_traces(len(events), len(events), res, "+".join(lab for lab, _ in groups))
    for e in events:
        chk.nontrivial(winners_key(e))
    reported = set()
    for v in res.get("viol", []):
        e = events[v["l"] - 1]
        label = label_of.get(e["id"], name)
        clauses = v["clause"] if isinstance(v["clause"], list) else [v["clause"]]
        for cl in clauses:
            if cl in reported:
                continue
            reported.add(cl)
            ln = by_id.get(e["id"], "")
            replay = ["# failing case (%s); replay with: tools/check C32 --replay <this file>" % label, ln,
                      "# recorded event: " + json.dumps(e)]
            try:    # the rendered configuration file, for the reader
                kwd = vlib.workdir("cfglayers-keep-%s" % re.sub(r"[^A-Za-z0-9]", "_", cl))
                run_driver([ln], kwd, "keep", keep=True)
                for fn in sorted(os.listdir(os.path.join(kwd, "run-keep"))):
                    if fn.startswith("kept-"):
                        replay += ["# --- %s" % fn] + ["# " + x.rstrip("\n") for x in open(os.path.join(kwd, "run-keep", fn))]
            except Exception as ex:     # noqa -- decoration only
                replay.append("# (could not render the file: %s)" % ex)
            what = "%s on the real loader (%s): outcome=%s err=%s effective=%s (contract status %s)" % (
                cl, label, e["outcome"], e.get("err"), json.dumps(e.get("raw")), v["detail"].get("status"))
            chk.report(cl, what, replay, replay_name=cl)
    log("[trace] %s: %d cases (replay %.1fs, validation %.1fs), %d clause failures, stats %s" % (
        "+".join("%s:%d" % (lab, len(lines)) for lab, lines in groups), len(events), t1 - t0, t2 - t1, len(res.get("viol", [])), json.dumps(res.get("stats"))))
    return res


# ----------------------------------------------------------------------------------------
# thorough tier: the same cases through the unmodified binary -- `eph ... serve` as a daemon, DEFAULTS over the control socket
def _free_port(rng):
    for _ in range(200):
        p = rng.randrange(46000, 47900)
        with socket.socket() as so:
            try:
                so.bind(("127.0.0.1", p))
                return p
            except OSError:
                continue
    raise vlib.MachineryError("no free transport port")


def _cli(exe, args, cwd, timeout=30):
    try:
        p = subprocess.run([exe] + args, cwd=cwd, stdout=subprocess.PIPE, stderr=subprocess.STDOUT, timeout=timeout)
        return p.returncode, p.stdout.decode("utf-8", "replace")
    except subprocess.TimeoutExpired:
        return -9, "<timeout>"


def e2e_case(exe, e, kept, rundir, cwd, rng):
    """one case through the real daemon; returns (outcome, err, eff codes)"""
    argv = [kept if a.startswith("/proc/self/fd/") else a for a in e["argv"][1:-1]]
    tport = _free_port(rng)
    logf = open(os.path.join(cwd, "serve-%d.log" % e["id"]), "wb")
    proc = subprocess.Popen([exe] + argv + ["--transport-port", str(tport), "serve"], cwd=cwd, stdout=logf, stderr=subprocess.STDOUT)
    codes = lambda s: sorted({r[1] for r in e["fv"] + e["ev"] if r[0] == s} | {r[2] for r in e["pv"] if r[1] == s})
    ports = [41000 + c for c in codes("port")] + [47777] + [41000 + c for c in list(range(1, 11)) + [20] if c not in codes("port")]
    try:
        found, text = None, ""
        deadline = time.time() + 20
        while found is None and time.time() < deadline:
            if proc.poll() is not None:
                break
            for port in ports:
                rc, out = _cli(exe, ["--control-port", str(port), "defaults"], cwd, 10)
                if rc == 0 and re.search(r"Transport port:\s+%d\b" % tport, out):
                    found, text = port, out
                    break
            else:
                time.sleep(0.2)
        if found is None:
            if proc.poll() is None:
                raise vlib.MachineryError("daemon of case %d did not answer DEFAULTS on any of %s" % (e["id"], ports))
            logf.flush()
            out = open(logf.name, errors="replace").read()
            m = re.search(r"\[(E_[A-Z_0-9]+)\]|\b(E_[A-Z_0-9]+)\b", out)
            code = (m.group(1) or m.group(2)) if m else ""
            if proc.returncode == 0 or code in ("", "E_UNEXPECTED"):
                raise vlib.MachineryError("daemon of case %d ended (rc=%s) without a CLI error: %s" % (e["id"], proc.returncode, out[-800:]))
            return "error", code, {s: -1 for s in SETTINGS if s not in ("aap", "minttl", "maxttl")}

        def field(rx):
            m = re.search(rx, text)
            if not m:
                raise vlib.MachineryError("DEFAULTS output not understood (%s): %s" % (rx, text[-1500:]))
            return m.group(1)
        ttl = int(field(r"Default TTL:\s+(\d+) seconds"))
        pw = int(field(r"Announce PoW:\s+(\d+) leading"))
        prt = int(field(r"Control endpoint:\s+\S+:(\d+)"))
        pers = field(r"Persistent storage:\s+(\w+)")
        sdir = field(r"Storage directory:\s+(\S+)")
        eff = {"ttl": 0 if ttl == 21600 else ttl - 3600 if 3600 < ttl < 3700 else -1,
               "pow": 0 if pw == 6 else pw - 6 if 6 < pw <= 24 else -1,
               "port": 0 if prt == 47777 else prt - 41000 if 41000 < prt < 41100 else -1,
               "persistent": 1 if pers == "enabled" else 2,
               "dir": 0 if sdir == "storage" else int(sdir[len(rundir) + 3:]) if re.fullmatch(re.escape(rundir) + r"/sd\d{1,3}", sdir) else -1}
        # the token: a STORE with a wrong token is refused iff a token is configured; then the candidates are tried
        tiny = os.path.join(cwd, "tiny.txt")
        open(tiny, "w").write("c32\n")
        rc, out = _cli(exe, ["--control-port", str(found), "--control-token", "not-the-token", "store", tiny], cwd)
        if rc == 0:
            eff["token"] = 0
        elif "ERR_STORE_UNAUTHENTICATED" in out:
            eff["token"] = -1
            for c in codes("token") + [c for c in range(1, 11) if c not in codes("token")]:
                rc2, out2 = _cli(exe, ["--control-port", str(found), "--control-token", "tok%d" % c, "store", tiny], cwd)
                if rc2 == 0:
                    eff["token"] = c
                    break
        else:
            raise vlib.MachineryError("STORE probe of case %d failed unexpectedly: %s" % (e["id"], out[-800:]))
        return "ok", "", eff
    finally:
        if proc.poll() is None:      # scratch daemon: no orderly shutdown needed
            proc.kill()
            proc.wait()
        logf.close()


def e2e(chk, tables, cases, base_id, n):
    rng = chk.rng
    exe = build("ephcli")
    wd = vlib.workdir("cfglayers-%s-e2e" % chk.pid)
    withcfg = [k for k in cases if tables["shapes"][k["shape"]][k["mode"]]["config"]]
    okc = [k for k in withcfg if tables["shapes"][k["shape"]][k["mode"]]["status"] == "ok"]
    errc = [k for k in withcfg if tables["shapes"][k["shape"]][k["mode"]]["status"] != "ok"]
    picked = rng.sample(okc, min(len(okc), n - n // 5)) + rng.sample(errc, min(len(errc), n // 5))
    lines = []
    for i, k in enumerate(picked):
        ln = expand(tables, k, base_id + i, rng.randrange(8))
        if not re.search(r"\bport:\d", ln):      # nobody sets the control port: keep away from the well-known default port of other daemons
            ln = re.sub(r" fv=-", " fv=port:20", ln) if " fv=-" in ln else re.sub(r" fv=", " fv=port:20,", ln)
        lines.append(ln)
    _, inproc = run_driver(lines, wd, "e2e", keep=True)
    rundir = os.path.join(wd, "run-e2e")
    cwd = os.path.join(wd, "daemon-cwd")
    os.makedirs(cwd)
    events = []
    t0 = time.time()
    for e in inproc:
        kept = os.path.join(rundir, "kept-%d.%s" % (e["id"], e["fmt"]))
        outcome, err, eff = e2e_case(exe, e, kept, rundir, cwd, rng)
        e2 = dict(e)
        e2.update({"outcome": outcome, "err": err, "eff": eff, "raw": {"source": "DEFAULTS of the daemon", "in_process": e["eff"]}})
        events.append(e2)
    res = validate_parallel(events, wd, 1)
    chk.add_traces(len(events), len(events), res, "e2e-daemon")
    by_id = dict((int(re.search(r"id=(\d+)", ln).group(1)), ln) for ln in lines)
    for v in res.get("viol", []):
        e = events[v["l"] - 1]
        for cl in (v["clause"] if isinstance(v["clause"], list) else [v["clause"]]):
            chk.report(cl, "%s on the real daemon (eph serve + DEFAULTS): outcome=%s err=%s effective codes=%s" % (cl, e["outcome"], e["err"], json.dumps(e["eff"])),
                       ["# failing case (end-to-end daemon run)", by_id[e["id"]], "# recorded event: " + json.dumps(e)], replay_name=cl + "-e2e")
    # (the daemon's DEFAULTS do not show every setting the in-process observation point reports: compare what both report)
    differ = [e["id"] for e in events if e["outcome"] == "ok" and any(e["raw"]["in_process"].get(k) != v for k, v in e["eff"].items())]
    log("[trace] e2e-daemon: %d cases in %.1fs, %d clause failures, %d differ from the in-process observation, stats %s" % (
        len(events), time.time() - t0, len(res.get("viol", [])), len(differ), json.dumps(res.get("stats"))))
    if differ and not res.get("viol"):
        raise vlib.MachineryError("the in-process observation point disagrees with the daemon's DEFAULTS for cases %s" % differ[:5])
    if events:
        chk.sample({"source": "e2e-daemon", "case": by_id[events[0]["id"]], "outcome": events[0]["outcome"], "effective_codes": events[0]["eff"]})


def run(chk):
    thorough = chk.tier == "thorough"
    rng = chk.rng
    tables, cases = model_check(chk, thorough)
    log("[gen] %d TLC cases" % len(cases))
    off = rng.randrange(8)
    order = list(range(len(cases)))
    rng.shuffle(order)          # the variant (format / environment form / profile order) of a case depends on the seed
    lines = [None] * len(cases)
    for pos, idx in enumerate(order):
        lines[idx] = expand(tables, cases[idx], idx + 1, (pos + off) % 8)
    n = 30000 if thorough else 3000
    base = len(cases) + 1
    run_and_validate(chk, [("tlc-cases", lines), ("random-all-settings", [random_case(rng, base + i) for i in range(n)])], "all")
    if thorough:
        e2e(chk, tables, cases, base + n, 30)
    chk.assumptions += [
        "value identity: a value code is rendered to a concrete in-range value per setting (ttl 3600+c s, port 41000+c, token tok<c>, pow 6+c, "
        "dir <scratch>/sd<c>) and the effective value is mapped back by exact comparison; sanitising leaves these values unchanged",
        "observation point: Config held by the Node that `eph serve` constructs (= what DEFAULTS reports); daemon::ControlServer is replaced by a "
        "recording stub, everything before it (flag parsing, load_configuration, validate_global_options, build_config, Node) is the repo's code",
        "profile selection is treated as a setting of its own: --profile beats the environment's profile key, which beats the name 'default'",
        "canonical key spellings only; aliases, out-of-range values and missing environments are outside C32",
    ]
    if thorough:
        chk.assumptions.append("end-to-end sample: the unmodified binary is started as a daemon (`serve`), the effective settings are read from DEFAULTS, the token "
                               "by STORE probes; a --transport-port flag (not one of the six settings) keeps the runs apart")


def replay(chk, path):
    lines = [x.strip() for x in open(path) if x.startswith("case ")]
    if not lines:
        raise vlib.MachineryError("no 'case ...' line in %s" % path)
    run_and_validate(chk, [("replay", lines)], "replay")
