"""ChunkStore-level machinery shared by C01 and C04 (spec/ChunkStore*.tla, harness/chunkstore.cpp)."""
import os, json
import vlib
from vlib import log

MODEL_TICK_S = 1


def model_check(chk, thorough):
    r = vlib.mc("ChunkStore", "MC_ChunkStore.cfg", workers=8, timeout=600)
    chk.add_model("ChunkStore design=>contract (persistent, crash/restart, 2 ids x 2 payloads, ttl 1..2, now<=3)", r,
                  "invariants C01_ReadExact C01_NoEarlyLoss C04_FileImpliesLive C04_NoDeadFileAfterSweep C04_WipeBeforeUnlink; a put's write may fail part-way (WriteFail)")
    r2 = vlib.mc("ChunkStore", "MC_ChunkStore_mem.cfg", workers=8, timeout=600)
    chk.add_model("ChunkStore in-memory, 3 ids", r2)
    # the deviations this tree used to have must violate the contract in the model (else mis-modelled)
    for cfg, inv in (("dev_noscrub", "C04_FileImpliesLive"), ("dev_eraseonlookup", "C04_FileImpliesLive"), ("dev_listraw", "C01_ReadExact"), ("dev_failedwrite", "C04_FileImpliesLive"), ("reach_failedwrite", "Reach_FailedWrite"),
                     ("reach_deadline", "Reach_ReadAtDeadline"), ("reach_midwipe", "Reach_CrashMidWipe"), ("reach_overwrite", "Reach_OverwriteShorter")):
        vlib.mc("ChunkStore", "MC_ChunkStore_%s.cfg" % cfg, expect_violation=inv, workers=4, timeout=300)
    return r


def hist_to_scripts(hists, persistent=1):
    """TLC action histories -> (normal behaviours, crash behaviours) as lists of script lines"""
    normal, crash = [], []
    for h in hists:
        lines = ["reset persistent=%d default=3" % persistent]
        flip = 0
        is_crash = False
        lastop = None
        for a in h:
            op = a["op"]
            if op == "step":
                continue
            if op == "put":
                lastop = "put c=%d b=%d ttl=%d" % (a["c"], a["b"], a["ttl"] * MODEL_TICK_S)
                lines.append(lastop)
            elif op == "wfail":
                # the write of the put in progress fails part-way: the driver injects ENOSPC into that put
                lines[-1] = lastop = lines[-1] + " wfail=1"
            elif op == "get":
                flip ^= 1
                lines.append("%s c=%d" % ("get" if flip else "rec", a["c"]))
            elif op == "list":
                lines.append("list")
            elif op == "sweep":
                lastop = "sweep"
                lines.append("sweep")
            elif op == "adv":
                lines.append("adv ms=%d" % (a["d"] * 1000 * MODEL_TICK_S))
            elif op == "crash":
                if a.get("mid"):
                    # the operation that was in progress is the last put/sweep: cut here
                    lines.pop()
                    lines += ["crashop", lastop]
                    is_crash = True
                    break
                lines.append("restart")
        (crash if is_crash else normal).append(lines)
    return normal, crash


def random_behaviours(rng, n, persistent, nids=12, npay=8, maxlen=40):
    out = []
    for _ in range(n):
        lines = ["reset persistent=%d default=%d" % (persistent, rng.choice([1, 3, 7]))]
        now = 0
        dls = []
        deflt = int(lines[0].split("default=")[1])
        for _ in range(rng.randint(3, maxlen)):
            x = rng.random()
            if x < 0.28:
                ttl = rng.choice([-5, 0, 1, 1, 2, 3, 5, 10, 1000000])
                c = rng.randrange(nids) if rng.random() < 0.8 else rng.randrange(3)
                lines.append("put c=%d b=%d ttl=%d%s" % (c, rng.randrange(npay), ttl, " wfail=1" if persistent and rng.random() < 0.15 else ""))
                dls.append(now + (ttl if ttl > 0 else deflt) * 1000)
            elif x < 0.50:
                lines.append("%s c=%d" % (rng.choice(["get", "rec"]), rng.randrange(nids)))
            elif x < 0.60:
                lines.append("list")
            elif x < 0.72:
                lines.append("sweep")
            elif x < 0.76 and persistent:
                lines.append("restart")
            else:
                future = [d for d in dls if d > now and d - now < 10 ** 7]
                if future and rng.random() < 0.6:
                    d = rng.choice(future) - now + rng.choice([-1, 0, 0, 1])
                else:
                    d = rng.choice([0, 1, 500, 999, 1000, 1001, 2500, 10000])
                d = max(0, d)
                now += d
                lines.append("adv ms=%d" % d)
        out.append(lines)
    return out


def run_and_validate(chk, behaviours, label, crash=False):
    """replay scripts on the real ChunkStore, validate the recorded trace with TLC"""
    if not behaviours:
        return None
    b = vlib.build("chunkstore")["chunkstore"]
    wd = vlib.workdir("chunk-%s-%s" % (chk.pid, label))
    script = os.path.join(wd, "script.txt")
    trace = os.path.join(wd, "trace.ndjson")
    with open(script, "w") as f:
        for lines in behaviours:
            f.write("\n".join(lines) + "\n")
    vlib.sh([b, script, trace, os.path.join(wd, "dir")] + (["--crash"] if crash else []), timeout=1200)
    events = vlib.read_ndjson(trace)
    res = vlib.validate("ChunkStoreTrace", trace)
    nb = sum(1 for e in events if e["op"] == ("crash" if crash else "reset"))
    chk.add_traces(nb, len(events), res, label)
    for e in events:
        if e["op"] in ("get", "list", "sweep", "final", "put"):
            chk.nontrivial([e["op"], e.get("res"), e.get("t", 0) % 1000 == 0, len(e.get("disk", [])), len(e.get("ids", [])), len(e.get("removed", []))])
    if events:
        chk.sample({"source": label, "first_events": events[:8]})
    vlib.report_trace_violations(chk, res, events, label=label, behaviours=behaviours, harness="chunkstore-crash" if crash else "chunkstore")
    log("[trace] %s: %d behaviours, %d events, %d clause failures" % (label, nb, len(events), len(res.get("viol", []))))
    return res


def run(chk):
    thorough = chk.tier == "thorough"
    model_check(chk, thorough)
    r, hists = vlib.dump_hists("ChunkStore", "MC_ChunkStore.cfg", workers=8, timeout=900)
    normal, crash = hist_to_scripts(hists)
    log("[gen] %d TLC state-cover sequences (%d with a crash inside an operation)" % (len(hists), len(crash)))
    rng = chk.rng
    if not thorough:
        normal = rng.sample(normal, min(len(normal), 4000))
        crash = rng.sample(crash, min(len(crash), 150))
    else:
        crash = rng.sample(crash, min(len(crash), 1500))
    run_and_validate(chk, normal, "tlc-state-cover")
    # transition cover: every action appended to a sample of state-cover paths
    ext = []
    acts = ["put c=1 b=1 ttl=1", "put c=2 b=0 ttl=2", "put c=1 b=0 ttl=1 wfail=1", "get c=1", "rec c=2", "list", "sweep", "adv ms=1000", "restart"]
    for lines in rng.sample(normal, min(len(normal), 400 if not thorough else 4000)):
        for a in acts:
            ext.append(lines + [a, "list", "get c=1", "get c=2"])
    run_and_validate(chk, ext, "tlc-transition-cover")
    if chk.pid == "C04":
        run_and_validate(chk, crash, "tlc-crash-points", crash=True)
    n = 400 if not thorough else 6000
    run_and_validate(chk, random_behaviours(rng, n, 1), "random-persistent")
    run_and_validate(chk, random_behaviours(rng, n, 0), "random-memory")
    chk.assumptions += ["payload identity: the harness maps payload index k to a fixed byte string and classifies bytes read back by exact comparison",
                        "virtual clock by link-time interposition of steady_clock::now / system_clock::now",
                        "a failing store is a short write followed by ENOSPC on the chunk file's descriptor (injected by the driver at the write of the file opened for writing)",
                        "filesystem calls observed by interposing open/fopen/write/writev/close/fclose/unlink/remove/rename in the driver"]
