"""C30 / C31 -- `eph fetch` writes only matching bytes, inside the chosen directory (spec/CliFetch*.tla, harness/clifetch.cpp).

run(chk):
  1. TLC checks Design => Contract on spec/CliFetch.tla: C30 on path x response x discovery-mode flags (five paths, each
     absent or answering correct / truncated / substituted / extended / empty / error / nopayload), C31 on every string up
     to length 4 (quick) / 5 (thorough) over the abstract alphabet; the deviation configs must violate their invariant and
     the reach configs must find their scenario.  The terminal states of the two enumerations are exported (-dump).
  2. the exported cases are rendered to script lines (concrete payload size / substitution variant / target-directory form /
     fake endpoint or real daemon chosen by the seed) and replayed on the real CLI (harness/clifetch.cpp: real main() of
     src/main.cpp in a forked child -- thorough tier: also the `eph` binary as a subprocess -- against harness-owned fake
     control endpoints, real Nodes holding other bytes under the same chunk id, a real relay); the node-side sanitisers get
     every enumerated name; plus seeded random cases (long names, non-UTF-8, every reserved / control byte, multi-hop chains).
  3. TLC validates the recorded trace against the contract (spec/CliFetchTrace.tla); clause failures are the only source of
     VIOLATION lines.
"""
import json, os, re, shutil, time
from concurrent.futures import ThreadPoolExecutor
import vlib
from vlib import log

PATHS = ["transport", "relay", "control", "fallback", "local"]
HOSTILE = ["truncated", "substituted", "extended", "empty"]
DEVS = {"C30": (("dev_noverify", "C30_OnlyMatchingBytes"), ("dev_noverify_contract", "C30_Contract")),
        "C31": (("dev_nofilename", "C31_FetchInsideDir"), ("dev_keepbackslash", "C31_FetchName"), ("dev_dotsfirst", "C31_FetchName"),
                ("dev_nodenostrip", "C31_NodeName"))}
REACH = {"C30": ("reach_paths", ("Reach_LaterPathAfterHostile", "Reach_AllFiveFail")),
         "C31": ("reach_names", ("Reach_NameRejected", "Reach_NameRewritten"))}
ALPHABET = [47, 92, 46, 58, 1, 127, 32, 97, 195]
RESERVED = [58, 42, 63, 34, 60, 62, 124]
CONTROL = list(range(0, 32)) + [127]


# ----------------------------------------------------------------------------------------
def build(name, flavour="plain"):
    """vlib.build, tried twice: objects shared with concurrently running builds of other checks can be mid-rewrite at link time"""
    try:
        return vlib.build(name, flavour)[name]
    except vlib.MachineryError:
        time.sleep(5)
        return vlib.build(name, flavour)[name]


def dump_done(cfg, variables, workers=4, timeout=900):
    """model-check CliFetch with -dump; returns (TlcOut, [state dict restricted to `variables`] of the states with pc = "done").
    Memoised like vlib.dump_hists (content hash of all spec sources + cfg)."""
    key = vlib._spec_key("CliFetch", cfg, "dumpdone:" + ",".join(variables))
    c = vlib._cache_get(key)
    if c is not None:
        r = vlib.TlcOut(c["out"], c["rc"], c["dt"])
        log("[tlc] CliFetch %s: %d generated, %d distinct, depth %d (memoised: identical spec sources, first run took %.1fs; %d terminal states)"
            % (cfg, r.generated, r.distinct, r.depth, r.dt, len(c["states"])))
        return r, c["states"]
    wd = vlib.workdir("dump-CliFetch-%s-%d" % (cfg.replace(".cfg", ""), os.getpid()))
    dumpf = os.path.join(wd, "dump")
    r = vlib.mc("CliFetch", cfg, extra=["-dump", dumpf], wd=wd, workers=workers, timeout=timeout, heap="3g")
    text = open(dumpf + ".dump").read() if os.path.exists(dumpf + ".dump") else open(dumpf).read()
    states = []
    for block in re.split(r"^State \d+:\s*$", text, flags=re.M)[1:]:
        if '/\\ pc = "done"' not in block:
            continue
        st = {}
        for v in variables:
            m = re.search(r"^/\\ %s = (.*?)(?=^/\\ |\Z)" % re.escape(v), block, flags=re.M | re.S)
            if not m:
                raise vlib.MachineryError("variable %s missing in a dumped state of %s" % (v, cfg))
            st[v] = vlib.parse_tla(m.group(1).strip())
        states.append(st)
    shutil.rmtree(wd, ignore_errors=True)
    vlib._cache_put(key, {"out": r.out[-20000:], "rc": r.rc, "dt": r.dt, "states": states})
    return r, states


def model_check(chk, which):
    """which: "C30" -> path model, "C31" -> name model.  Returns the exported terminal states."""
    thorough = chk.tier == "thorough"

    def small(item):
        cfgname, inv = item
        for attempt in (1, 2):      # a JVM that dies under memory pressure is not a vacuous model: try once more
            try:
                wd = vlib.workdir("tlc-CliFetch-%s-%d" % (cfgname, os.getpid()))
                if isinstance(inv, str):
                    return vlib.mc("CliFetch", "MC_CliFetch_%s.cfg" % cfgname, expect_violation=inv, workers=1, timeout=300, heap="1g", wd=wd)
                key = vlib._spec_key("CliFetch", "MC_CliFetch_%s.cfg" % cfgname, "reach")
                c = vlib._cache_get(key)
                if c is None:
                    r = vlib.tlc("CliFetch", "MC_CliFetch_%s.cfg" % cfgname, workers=1, timeout=300, heap="1g", wd=wd, extra=["-continue"])
                    c = {"out": r.out[-20000:], "rc": r.rc, "dt": r.dt, "found": sorted(set(re.findall(r"Invariant (\S+) is violated", r.out))),
                         "completed": r.completed}
                    vlib._cache_put(key, c)
                if not c["completed"] or set(inv) - set(c["found"]):
                    raise vlib.MachineryError("vacuity: scenarios not reachable in CliFetch/MC_CliFetch_%s.cfg: %s\n%s"
                                              % (cfgname, sorted(set(inv) - set(c["found"])), c["out"][-2000:]))
                log("[tlc] CliFetch MC_CliFetch_%s.cfg: scenarios found: %s (%.1fs)" % (cfgname, " ".join(c["found"]), c["dt"]))
                return None
            except vlib.MachineryError:
                if attempt == 2:
                    raise
    side_items = list(DEVS[which]) + [REACH[which]]
    if which == "C31":
        side_items.append(("names_cut3", None))
    with ThreadPoolExecutor(max_workers=8) as ex:
        def side(item):
            if item[1] is None:
                wd = vlib.workdir("tlc-CliFetch-%s-%d" % (item[0], os.getpid()))
                return vlib.mc("CliFetch", "MC_CliFetch_%s.cfg" % item[0], workers=2, timeout=600, heap="2g", wd=wd)
            return small(item)
        futs = [ex.submit(side, it) for it in side_items]
        if which == "C30":
            cfg = "MC_CliFetch_paths_full.cfg" if thorough else "MC_CliFetch_paths.cfg"
            r, states = dump_done(cfg, ("cfg", "flags", "tried", "file", "rc"), workers=6)
            chk.add_model("CliFetch design=>contract, paths (%s: 5 paths x responses x 4 discovery modes)" % cfg, r,
                          "invariants TypeOK C30_OnlyMatchingBytes C30_Contract; %d deviation configs violate, scenarios %s reachable"
                          % (len(DEVS[which]), " ".join(REACH[which][1])))
        else:
            cfg = "MC_CliFetch_names_full.cfg" if thorough else "MC_CliFetch_names.cfg"
            r, states = dump_done(cfg, ("name", "outrel", "rc", "file"), workers=6)
            chk.add_model("CliFetch design=>contract, names (%s: every string up to length %d over a 9-symbol alphabet)" % (cfg, 5 if thorough else 4), r,
                          "invariants C31_FetchName C31_FetchInsideDir C31_NodeName C31_PipeName; %d deviation configs violate, scenarios %s reachable"
                          % (len(DEVS[which]), " ".join(REACH[which][1])))
        for f in futs:
            rr = f.result()
            if rr is not None and getattr(rr, "distinct", 0) and not rr.violated:
                chk.add_model("CliFetch names with the cut at 3 characters (MC_CliFetch_names_cut3.cfg)", rr, "same invariants")
    return states


# ----------------------------------------------------------------------------------------
# script generation
HOSTILE_NAMES = [b"../../../../escape.txt", b"../x", b"..", b".", b"@WORK@/abs-escape/f", b"a/b/c", b"..\\..\\w", b"C:\\dir\\f", b"a:b", b"con<>|?*\"", b".\x01.",
                 b"\x7f..", b" ", b"...", b"a\nb", b"\xc3\x28", b"\xff\xfe", b"name\x00tail", b"./..", b"x/", b"/", b"", b"-rf", b"~", b"a" * 300,
                 b"..\x1f", b"\x1f\x1f", b"dir/..", b"....//....//x", b"\\", b"\\..\\", b"%2e%2e%2f", b"payload.bin",
                 # over-long names (shortening must not re-introduce what the scrub removed): hostile bytes after the last dot, at the cut, before it
                 b"A" * 300 + b".\\..\\x:y\x1b[2J", b"C" * 256 + b".\x01\x02", b"D" * 300 + b".<>|?*\"", b"E" * 253 + b"..", b"F" * 254 + b"/..", b"G" * 254 + b":\\x",
                 b"H" * 250 + b".t\x7fxt" + b"I" * 10, b"." * 300, b"J" * 255 + b"\x00.."]


def case_line(cid, chain, name=None, mode="dir", size=40, var=0, flags="-", usename=1):
    if name is not None and bytes(name).startswith(b"/") and len(name) > 1:
        name = b"@WORK@/abs" + bytes(name)      # an absolute name stays inside the scratch tree the harness scans (it matters for mutated sanitisers only)
    return "case id=%d chain=%s name=%s mode=%s size=%d var=%d flags=%s usename=%d" % (
        cid, ",".join(":".join(h) for h in chain), "-" if name is None else "x" + bytes(name).hex(), mode, size, var, flags, usename)


def concretise(rng, p, resp, kind=None):
    """model response -> harness hop (path, resp[, impl]).  The model's "substituted" stands for any non-empty other bytes:
    it is rendered as substituted / truncated / extended (`kind` forces one)."""
    ctlish = p in ("control", "fallback", "local")
    if resp == "substituted":
        resp = kind or rng.choice(["substituted", "truncated", "extended"])
    if resp == "error":
        resp = rng.choice(["error", "error", "down"] + (["shortstream"] if ctlish else []))
    if ctlish and resp == "empty" and rng.random() < 0.5:
        return (p, "empty", "nosection")     # an empty delivery claimed without any payload section (SIZE 0 / no SIZE)
    if ctlish and resp in ("correct", "error", "empty", "truncated", "substituted", "extended") and rng.random() < 0.2:
        return (p, resp, "daemon")
    return (p, resp)


def lines_from_path_state(rng, cid, st, kind=None):
    chain = [concretise(rng, p, st["cfg"][p], kind) for p in PATHS if st["cfg"][p] != "absent"]
    size = rng.choice([1, 2, 3, 17, 40, 64, 255, 1000, 4096, 70000])
    if any(h[1] == "truncated" for h in chain):
        size = max(size, 2)
    mode = rng.choice(["dir", "dir", "trail", "defdir", "cwd", "file"])
    name = rng.choice([None, b"payload.bin"] + HOSTILE_NAMES)
    if name is not None and len(name) > 250:
        chain = [h[:2] for h in chain]          # the real daemon caps a header line at 16 KiB; keep its MANIFEST line short
    return case_line(cid, chain, name, mode, size, rng.randrange(1000), st["flags"], 1 if rng.random() < 0.9 else 0)


def path_cases(chk, states, budget):
    """pick `budget` of the exported path cases: every single-hop case, every (hostile, then correct) pair, the rest at random"""
    rng = chk.rng
    def present(st): return [p for p in PATHS if st["cfg"][p] != "absent"]
    must, rest = [], []
    for st in states:
        pr = present(st)
        if not pr:
            continue
        resp = [st["cfg"][p] for p in pr]
        single = len(pr) == 1 and st["flags"] == "-"
        pair = len(pr) == 2 and st["flags"] == "-" and resp[0] in HOSTILE and resp[1] == "correct"
        allbad = len(pr) == 5 and st["flags"] == "-" and all(x in HOSTILE for x in resp) and len(set(resp)) >= 3
        (must if single or pair or (allbad and rng.random() < 0.05) else rest).append(st)
    rng.shuffle(must)
    rng.shuffle(rest)
    # the rest: prefer cases in which a hostile hop is actually contacted under the design
    def interesting(st): return any(st["cfg"][p] in HOSTILE for p in st["tried"])
    rest.sort(key=lambda st: 0 if interesting(st) else 1)
    n_int = sum(1 for st in rest if interesting(st))
    take = must[:budget]
    room = budget - len(take)
    if room > 0:
        a = rest[:n_int]
        b = rest[n_int:]
        take += a[: (room * 3) // 4] + b[: room - min(len(a), (room * 3) // 4)]
    return take


def name_class(name, outrel):
    base = name[len(name) - name[::-1].index(47):] if 47 in name else name
    return (47 in name, any(c in CONTROL for c in base), any(c in RESERVED or c == 92 for c in base), outrel == [99, 105, 100],
            bytes(c for c in base if c not in CONTROL) in (b".", b".."), len(base) == 0)


def vary(rng, name):
    """another concrete member of the abstract symbol classes"""
    out = []
    for c in name:
        if c == 1:
            out.append(rng.choice([0, 1, 9, 10, 13, 27, 31]))
        elif c == 58:
            out.append(rng.choice(RESERVED))
        elif c == 97:
            out.append(rng.choice(b"aZ09_-~+%$#@!()[]{}',;=&^`"))
        elif c == 195:
            out.append(rng.choice([128, 160, 195, 255, 237]))
        else:
            out.append(c)
    return out


def random_name(rng):
    k = rng.random()
    if k < 0.25:
        return bytes(rng.choice(ALPHABET + RESERVED + [0, 10, 31, 128, 255, 98, 95]) for _ in range(rng.randrange(0, 12)))
    if k < 0.4:
        n = rng.choice([254, 255, 256, 257, 300, 1000])
        return (rng.choice([b"", b"../", b"d/", b".", b".."]) + bytes(rng.choice([97, 98, 46, 195, 169, 32]) for _ in range(n)))[: n + 3]
    if k < 0.6:
        return b"/".join(rng.choice([b"..", b".", b"a", b"", b"..\\..", b"b:c", b"\x01", b" "]) for _ in range(rng.randrange(1, 7)))
    if k < 0.8:
        return bytes(rng.randrange(256) for _ in range(rng.randrange(1, 40)))
    return rng.choice(HOSTILE_NAMES)


# ----------------------------------------------------------------------------------------
KEEP_F = ("op", "id", "mode", "flags", "want", "chain", "rc", "files")
KEEP_N = ("op", "id", "raw", "direct_has", "direct", "piped_has", "piped")


def slim(e):
    if e["op"] == "fetch":
        d = {k: e[k] for k in KEEP_F}
        d["chain"] = [{a: h[a] for a in ("path", "resp", "dig", "hits", "order")} for h in e["chain"]]
        d["files"] = [{a: f[a] for a in ("rel", "dig")} for f in e["files"]]
        return d
    return {k: e[k] for k in KEEP_N}


def run_driver(lines, wd, tag, exe=None, shards=4):
    """replay script lines on the real code, in `shards` driver processes side by side (each with its own servers and ports);
    returns the events in script order"""
    b = build("clifetch")
    shards = max(1, min(shards, (len(lines) + 19) // 20))
    parts = [lines[i::shards] for i in range(shards)]

    def one(i):
        script = os.path.join(wd, "script-%s-%d.txt" % (tag, i))
        trace = os.path.join(wd, "trace-%s-%d.ndjson" % (tag, i))
        with open(script, "w") as f:
            f.write("\n".join(parts[i]) + "\n")
        cmd = "VERIF_XHDRS='%s' %s %s %s %s %s 2> %s" % (",".join(response_keys()), b, script, trace, os.path.join(wd, "run-%s-%d" % (tag, i)), exe or "", os.path.join(wd, "stderr-%s-%d.txt" % (tag, i)))
        rc, out = vlib.sh(cmd, timeout=2400, check=False)
        evs = vlib.read_ndjson(trace) if os.path.exists(trace) else []
        if rc != 0 or len(evs) != len(parts[i]):
            err = open(os.path.join(wd, "stderr-%s-%d.txt" % (tag, i)), errors="replace").read()
            err = "\n".join(x for x in err.splitlines() if "[SessionManager]" not in x and '"event":"control.' not in x)
            raise vlib.MachineryError("clifetch driver rc=%d, %d of %d events\n%s" % (rc, len(evs), len(parts[i]), err[-3000:]))
        shutil.rmtree(os.path.join(wd, "run-%s-%d" % (tag, i)), ignore_errors=True)
        return evs
    with ThreadPoolExecutor(max_workers=shards) as ex:
        outs = list(ex.map(one, range(shards)))
    events = [None] * len(lines)
    for i, evs in enumerate(outs):
        events[i::shards] = evs
    return events


_KEYS = []


def response_keys():
    """every key that the CLI / control-client sources of the tree under test look up in a control response: a hostile endpoint
    is free to send any header line, and these are the ones the client can react to"""
    if not _KEYS:
        import glob
        pat = re.compile(r'fields\s*(?:\.\s*(?:contains|find|count|at)\s*\(|\[)\s*"([A-Za-z0-9_-]{1,40})"')
        found = set()
        for f in [os.path.join(vlib.REPO, "src", "main.cpp")] + glob.glob(os.path.join(vlib.REPO, "src", "daemon", "*.cpp")) + \
                glob.glob(os.path.join(vlib.REPO, "include", "ephemeralnet", "daemon", "*.hpp")):
            found |= set(pat.findall(open(f, errors="replace").read()))
        _KEYS.extend(sorted(found)[:120] or ["X-NONE"])
    return _KEYS


def validate(events, wd, tag):
    path = os.path.join(wd, "validate-%s.ndjson" % tag)
    with open(path, "w") as f:
        for e in events:
            f.write(json.dumps(slim(e), separators=(",", ":")) + "\n")
    res = vlib.validate("CliFetchTrace", path, timeout=1500, heap="3g")
    if res["events"] != len(events) or res["stats"]["fetch"] + res["stats"]["nodename"] != len(events):
        raise vlib.MachineryError("trace validation covered %s of %d events" % (res.get("stats"), len(events)))
    return res


def _clauses(v):
    return v["clause"] if isinstance(v["clause"], list) else [v["clause"]]


def confirm_honest(events, lines, res, wd, name, exe):
    """An honest fetch that failed is replayed (alone, up to twice) before it counts: the CLI's 2 s handshake and 5 s relay
    time-outs are real time, and the machine may be heavily loaded.  Only a reproducible failure stays in the trace."""
    NW = "C30.correct-bytes-not-written"
    idx = sorted({v["l"] - 1 for v in res.get("viol", []) if any(c.startswith(NW) for c in _clauses(v))})
    if not idx:
        return res
    recovered = 0
    for attempt in (1, 2):
        evs = run_driver([lines[i] for i in idx], wd, "%s-confirm%d" % (name, attempt), exe, shards=1)
        r2 = validate(evs, wd, "%s-confirm%d" % (name, attempt))
        bad = {v["l"] - 1 for v in r2.get("viol", []) if any(c.startswith(NW) for c in _clauses(v))}
        for k, i in enumerate(idx):
            if k not in bad:
                events[i] = evs[k]
                recovered += 1
        idx = [i for k, i in enumerate(idx) if k in bad]
        if not idx:
            break
    if recovered:
        log("[driver] %d honest fetches failed once and succeeded when replayed alone (real-time handshake time-outs under load); %d fail reproducibly"
            % (recovered, len(idx)))
        res = validate(events, wd, name + "-final")
    return res


def design_outcome(st):
    return (st["rc"], "none" if st["file"] == "none" else ("want" if st["file"] == "want" else "other"))


def observed_outcome(e):
    digs = {f["dig"] for f in e["files"]}
    return (0 if e["rc"] == 0 else 1, "none" if not digs else ("want" if digs == {e["want"]} else "other"))


def run_and_validate(chk, groups, name, exe=None, design=None, shards=4):
    """groups: [(label, script lines)]; replay, validate with TLC, report clause failures"""
    groups = [(lab, lines) for lab, lines in groups if lines]
    if not groups:
        return None
    wd = vlib.workdir("clifetch-%s-%s" % (chk.pid, name))
    t0 = time.time()
    lines = [ln for _, lines_ in groups for ln in lines_]
    label_of = {}
    for lab, lines_ in groups:
        for ln in lines_:
            label_of[ln] = lab
    events = run_driver(lines, wd, name, exe, shards)
    t1 = time.time()
    hung = [e for e in events if e["op"] == "fetch" and e.get("timeout")]
    if hung:
        log("[driver] %d fetch commands were killed after the 60 s time-out (exit code -1 in the trace), first: %s" % (len(hung), lines[events.index(hung[0])]))
    for e in events:
        if e["op"] == "fetch" and e["rc"] in (95, 96, 97, 98, 99):
            raise vlib.MachineryError("the CLI child could not be started (rc=%d): %s" % (e["rc"], e.get("out", "")[-400:]))
    res = validate(events, wd, name)
    res = confirm_honest(events, lines, res, wd, name, exe)
    t2 = time.time()
    nb = sum(1 for e in events if e["op"] == "fetch") + (1 if any(e["op"] == "nodename" for e in events) else 0)
    chk.add_traces(nb, len(events), res, "+".join(lab for lab, _ in groups) + (" (eph binary)" if exe else ""))
    for e, ln in zip(events, lines):
        if e["op"] == "fetch":
            chk.nontrivial(["fetch", [(h["path"], h["resp"], h["impl"]) for h in e["chain"]], e["flags"], e["mode"], e["rc"] == 0, len(e["files"])])
        else:
            chk.nontrivial(["name", name_class(e["raw"], None)[:3], e["direct_has"], e["piped_has"], e["direct"] == e["raw"], e["piped"] == e["direct"],
                            min(len(e["raw"]), 6) if len(e["raw"]) <= 255 else 256, len(e["direct"]) == 255])
    for e, ln in list(zip(events, lines))[:2] + [(e, ln) for e, ln in zip(events, lines) if e["op"] == "fetch" and e["rc"] != 0][:2]:
        chk.sample({"source": label_of[ln], "case": ln[:300], "rc": e.get("rc"), "err": e.get("err"),
                    "files": [{"rel": bytes(f["rel"]).decode("latin-1"), "matches_manifest_hash": f["dig"] == e["want"]} for f in e.get("files", [])] if e["op"] == "fetch"
                    else None, "recorded": bytes(e["direct"]).decode("latin-1") if e["op"] == "nodename" else None})
    reported = set()
    for v in res.get("viol", []):
        e, ln = events[v["l"] - 1], lines[v["l"] - 1]
        for cl in (v["clause"] if isinstance(v["clause"], list) else [v["clause"]]):
            if cl in reported:
                continue
            reported.add(cl)
            if e["op"] == "fetch":
                what = "%s on the real CLI (%s, %s): exit code %d, files %s, chain %s" % (
                    cl, label_of[ln], e["bind"], e["rc"],
                    json.dumps([{"rel": bytes(f["rel"]).decode("latin-1"), "size": f["size"], "matches_manifest_hash": f["dig"] == e["want"]} for f in e["files"]]),
                    json.dumps([[h["path"], h["resp"], h["impl"], h["hits"]] for h in e["chain"]]))
            else:
                what = "%s: Node::store_chunk recorded %r (direct) / %r (behind sanitize_filename_hint) for the name %r" % (
                    cl, bytes(e["direct"]), bytes(e["piped"]), bytes(e["raw"]))
            chk.report(cl, what, ["# failing case (%s); replay with: tools/check %s --replay <this file>" % (label_of[ln], chk.pid), ln,
                                  "# recorded event: " + json.dumps(e)], replay_name=cl)
    drift = 0
    if design:
        for e, ln in zip(events, lines):
            st = design.get(ln)
            if st is not None and design_outcome(st) != observed_outcome(e):
                drift += 1
    log("[trace] %s: %d events (replay %.1fs in %d driver processes, validation %.1fs), %d clause failures, stats %s%s" % (
        "+".join("%s:%d" % (lab, len(l_)) for lab, l_ in groups), len(events), t1 - t0, shards, t2 - t1, len(res.get("viol", [])), json.dumps(res.get("stats")),
        (", %d cases end differently from the design model's prediction" % drift) if design else ""))
    return res


# ----------------------------------------------------------------------------------------
def run_c30(chk):
    thorough = chk.tier == "thorough"
    rng = chk.rng
    states = model_check(chk, "C30")
    states.sort(key=lambda s: json.dumps(s, sort_keys=True))
    log("[gen] %d terminal states exported by TLC" % len(states))
    picked = path_cases(chk, states, 1500 if thorough else 120)
    design, tlc_lines = {}, []
    cid = 1
    for st in picked:
        present = [p for p in PATHS if st["cfg"][p] != "absent"]
        single_sub = len(present) == 1 and st["cfg"][present[0]] == "substituted" and st["flags"] == "-"
        for kind in (("substituted", "truncated", "extended") if single_sub else (None,)):   # every kind of "other bytes" alone on every path
            ln = lines_from_path_state(rng, cid, st, kind)
            design[ln] = st
            tlc_lines.append(ln)
            cid += 1
    # seeded random multi-hop chains with every hostile kind, quirks included
    rnd = []
    for _ in range(300 if thorough else 30):
        k = rng.choice([1, 1, 2, 2, 3, 4, 5])
        ps = sorted(rng.sample(PATHS, k), key=PATHS.index)
        chain = []
        for p in ps:
            ctlish = p in ("control", "fallback", "local")
            resp = rng.choice(["correct"] + HOSTILE * 2 + ["error", "down"] + (["nopayload", "shortstream"] if ctlish else []))
            chain.append(concretise(rng, p, resp) if resp not in ("down", "nopayload", "shortstream") else (p, resp))
        size = rng.choice([0, 1, 2, 5, 40, 333, 65536, 200000])
        if any(h[1] == "truncated" for h in chain):
            size = max(size, 2)
        if size == 0:
            chain = [h[:2] for h in chain]      # a real daemon cannot hold (or stream) a zero-length payload: fake endpoints only
        rnd.append(case_line(cid, chain, rng.choice([None, random_name(rng)]), rng.choice(["dir", "trail", "defdir", "cwd", "file"]), size, rng.randrange(10 ** 6),
                             rng.choice(["-", "-", "-", "direct", "transport", "ctl"]), 1))
        cid += 1
    # the destination already exists and the user confirms the overwrite at a terminal (stdin is a pty on which "y" was typed): a reply
    # that fails the check must leave nothing of itself there either
    pre = []
    for p in PATHS:
        for resp in (["correct"] + HOSTILE + (["nopayload", "shortstream"] if p in ("control", "fallback", "local") else [])):
            hop = (p, resp)
            size = max(2, rng.choice([5, 40, 70000]))
            pre.append(case_line(cid, [hop], rng.choice([None, b"payload.bin"]), "file", size, rng.randrange(10 ** 6), "-", 1) + " pre=1")
            cid += 1
    if not thorough:
        keep = [ln for ln in pre if ":correct" in ln]
        rest = [ln for ln in pre if ":correct" not in ln]
        pre = keep[:3] + rng.sample(rest, min(len(rest), 14))
    # an endpoint that claims success for an EMPTY delivery without any payload section (SIZE 0 with / without STREAM:CLIENT, or no SIZE),
    # for a manifest whose content is not empty; alone and followed by an honest path
    nosec = []
    for p in ("control", "fallback", "local"):
        for v in range(3):
            nosec.append(case_line(cid, [(p, "empty", "nosection")], None, "file", rng.choice([5, 40, 70000]), v, "-", 1))
            nosec.append(case_line(cid + 1, [(p, "empty", "nosection"), ("transport", "correct")], b"n.bin", "dir", 40, v, "-", 1))
            cid += 2
    run_and_validate(chk, [("tlc-paths", tlc_lines), ("random-chains", rnd), ("overwrite-existing-destination", pre), ("empty-delivery-without-a-payload-section", nosec)],
                     "inproc", design=design, shards=8 if thorough else 4)
    if thorough:
        exe = build("ephcli")
        sub = rng.sample(tlc_lines, min(len(tlc_lines), 240)) + rng.sample(rnd, min(len(rnd), 60))
        run_and_validate(chk, [("eph-binary", sub)], "binary", exe=exe, design=design, shards=8)
    chk.assumptions += [
        "byte equality is decided by SHA-256 equality, computed with the repo's crypto::Sha256 (bound to the TLA+ reference by C08)",
        "the manifest handed to the CLI is crafted by the harness (content hash of the expected payload, key shares and nonce under which the providers sealed their "
        "bytes, hints of the case); transport / relay providers are real Nodes holding the response bytes under the manifest's chunk id (Node::receive_chunk), the relay is "
        "the real RelayServer; control-hint, control:// and local-daemon endpoints are harness-owned TCP listeners speaking the control protocol, or (`:daemon`) a real "
        "ControlServer + Node holding the response bytes",
        "a fetch is demanded to succeed only in an honest world (every configured endpoint returns the stored payload or nothing) with a correct endpoint on a path the "
        "discovery-mode flags allow; the order in which paths are tried is not demanded",
        "quick tier: the real main() of src/main.cpp runs in a forked child of the harness; thorough tier additionally runs the `eph` binary built from the same tree",
    ]


def run_c31(chk):
    thorough = chk.tier == "thorough"
    rng = chk.rng
    states = model_check(chk, "C31")
    states.sort(key=lambda s: json.dumps(s, sort_keys=True))
    log("[gen] %d names exported by TLC" % len(states))
    # node side: every enumerated name (canonical bytes), a varied concretisation for a third of them, random names
    nn, nid = [], 1
    for st in states:
        nn.append("nodename id=%d raw=x%s" % (nid, bytes(st["name"]).hex()))
        nid += 1
    for st in rng.sample(states, min(len(states) // 3, 10000)):
        nn.append("nodename id=%d raw=x%s" % (nid, bytes(vary(rng, st["name"])).hex()))
        nid += 1
    for _ in range(6000 if thorough else 2000):
        nn.append("nodename id=%d raw=x%s" % (nid, random_name(rng).hex()))
        nid += 1
    # CLI side: representatives of every sanitiser decision class, short names exhaustively, random long / binary names
    classes = {}
    for st in states:
        classes.setdefault(name_class(st["name"], st["outrel"]), []).append(st["name"])
    per = 20 if thorough else 3
    cli_names = []
    for k in sorted(classes):
        cli_names += rng.sample(classes[k], min(per, len(classes[k])))
    cli_names += [st["name"] for st in states if len(st["name"]) <= (2 if thorough else 1)]
    cli_names = [bytes(n) for n in cli_names] + [bytes(vary(rng, n)) for n in rng.sample(cli_names, len(cli_names) // 3)]
    cli_names += list(HOSTILE_NAMES) + [random_name(rng) for _ in range(500 if thorough else 40)]
    fl, cid = [], 1
    for n in cli_names:
        mode = rng.choice(["dir", "dir", "trail", "defdir", "cwd"])
        chain = rng.choice([[("local", "correct")], [("local", "correct")], [("control", "correct")], [("fallback", "correct")], [("transport", "correct")],
                            [("local", "correct", "daemon")]])
        if len(n) > 3000 and len(chain[0]) == 3:
            chain = [("local", "correct")]
        fl.append(case_line(cid, chain, n, mode, rng.choice([1, 40, 500]), 0, "-", 1))
        cid += 1
    for _ in range(6):      # the name is ignored on request / absent
        fl.append(case_line(cid, [("local", "correct")], rng.choice([None, b"../x"]), "dir", 40, 0, "-", 0))
        cid += 1
    run_and_validate(chk, [("tlc-names-node", nn), ("names-cli", fl)], "inproc", shards=8 if thorough else 4)
    if thorough:
        exe = build("ephcli")
        run_and_validate(chk, [("eph-binary-names", rng.sample(fl, min(len(fl), 300)))], "binary", exe=exe, shards=8)
    chk.assumptions += [
        "created files are found by scanning the whole scratch tree of the case (the target directory sits four levels deep in it, the CLI's working directory is a "
        "sibling) plus probes of the paths the raw name would denote; a file written elsewhere on the machine is not seen",
        "names the node records are read from the decoded manifest URI of Node::store_chunk, called directly and behind security::sanitize_filename_hint (the daemon's "
        "STORE pipeline); the hint function alone is not demanded to sanitise, only what ends up in a manifest",
        "reserved characters = : * ? \" < > | ; separators = / and \\ ; control = 0x00-0x1f and 0x7f (C locale); bytes >= 0x80 are neither",
    ]


def run(chk):
    if chk.pid == "C30":
        run_c30(chk)
    else:
        run_c31(chk)


def replay(chk, path):
    lines = [x.strip() for x in open(path) if x.startswith("case ") or x.startswith("nodename ")]
    if not lines:
        raise vlib.MachineryError("no 'case ...' / 'nodename ...' line in %s" % path)
    run_and_validate(chk, [("replay", lines)], "replay", shards=1)
