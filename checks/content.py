"""Content group (C11: stored content round-trips; tampered replicas are never accepted).

Pipeline:  TLC model-checks the abstract node model of spec/Content.tla (toy primitives; every interleaving of Store /
Import(corruption) / Ingest(foreign or corrupted manifest) / ShardExpire / Fetch; deviation and reachability configs)  ->  its
state-cover action sequences, the structured matrices below (shard configurations x payload sizes x corruption kinds x entry
points; the corruption kinds are the ones the specification enumerates, the byte-level operators live in harness/content.cpp)
and VERIF_SEED-random behaviours become scripts  ->  harness/content.cpp drives REAL Nodes and the CLI's
decrypt_chunk_with_manifest and logs every manifest field and byte handed to / returned by the real code  ->  TLC
(spec/ContentTrace.tla) recomputes SHA-256, the Shamir reconstruction and ChaCha20 with the executable references and judges
every event against the contract.  No hashing / decryption is done in python."""
import json, os, threading
import vlib
from vlib import log, MachineryError

CONFIGS = [(1, 1), (2, 3), (3, 5), (5, 5)]
SMALL_SIZES = [0, 1, 63, 64, 65, 512]
LARGE_SIZES = [65536, 1048576]
# corruption kinds (spec/Content.tla Kinds + the structural ones the trace spec judges through Usable / Genuine)
KINDS = ["flipfirst", "flipmid", "fliplast", "trunc", "extend", "swapnonce", "nonce@11:7", "althash", "hash@31:7", "shardfirst", "shardlast",
         "shardidx", "shard@1.0:1", "thrminus", "thrplus", "dropshard", "swapshards", "altid0", "altid31", "foreignmanifest", "foreignct",
         "flipfirst+althash", "trunc+extend", "extend+trunc"]
NEEDS_Y = ("swapnonce", "foreignmanifest", "foreignct")
LARGE_KINDS = ["flipfirst", "flipmid", "fliplast", "trunc", "extend", "althash"]
MODEL_KINDS = {"none", "flipfirst", "flipmid", "fliplast", "trunc", "extend", "swapnonce", "althash", "shardfirst", "shardlast", "foreignmanifest", "foreignct"}
TTLS = [3600, 0, 1, 30, 86400, 200000, 61, 7200]
LANES = max(1, min(8, vlib.NCPU))


# ------------------------------------------------------------------------------------------- TLC side: the abstract model
def model_check(chk):
    """returns the action histories of the state cover (one path per distinct abstract state)"""
    thorough = chk.tier == "thorough"
    r, hists = vlib.dump_hists("Content", "MC_Content.cfg", workers=8, timeout=900, heap="2g")
    chk.add_model("Content design=>contract: 1 chunk id, payloads {empty, 2 symbols}, 2 keys, thresholds {1 (one unused share), 2}, 12 corruption kinds, "
                  "every interleaving of Store/Import/Ingest/ShardExpire/Fetch", r,
                  "invariants C11_FetchAllowed C11_FetchNothingUnknown C11_TamperedNeverAccepted C11_RejectedChangesNothing C11_GenuineAccepted C11_HeldIsSealed")
    jobs = [("dev_fetchunverified", "C11_FetchAllowed"), ("dev_importunverified", "C11_TamperedNeverAccepted"), ("dev_storebeforeverify", "C11_RejectedChangesNothing"),
            ("reach_meddledfetch", "Reach_MeddledFetch"), ("reach_meddledmiss", "Reach_MeddledMiss"), ("reach_tamperedbutgenuine", "Reach_TamperedButGenuine"),
            ("reach_tamperedrefused", "Reach_TamperedRefused"), ("reach_replacedbyothercontent", "Reach_ReplacedByOtherContent"), ("reach_fallbackhit", "Reach_FallbackHit")]
    errs = []

    def one(cfg, inv):
        try:
            vlib.mc("Content", "MC_Content_%s.cfg" % cfg, expect_violation=inv, workers=1, timeout=600, heap="1g",
                    wd=vlib.workdir("tlc-Content-%s-%d" % (cfg, os.getpid())))
        except Exception as ex:          # noqa: collected, re-raised below in the main thread
            errs.append(ex)
    ths = [threading.Thread(target=one, args=j) for j in jobs]
    for t in ths:
        t.start()
    for t in ths:
        t.join()
    if errs:
        raise errs[0]
    if thorough:
        r2, hists = vlib.dump_hists("Content", "MC_Content_full.cfg", workers=8, timeout=1500, heap="3g")
        chk.add_model("Content, 3 payloads (empty, 1, 2 symbols)", r2)
        r3 = vlib.mc("Content", "MC_Content_2ids.cfg", workers=8, timeout=1500, heap="3g")
        chk.add_model("Content, 2 chunk ids (no cross-talk between ids)", r3)
    return hists


class Beh:
    """one behaviour = script lines after a reset; allocates slots and remembers which descriptor lives where"""

    def __init__(self, rseed):
        self.lines = ["reset rseed=%d" % rseed]
        self.nslots = 0

    def node(self, i, t, n):
        self.lines.append("node i=%d t=%d n=%d" % (i, t, n))

    def store(self, node, c, size, pseed, ttl=3600, key=None, nseed=None, full=False):
        s = self.nslots
        self.nslots += 1
        ln = "store node=%d slot=%d c=%d size=%d pseed=%d ttl=%d" % (node, s, c, size, pseed, ttl)
        if key is not None:
            ln += " key=%d nseed=%d" % (key, nseed or 0)
        if full:
            ln += " full=1"
        self.lines.append(ln)
        return s

    def tamper(self, slot, kind, y=None, recv=None, cli=False, chunkin=None):
        ln = "tamper slot=%d corrupt=%s" % (slot, kind)
        if y is not None:
            ln += " y=%d" % y
        if recv is not None:
            ln += " recv=%d" % recv
        if cli:
            ln += " cli=1"
        if chunkin is not None:
            ln += " chunkin=%d" % chunkin
        self.lines.append(ln)

    def manifest(self, node, slot, via, kind="none", y=None):
        self.lines.append("manifest node=%d slot=%d corrupt=%s via=%s%s" % (node, slot, kind, via, (" y=%d" % y) if y is not None else ""))

    def fetch(self, node, c):
        self.lines.append("fetch node=%d c=%d" % (node, c))

    def add(self, ln):
        self.lines.append(ln)


# ------------------------------------------------------------------------------------------- TLC state cover -> behaviours
def hist_to_behaviour(h, j):
    """one TLC action history (model node N = driver node 0; publications of the environment = helper publishers 3 / 4)"""
    cfg_unused, cfg_allused = [((2, 3), (1, 1)), ((3, 5), (5, 5)), ((2, 3), (5, 5)), ((3, 5), (1, 1))][j % 4]
    sizes = {1: 0, 2: [1, 63][j % 2], 3: [33, 65, 2, 64, 55, 56, 65, 512 if j % 16 == 7 else 9][(j // 2) % 8]}
    b = Beh(100 + j)
    first_t = next((a["d"]["t"] for a in h if a["op"] == "store"), 1)
    own = cfg_unused if first_t == 1 else cfg_allused
    b.node(0, *own)
    b.node(3, *cfg_unused)
    b.node(4, *cfg_allused)
    cbase = (j % 4)
    slot_of = {}          # descriptor -> slot of an equivalent publication

    def dkey(c, d):
        return (c, d["p"], d["k"], d["nn"], d["t"])

    def publication(c, d):
        k = dkey(c, d)
        if k not in slot_of:
            slot_of[k] = b.store(3 if d["t"] == 1 else 4, cbase + 4 * (c - 1), sizes[d["p"]], d["p"] + 10, key=d["k"] + 1, nseed=d["nn"])
        return slot_of[k]
    vias = ["ingest", "announce", "request"]
    for i, a in enumerate(h):
        op = a["op"]
        c = cbase + 4 * (a["c"] - 1)
        if op == "store":
            d = a["d"]
            slot_of[dkey(a["c"], d)] = b.store(0, c, sizes[d["p"]], d["p"] + 10, key=d["k"] + 1, nseed=d["nn"], ttl=TTLS[(j + i) % len(TTLS)])
        elif op == "import":
            x = publication(a["c"], a["d"])
            y = publication(a["c"], a["e"]) if a["kind"] in ("foreignmanifest", "foreignct") else None
            b.tamper(x, a["kind"], y=y, recv=0, cli=(i + j) % 3 == 0)
        elif op == "ingest":
            x = publication(a["c"], a["d"])
            b.manifest(0, x, vias[(i + j) % 3], a["kind"])
        elif op == "shardexpire":
            b.add("shardexpire node=0 c=%d" % c)
        elif op == "fetch":
            b.fetch(0, c)
    # close every behaviour with a lookup so that the last action's effect is observed
    if h and h[-1]["op"] != "fetch":
        b.fetch(0, cbase + 4 * (h[-1]["c"] - 1))
    return b.lines


# ------------------------------------------------------------------------------------------- structured matrices
def matrix_roundtrip(tier):
    out = []
    j = 0
    for (t, n) in CONFIGS:
        for size in SMALL_SIZES + LARGE_SIZES:
            j += 1
            b = Beh(200 + j)
            b.node(0, t, n)
            b.node(1, 3, 5)
            b.node(2, 2, 3)
            c = j % 8
            s = b.store(0, c, size, j, ttl=TTLS[j % len(TTLS)], full=(tier == "thorough" and size == 65536 and (t, n) == (2, 3)))
            b.fetch(0, c)
            b.tamper(s, "none", recv=1, cli=True, chunkin=2)
            b.fetch(1, c)
            b.fetch(2, c)
            b.fetch(0, c)
            out.append(b.lines)
    return out


def matrix_tamper(tier):
    out = []
    j = 0
    if tier == "thorough":
        combos = [(cfg, size) for cfg in CONFIGS for size in (0, 1, 63, 64, 65, 512)]
    else:
        combos = [(cfg, size) for cfg in CONFIGS for size in (0, 65)] + [((2, 3), 1), ((5, 5), 1), ((3, 5), 512)]
    for (t, n), size in combos:
        j += 1
        b = Beh(300 + j)
        b.node(0, t, n)
        b.node(1, 3, 5)
        b.node(2, 3, 5)
        b.node(3, (t % 5) + 1, 5)
        c = (j + 1) % 8
        s = b.store(0, c, size, j + 1)
        y = b.store(3, c, size + 5, j + 50)          # another publication of the same chunk id (other payload, key, nonce)
        kinds = KINDS if (size < 512 or tier == "thorough") else KINDS[::2]
        half = len(kinds) // 2
        for i, k in enumerate(kinds):
            if i == half:
                b.tamper(s, "none", recv=1, cli=True, chunkin=2)      # from here on the importing nodes hold the chunk
                b.fetch(1, c)
            b.tamper(s, k, y=(y if k.split("+")[0] in NEEDS_Y else None), recv=1, cli=True, chunkin=2)
        b.fetch(1, c)
        b.fetch(2, c)
        out.append(b.lines)
    # large payloads: judged by construction (see spec/ContentTrace.tla header)
    for i, size in enumerate(LARGE_SIZES):
        t, n = CONFIGS[(i + 1) % 4]
        b = Beh(390 + i)
        b.node(0, t, n)
        b.node(1, 3, 5)
        b.node(2, 3, 5)
        s = b.store(0, 3 + i, size, 7 + i)
        for k in LARGE_KINDS[:3]:
            b.tamper(s, k, recv=1, cli=True, chunkin=2)
        b.tamper(s, "none", recv=1, cli=True)
        for k in LARGE_KINDS[3:]:
            b.tamper(s, k, recv=1, cli=True, chunkin=2)
        b.fetch(1, 3 + i)
        out.append(b.lines)
    return out


def matrix_foreign(tier):
    """a different manifest for a chunk id the node holds arrives through every manifest entry point; then a lookup"""
    out = []
    j = 0
    for (t, n) in CONFIGS:
        if tier == "thorough":
            plan = [(size, via, same) for size in (0, 1, 65, 512) for via in ("ingest", "announce", "request") for same in (False, True)]
        else:
            plan = [(65, via, same) for via in ("ingest", "announce", "request") for same in (False, True)]
            plan += [(0, "ingest", False), (0, "announce", True), (1, "request", False)] + ([(512, "ingest", False)] if (t, n) == (3, 5) else [])
        for size, via, same_payload in plan:
            j += 1
            b = Beh(400 + j)
            b.node(0, t, n)
            b.node(3, CONFIGS[j % 4][0], CONFIGS[j % 4][1])
            c = j % 8
            s = b.store(0, c, size, j)
            f = b.store(3, c, size if same_payload else size + 3, j if same_payload else j + 1000)
            b.fetch(0, c)
            b.manifest(0, f, via)
            b.fetch(0, c)
            if j % 3 == 0:
                b.add("shardexpire node=0 c=%d" % c)
                b.fetch(0, c)
            if j % 2 == 0:
                b.manifest(0, s, "ingest")        # the node's own manifest again
                b.fetch(0, c)
            out.append(b.lines)
    return out


# ------------------------------------------------------------------------------------------- random behaviours
def rsize(rng, big):
    x = rng.random()
    if x < 0.45:
        return rng.choice([0, 1, 2, 31, 32, 33, 63, 64, 65, 127, 128, 129, 191, 192, 193, 255, 256, 257, 511, 512])
    if big and x < 0.50:
        return rng.choice([513, 4096, 65535, 65536, 65537, 300000])
    return rng.randrange(0, 513) if (big or x > 0.9) else rng.randrange(0, 130)


def rkind(rng, size, nshards):
    x = rng.random()
    if x < 0.25:
        return "flip@%d:%d" % (rng.randrange(max(1, size)), rng.randrange(8))
    if x < 0.33:
        return "hash@%d:%d" % (rng.randrange(32), rng.randrange(8))
    if x < 0.41:
        return "nonce@%d:%d" % (rng.randrange(12), rng.randrange(8))
    if x < 0.55:
        return "shard@%d.%d:%d" % (rng.randrange(nshards), rng.randrange(33), rng.randrange(8))
    if x < 0.62:
        return rkind(rng, size, nshards) + "+" + rkind(rng, size, nshards)
    return rng.choice(KINDS + ["none"])


def random_behaviours(rng, count, big):
    out = []
    for j in range(count):
        b = Beh(rng.randrange(1, 10 ** 6))
        cfgs = {}
        for i in (0, 1, 2, 3):
            t = rng.choice([1, 1, 2, 2, 3, 3, 4, 5, 6])
            n = rng.choice([t, t, t + 1, t + 2, min(t + 5, 9)])
            if rng.random() < 0.4:
                t, n = rng.choice(CONFIGS)
            cfgs[i] = (t, n)
            b.node(i, t, n)
        slots = []      # (slot, node, c, size, nshards)
        held = {}       # node -> set of c it may hold
        for _ in range(rng.randint(3, 12)):
            x = rng.random()
            if x < 0.28 or not slots:
                node = rng.choice([0, 0, 3])
                c = rng.randrange(0, 6)
                size = rsize(rng, big)
                s = b.store(node, c, size, rng.randrange(0, 10 ** 6), ttl=rng.choice(TTLS),
                            key=(rng.randrange(1, 5) if rng.random() < 0.3 else None), nseed=rng.randrange(0, 3))
                slots.append((s, node, c, size, max(cfgs[node])))
                held.setdefault(node, set()).add(c)
            elif x < 0.62:
                s, node, c, size, nsh = rng.choice(slots)
                large = size > 512
                kind = rng.choice(LARGE_KINDS + ["none"]) if large else rkind(rng, size, nsh)
                y = None
                if any(k in NEEDS_Y for k in kind.split("+")):
                    same = [q for q in slots if q[2] == c and q[0] != s] or [q for q in slots if q[0] != s]
                    if not same:
                        kind = "flipmid"
                    else:
                        y = rng.choice(same)[0]
                recv = rng.choice([0, 1, 1, 2, None])
                b.tamper(s, kind, y=y, recv=recv, cli=rng.random() < 0.5, chunkin=rng.choice([None, None, 2, 1]))
                for nd in (recv,):
                    if nd is not None:
                        held.setdefault(nd, set()).add(c)
            elif x < 0.78:
                s, node, c, size, nsh = rng.choice(slots)
                kind = rng.choice(["none", "none", "none", "althash", "swapnonce", "shardfirst", "shardlast", "thrminus", "dropshard", "swapshards"])
                if kind == "swapnonce":
                    kind = "nonce@3:2"
                b.manifest(rng.choice([0, 0, 1, 2]), s, rng.choice(["ingest", "announce", "request"]), kind)
            elif x < 0.83:
                s, node, c, size, nsh = rng.choice(slots)
                b.add("shardexpire node=%d c=%d" % (rng.choice([0, 1, 2]), c))
            else:
                s, node, c, size, nsh = rng.choice(slots)
                b.fetch(rng.choice([node, 0, 1, 2]), c)
        for nd, cs in held.items():
            for c in sorted(cs):
                b.fetch(nd, c)
        out.append(b.lines)
    return out


# ------------------------------------------------------------------------------------------- run + validate
def event_cost(e):
    """reference blocks TLC will spend on this event (for balancing the lanes)"""
    if e["op"] == "store":
        return 2 * (e["plen"] // 64 + 2) if e.get("small") else (6 + (2 * (e["plen"] // 64 + 2) if "p" in e else 0))
    if e["op"] == "tamper" and e.get("small") and not e.get("pristine"):
        return 2 * (e["ctlen"] // 64 + 2) * (2 if e.get("k_hasm") and not e.get("k_same_m") else 1)
    if e["op"] == "fetch":
        return 1 + (e.get("len", 0) // 64 if e.get("eqslot", 0) == -1 else 0)
    return 1


def lanes_for(events):
    """contiguous groups of behaviours of about equal cost: (starts, ends) as 1-based line numbers of the FINAL trace (line 1 = lanes record)"""
    behs = []
    for i, e in enumerate(events):
        if e["op"] == "reset" or not behs:
            behs.append([i, i, 0])
        behs[-1][1] = i
        behs[-1][2] += event_cost(e)
    total = sum(b[2] for b in behs)
    nl = max(1, min(LANES, len(behs)))
    target = total / nl
    starts, ends, acc, start = [], [], 0, behs[0][0]
    for k, (s, e_, cst) in enumerate(behs):
        acc += cst
        left = len(behs) - k - 1
        if (acc >= target and len(starts) < nl - 1 and left > 0) or left == 0:
            starts.append(start + 2)
            ends.append(e_ + 2)
            start = e_ + 1
            acc = 0
    return starts, ends


def validate(trace_in, events, wd, timeout):
    starts, ends = lanes_for(events)
    trace = os.path.join(wd, "trace.lanes.ndjson")
    with open(trace, "w") as f:
        f.write(json.dumps({"op": "lanes", "starts": starts, "ends": ends}) + "\n")
        f.write(open(trace_in).read())
    res = None
    for attempt in (1, 2):
        r = vlib.tlc("ContentTrace", "ContentTrace.cfg", workers=len(starts), timeout=timeout, env={"TRACE": trace}, heap="4g",
                     wd=os.path.join(wd, "tlc%d" % attempt))
        res = r.results()
        if len(res) == len(starts) and not r.violated and r.completed:
            break
        log("[tlc] trace validation attempt %d incomplete (%d of %d lane results)" % (attempt, len(res), len(starts)))
    if len(res) != len(starts) or r.violated or not r.completed:
        raise MachineryError("trace validation: %d of %d lane results (%s):\n%s" % (len(res), len(starts), trace, r.out[-4000:]))
    stats = {}
    for x in res:
        for k, v in x.get("stats", {}).items():
            stats[k] = stats.get(k, 0) + v
    viol = sorted((v for x in res for v in x.get("viol", [])), key=lambda v: v["l"])
    for v in viol:
        v["l"] -= 1          # back to line numbers of the driver's trace
    return {"events": len(events), "viol": viol, "stats": stats, "wall": r.dt, "lanes": len(starts)}


def classify(e, cfg_of):
    op = e["op"]

    def sz(n):
        return n if n in (0, 1, 63, 64, 65, 512, 65536, 1048576) else "<=64" if n <= 64 else "<=512" if n <= 512 else ">512"
    if op == "store":
        return ["store", cfg_of.get(e["node"]), sz(e["plen"]), e["m"]["id"][:4], e["ttl"]]
    if op == "fetch":
        return ["fetch", e["hit"], sz(e.get("len", 0)), e.get("eqslot", -2) >= 0, e["post"]["shard"], e["post"]["cache"]]
    if op == "tamper":
        kind = "+".join(k.split("@")[0] for k in e["corrupt"].split("+"))
        return ["tamper", kind, sz(e["ctlen"]), e["m"]["t"], len(e["m"]["shards"]), e.get("r_hit"), e.get("c_hit"), e.get("k_same_m"),
                (e.get("r_pre") or {}).get("held"), e["pristine"]]
    if op == "manifest":
        return ["manifest", e["via"], e["corrupt"].split("@")[0], e["ok"], e["pre"]["held"], e["pre"]["cfp"] != e["post"]["cfp"]]
    return [op]


def compact(x):
    if isinstance(x, dict):
        return {k: compact(v) for k, v in x.items()}
    if isinstance(x, list):
        if x and all(isinstance(v, int) for v in x) and len(x) > 4:
            h = bytes(v & 255 for v in x).hex()
            return "hex:" + (h if len(h) <= 64 else h[:64] + "...(%d bytes)" % len(x))
        return [compact(v) for v in x]
    return x


def execute(chk, behaviours, label, timeout=1500):
    b = vlib.build("content")["content"]
    wd = vlib.workdir("content-%s-%s" % (chk.pid, label))
    script, trace = os.path.join(wd, "script.txt"), os.path.join(wd, "trace.ndjson")
    lines = [ln for beh in behaviours for ln in beh]
    with open(script, "w") as f:
        f.write("\n".join(lines) + "\n")
    rc, out = vlib.sh([b, script, trace, os.path.join(wd, "dir")], timeout=900, check=False)
    events = vlib.read_ndjson(trace) if os.path.exists(trace) else []
    if rc != 0 or not events or events[-1].get("op") == "terminated":
        # a crash of the driver is outside the statement of C11 (nothing was stored, announced or returned): machinery, not a verdict
        raise MachineryError("driver failed rc=%s (%s), last event %s: %s" % (rc, label, json.dumps(compact(events[-1]))[:600] if events else None, out[-2000:]))
    res = validate(trace, events, wd, timeout)
    return lines, events, res


def report(chk, res, events, lines, label):
    for v in res.get("viol", []):
        e = events[v["l"] - 1]
        src = e.get("src", 0)
        # the behaviour: from the preceding reset line of the script to the failing line
        start = src
        while start > 1 and not lines[start - 1].startswith("reset"):
            start -= 1
        rl = ["# failing event (trace line %d, script line %d); clauses %s" % (v["l"], src, ",".join(v["clause"])),
              "# event: " + json.dumps(compact(e))[:1800]] + lines[start - 1:src]
        for cl in v["clause"]:
            chk.report(cl, "%s clause %s fails on the real code (%s; %s)" % (chk.pid, cl, label, describe(e)), rl, replay_name=cl)


def describe(e):
    if e["op"] == "fetch":
        return "fetch_chunk on node %d returned %s" % (e["node"], ("%d bytes equal to no stored payload" % e.get("len", 0)) if e["hit"] and e.get("eqslot") == -1 else ("hit" if e["hit"] else "miss"))
    if e["op"] == "tamper":
        return "corruption '%s' of slot %d (%d ciphertext bytes): receive_chunk %s, cli %s" % (e["corrupt"], e["slot"], e["ctlen"], e.get("r_hit"), e.get("c_hit"))
    if e["op"] == "store":
        return "store_chunk of %d bytes" % e["plen"]
    return e["op"]


# vacuity guard on REFERENCE-side counters only (what the inputs were, as judged by the specification -- never what the code did)
NEED = {"quick": {"stores": 200, "large_stores": 8, "fetches": 250, "meddled_fetches": 70, "not_genuine": 150, "genuine_tampered": 40,
                  "recv": 200, "cli": 200, "chunkin": 200, "manifests": 80, "meddlings": 60}}
NEED["thorough"] = {k: v * 2 for k, v in NEED["quick"].items()}


def run(chk):
    thorough = chk.tier == "thorough"
    rng = chk.rng
    hists = [h for h in model_check(chk) if h]
    log("[gen] %d TLC state-cover sequences" % len(hists))
    pick = rng.sample(hists, min(len(hists), 600 if thorough else 50))
    # always keep the longest ones (deep interleavings) in the sample
    deep = sorted(hists, key=len, reverse=True)[:20]
    cover = [hist_to_behaviour(h, j) for j, h in enumerate(deep + pick)]
    behaviours = matrix_roundtrip(chk.tier) + matrix_tamper(chk.tier) + matrix_foreign(chk.tier) + cover + random_behaviours(rng, 200 if thorough else 30, thorough)
    lines, events, res = execute(chk, behaviours, "all", timeout=3000 if thorough else 1200)
    st = res["stats"]
    nb = sum(1 for e in events if e["op"] == "reset")
    chk.add_traces(nb, len(events), res, "%d behaviours: round-trip matrix, corruption matrix, foreign-manifest matrix, %d TLC state-cover sequences, random" % (nb, len(cover)))
    cfg_of = {}
    for e in events:
        if e["op"] == "reset":
            cfg_of = {}
        elif e["op"] == "node":
            cfg_of[e["node"]] = [e["t"], e["n"]]
        elif e["op"] in ("store", "fetch", "tamper", "manifest"):
            chk.nontrivial(classify(e, cfg_of))
    for i in (5, len(events) // 3, (2 * len(events)) // 3, len(events) - 1):
        e = events[min(i, len(events) - 1)]
        chk.sample({"script_line": lines[e["src"] - 1] if e.get("src") else "", "event": compact(e)})
    log("[trace] C11: %d behaviours, %d events, %d failing events, %d lanes, reference stats %s, TLC %.1fs" % (
        nb, len(events), st.get("nviol", 0), res["lanes"], {k: v for k, v in st.items() if v}, res["wall"]))
    report(chk, res, events, lines, "matrices + TLC state cover + random")
    for k, lo in NEED[chk.tier].items():
        if not chk.viol and st.get(k, 0) < lo:
            raise MachineryError("vacuity: only %d '%s' cases reached the reference (need >= %d); stats=%s" % (st.get(k, 0), k, lo, st))
    chk.assumptions += [
        "the oracle is the TLA+ contract of spec/Content.tla evaluated with the executable references SHA256 (Sha256.tla), ChaCha20Xor (ChaCha20.tla) and Combine "
        "(Shamir.tla over GF(2^8)/0x11D), themselves pinned by the standards' vectors / TLC-checked lemmas (C08, C09, C10)",
        "payloads above 512 bytes: round trip compared byte for byte by the driver, ciphertext checked on the first two and last two cipher blocks; corrupted large "
        "replicas are judged not genuine by construction (a changed ciphertext or hash cannot be genuine unless SHA-256 collides)",
        "'announced' is observed as the node's own provider entry, cached manifest, key-share record and swarm plan for the chunk id (no transport listener is started, "
        "so gossip to peers is not observed)",
        "virtual clock frozen; std::random_device interposed (keys / nonces are whatever the real code derives from it)",
    ]


def replay(chk, path):
    lines = [ln.strip() for ln in open(path) if ln.strip() and not ln.startswith("#")]
    if not lines:
        raise MachineryError("replay file has no script line")
    ls, events, res = execute(chk, [lines], "replay")
    chk.add_traces(1, len(events), res, "replay " + path)
    for e in events:
        chk.nontrivial(classify(e, {}))
    report(chk, res, events, ls, "replay")
