"""Control-plane machinery shared by C27, C28, C29 (spec/Control*.tla, harness/control.cpp).

Per property: TLC checks design => contract on the bounded models of that property (plus the
deviation configs, which must violate the named invariant, and the reachability guards), TLC's
state cover is turned into scripts, the scripts and seeded random behaviours are run on a real
Node + real ControlServer (raw-socket client / real ControlClient) under the virtual clock and
the recorded ndjson trace is validated by TLC against the contract (spec/ControlTrace.tla)."""
import json, os
from concurrent.futures import ThreadPoolExecutor
import vlib
from vlib import log

MAIN = {"C27": ["auth"], "C28": ["admit", "rate", "ratefetch", "ratebad"], "C29": ["frame"]}
DEV = {"C27": [("dev_stop", "C27_NoEffect"), ("dev_stop_refused", "C27_Refused"), ("dev_fetchout", "C27_NoEffect"),
               ("dev_fetchlate", "C27_NoEffect"), ("dev_fetchlate_refused", "C27_Refused"),
               ("reach_stoprefused", "Reach_UnauthStopRefused"), ("reach_fetchunknown", "Reach_UnauthFetchUnknownChunk"),
               ("reach_fetchout", "Reach_AuthorisedFetchOut")],
       "C28": [("dev_ratekey", "C28_Rate"), ("dev_ratekey_fetch", "C28_Rate"), ("dev_refund", "C28_Rate"), ("reach_ratelimited", "Reach_RateLimited"),
               ("reach_sliding", "Reach_SlidingWindow"), ("reach_overcap", "Reach_OverCapRefused"), ("reach_pow", "Reach_PowRefused")],
       "C29": [("dev_rawnl", "C29_RoundTrip"), ("dev_trim", "C29_RoundTrip"), ("dev_rawnl_list", "C29_ListComplete"), ("reach_list3", "Reach_ListThree"),
               ("reach_multiline", "Reach_MultiLineValue")]}
NOTE = {"auth": "token configured: 6 token variants x 3 header positions x {STORE, FETCH stream, FETCH OUT, STOP, LIST, PING} x 2 chunks; effects stored/registered/files/running",
        "admit": "STORE admission: declared length {under, at, over cap} x TTL {absent, below, min, mid, max, above, garbage} x PoW {valid, invalid, missing}",
        "rate": "no token: STORE rate buckets, window 3, limit 2, TOKEN header in {none, a, b}, clock 0..5",
        "ratebad": "no token, store PoW on: STORE rate bucket of one address, window 3, limit 2, requests refused on size / TTL / PoW interleaved with admissible ones",
        "ratefetch": "no token: streamed-FETCH rate buckets, window 3, limit 2, TOKEN header in {none, a, b}",
        "frame": "Serialize/Parse of LIST (0-3 chunks), two free values from the 9-value table in every field order, warnings lists, payloads; framing lemma Parse(Serialize(x)) = x as ASSUME"}
VALUES_N = 11     # ValueTable of Control.tla = the first 11 entries of the harness's kValues


def model_check(chk):
    """main models (with -dump: one replayable input sequence per distinct state) + deviation / reachability configs"""
    hists = {}
    with ThreadPoolExecutor(9) as ex:
        mains = [(name, ex.submit(vlib.dump_hists, "Control", "MC_Control_%s.cfg" % name, workers=4, timeout=1200, heap="3g")) for name in MAIN[chk.pid]]
        devs = [ex.submit(vlib.mc, "Control", "MC_Control_%s.cfg" % cfg, expect_violation=inv, workers=2, timeout=900, heap="2g") for cfg, inv in DEV[chk.pid]]
        for name, f in mains:
            r, hs = f.result()
            chk.add_model("Control/%s design=>contract" % name, r, NOTE[name] + "; invariants C27_Refused C27_NoEffect C28_Admission C28_BeforeBody C28_Rate C29_RoundTrip C29_ListComplete")
            hists[name] = hs
        for f in devs:
            f.result()      # MachineryError (vacuity) propagates
    return hists


# ---------------------------------------------------------------------------------------------
# TLC input sequences -> harness scripts
def _pos(order, rng):
    return {"first": "0", "mid": str(rng.choice([1, 2])), "last": "last"}[order]


def auth_scripts(hists, rng):
    out = []
    for h in hists:
        lines = ["reset token=1 pow=0 cap=64"]
        for a in h:
            if a["op"] != "req":
                continue
            ln = "req cmd=%s tok=%s c=%d" % (a["cmd"], a["tok"], a["ch"])
            if a["tok"] != "none":
                ln += " pos=%s tv=%d perm=%d" % (_pos(a["ord"], rng), rng.randrange(12), rng.randrange(6))
            if a["cmd"] == "STORE":
                ln += " ttl=600"
            lines.append(ln)
        out.append(lines)
    return out


def admit_scripts(hists, rng):
    out = []
    for h in hists:
        lines = ["reset token=0 pow=8 cap=64 minttl=30 maxttl=3600"]
        for a in h:
            if a["op"] != "req":
                continue
            sz = {"under": rng.choice([1, 40, 63]), "at": 64, "over": rng.choice([65, 66, 200])}[a["len"]]
            ttl = {"absent": "none", "below": rng.choice(["29", "1", "0"]), "min": "30", "mid": rng.choice(["31", "600", "3599"]), "max": "3600",
                   "above": rng.choice(["3601", "86400", "999999999"]), "garbage": rng.choice(["abc", "empty", "-5", "18446744073709551646", "18446744073709551616"])}[a["ttl"]]
            pow_ = {"valid": "valid", "missing": "missing", "invalid": rng.choice(["invalid", "wrongname", "wrongsize", "wronghash", "garbage"])}[a["pow"]]
            ln = "req cmd=STORE c=%d sz=%d ttl=%s pow=%s path=%d" % (a["ch"] + rng.randrange(3) * 2, sz, ttl, pow_, rng.choice([0, 1, 2, 3, 4, 5]) if pow_ != "wrongname" else 2)
            if a["len"] == "over":
                ln += " body=withhold" + (" len=%s" % rng.choice(["18446744073709551615", "4294967296", "99999999999"]) if rng.random() < 0.3 else "")
            elif rng.random() < 0.03:
                ln += " body=withhold"
            lines.append(ln)
        out.append(lines)
    return out


def rate_scripts(hists, rng, fetch):
    """model window 3 / limit 2  <->  30 s / 6 STOREs (12 streamed FETCHes): one model request = a burst of 3 (6), one tick = 10 s"""
    out = []
    burst = 6 if fetch else 3
    for h in hists:
        bad = any(a["op"] == "req" and (a.get("len") == "over" or a.get("ttl") != "mid" or a.get("pow") == "invalid") for a in h)
        lines = ["reset token=0 pow=8 cap=64 minttl=30 maxttl=3600" if bad else "reset token=0 pow=0 cap=64"]
        n = 0
        for a in h:
            if a["op"] == "adv":
                lines.append("adv ms=10000")
            elif a["op"] == "seed":
                lines.append("seed c=%d ttl=3600" % a["c"])
            elif a["op"] == "req":
                for _ in range(burst):
                    n += 1
                    hdr = "" if a["hdr"] == "none" else " tok=hdr-%s" % a["hdr"]
                    if fetch:
                        lines.append("req cmd=FETCH-STREAM c=%d src=%d%s sv=%d" % (a["ch"], a["addr"], hdr, n))
                    elif not bad:
                        lines.append("req cmd=STORE c=%d src=%d%s ttl=600" % (10 + n % 7, a["addr"], hdr))
                    else:
                        # requests refused on their headers / PoW cost the client nothing; they must not buy admissible ones a slot
                        ttl = {"mid": "600", "above": rng.choice(["3601", "86400"]), "garbage": rng.choice(["abc", "-5"])}[a["ttl"]]
                        ln = "req cmd=STORE c=%d src=%d ttl=%s pow=%s" % (10 + n % 7, a["addr"], ttl, "valid" if a["pow"] == "valid" else rng.choice(["invalid", "wronghash"]))
                        if a["len"] == "over":
                            ln += " sz=%d body=withhold" % rng.choice([65, 200])
                        lines.append(ln)
        out.append(lines)
    return out


def frame_scripts(hists, rng):
    out = []
    for h in hists:
        lines = ["reset token=0 pow=0 cap=4000000"]
        for a in h:
            if a["op"] == "seed":
                lines.append("seed c=%d ttl=600" % a["c"])
            elif a["op"] == "list":
                lines += ["cresp cmd=LIST", "cresp cmd=STATUS"]
            elif a["op"] == "defaults":
                lines += ["cfg storage=%d host=%d" % (a["v"] - 1, a["w"] - 1), "cresp cmd=DEFAULTS"]
            elif a["op"] == "status":
                lines += ["cfg warn=%s" % ".".join(str(x - 1) for x in a["ws"]), "cresp cmd=STATUS"]
            elif a["op"] == "payload":
                lines += ["seed c=%d sz=%d ttl=600" % (20 + a["d"], [1, 10, 300, 5000][a["d"] - 1]),
                          "cresp cmd=FETCH-STREAM c=%d sz=%d" % (20 + a["d"], [1, 10, 300, 5000][a["d"] - 1]), "cresp cmd=METRICS"]
        out.append(lines)
    return out


# ---------------------------------------------------------------------------------------------
# seeded random behaviours (wider value domains than the models)
TOKS = ["none", "exact", "wrong", "prefix", "suffix", "case", "empty", "S3cret-Tok3n%20", "*", "null"]


def random_auth(rng, n):
    out = []
    for _ in range(n):
        lines = ["reset token=1 pow=%d cap=%d%s" % (rng.choice([0, 0, 4]), rng.choice([64, 256]), rng.choice(["", "", " toklen=256", " toklen=300", " toklen=512", " toklen=1"]))]
        stored = []
        for _ in range(rng.randint(4, 14)):
            tok = rng.choice(TOKS) if rng.random() < 0.75 else "exact"
            cmd = rng.choice(["STORE", "STORE", "FETCH-STREAM", "FETCH-OUT", "FETCH-OUT", "STOP", "LIST", "PING"])
            if cmd == "STOP" and tok == "exact":
                continue            # an authorised STOP ends the daemon: kept for the end
            c = rng.randrange(1, 9)
            ln = "req cmd=%s tok=%s c=%d tv=%d pos=%s perm=%d" % (cmd, tok, c, rng.randrange(12), rng.choice(["0", "1", "2", "3", "last"]), rng.randrange(30))
            if rng.random() < 0.1:
                ln += " lc=1"
            if cmd == "STORE":
                ln += " ttl=%d path=%d" % (rng.choice([30, 600, 3600]), rng.randrange(6))
                if tok == "exact":
                    stored.append(c)
            elif cmd.startswith("FETCH"):
                if stored and rng.random() < 0.6:
                    ln = ln.replace(" c=%d " % c, " c=%d " % rng.choice(stored))
                elif rng.random() < 0.5:
                    ln += " foreign=1"
            lines.append(ln)
        if rng.random() < 0.5:
            lines.append("req cmd=STOP tok=exact pos=%s" % rng.choice(["0", "1", "last"]))
        out.append(lines)
    # long tokens: presented values whose length differs from the configured one by a multiple of 256
    for toklen in (256, 300, 512):
        lines = ["reset token=1 pow=0 cap=64 toklen=%d" % toklen]
        for cmd in ("STORE", "FETCH-OUT", "FETCH-STREAM", "STOP"):
            for tok, tv in (("prefix", 3), ("prefix", 4), ("suffix", 4), ("suffix", 5), ("prefix", 0)):
                lines.append("req cmd=%s tok=%s c=1 tv=%d pos=1 perm=0%s" % (cmd, tok, tv, " ttl=600 path=1" if cmd == "STORE" else " foreign=1" if cmd.startswith("FETCH") else ""))
        out.append(lines)
    # the token with blanks around it (a header parser that trims values would let it through)
    for toklen in (0, 300):
        lines = ["reset token=1 pow=0 cap=64" + (" toklen=%d" % toklen if toklen else "")]
        for cmd in ("STORE", "FETCH-OUT", "FETCH-STREAM", "STOP"):
            for tv in (6, 7, 8):
                lines.append("req cmd=%s tok=suffix c=1 tv=%d pos=%s perm=0%s" % (cmd, tv, rng.choice(["0", "1", "last"]),
                                                                                  " ttl=600 path=1" if cmd == "STORE" else " foreign=1" if cmd.startswith("FETCH") else ""))
        out.append(lines)
    return out


def random_admit(rng, n):
    """mostly admissible STOREs with one (sometimes two) defects, values on and next to every boundary"""
    out = []
    for _ in range(n):
        cap = rng.choice([16, 64, 1000, 4096])
        mn = rng.choice([30, 60, 120])
        mx = rng.choice([mn, mn + 1, 3600, 86400])
        pw = rng.choice([0, 4, 8, 10])
        tok = rng.random() < 0.3
        lines = ["reset token=%d pow=%d cap=%d minttl=%d maxttl=%d defttl=%d" % (tok, pw, cap, mn, mx, rng.choice([1, mn, mx, 10 ** 6]))]
        for _ in range(rng.randint(3, 7)):
            sz = rng.choice([1, cap - 1, cap, cap])
            ttl = rng.choice(["none", str(mn), str(mn + (1 if mx > mn else 0)), str(mx - (1 if mx > mn else 0)), str(mx)])
            pow_ = "valid"
            for _ in range(rng.choice([0, 0, 1, 1, 1, 2])):
                d = rng.randrange(3)
                if d == 0:
                    sz = rng.choice([cap + 1, cap + 1, 2 * cap, cap + 17])
                elif d == 1:
                    ttl = rng.choice([str(mn - 1), str(mx + 1), "0", "abc", "empty", "-5", "18446744073709551646", "4294967326", "999999999"])
                else:
                    pow_ = rng.choice(["invalid", "wrongname", "wrongsize", "wronghash", "missing", "garbage"])
            ln = "req cmd=STORE c=%d sz=%d ttl=%s pow=%s path=%d perm=%d" % (rng.randrange(1, 30), sz, ttl, pow_, 2 if pow_ == "wrongname" else rng.randrange(6), rng.randrange(20))
            if tok:
                ln += " tok=exact pos=%s" % rng.choice(["0", "2", "last"])
            else:
                ln += " tok=h%d src=%d" % (rng.randrange(100000), rng.randrange(1, 15))   # spread over addresses: admission is looked at here, the rate limit elsewhere
            if sz > cap:
                ln += " body=withhold" + (" len=%s" % rng.choice(["18446744073709551615", "4294967296"]) if rng.random() < 0.25 else "")
            elif rng.random() < 0.03:
                ln += " body=withhold"
            lines.append(ln)
        out.append(lines)
    return out


def random_rate(rng, n):
    out = []
    for _ in range(n):
        lines = ["reset token=0 pow=0 cap=64"]
        fetch = rng.random() < 0.4
        if fetch:
            lines.append("seed c=1 ttl=3600")
        now, marks = 0, []
        hdrs = ["none"] * 3 + ["a", "b"] + ["u%d" % i for i in range(20)]
        for _ in range(rng.randint(3, 7)):
            for _ in range(rng.randint(1, 16 if fetch else 9)):
                h = rng.choice(hdrs if rng.random() < 0.6 else ["none"])
                src = rng.choice([1, 1, 1, 2, 3])
                t = "" if h == "none" else " tok=%s" % h
                if fetch and rng.random() < 0.8:
                    lines.append("req cmd=FETCH-STREAM c=1 src=%d%s" % (src, t))
                else:
                    lines.append("req cmd=STORE c=%d src=%d%s ttl=%s path=%d perm=%d lc=%d%s" % (rng.randrange(1, 40), src, t,
                                 rng.choice([600, 601, 3000, 3599] * 3 + [0, 999999, "abc"]), rng.randrange(6), rng.randrange(9), rng.random() < 0.1,
                                 " sz=200 body=withhold" if rng.random() < 0.08 else ""))
                marks.append(now)
            # land exactly on / next to the end of a 30 s window with probability 1/2
            if marks and rng.random() < 0.5:
                d = max(0, rng.choice(marks) + 30000 + rng.choice([-1, 0, 0, 1]) - now)
            else:
                d = rng.choice([0, 1, 999, 5000, 15000, 29999, 30000, 30001, 61000])
            now += d
            lines.append("adv ms=%d" % d)
        out.append(lines)
    return out


def random_frame(rng, n):
    out = []
    allv = 22
    for _ in range(n):
        tok = rng.random() < 0.2
        lines = ["reset token=%d pow=%d cap=4000000" % (tok, rng.choice([0, 0, 4]))]
        for c in rng.sample(range(1, 12), rng.choice([0, 1, 2, 3, 5, 8])):
            lines.append("seed c=%d ttl=%d" % (c, rng.choice([60, 600, 3600])))
        for _ in range(rng.randint(2, 6)):
            x = rng.random()
            if x < 0.3:
                lines.append("cresp cmd=LIST")
            elif x < 0.5:
                ws = [rng.choice(["w%d" % i, str(rng.randrange(allv))]) if rng.random() < 0.8 else "w%d" % i for i in range(rng.choice([0, 1, 2, 2, 3, 4]))]
                lines += ["cfg warn=%s conflict=%d" % (".".join(ws), rng.randrange(2)), "cresp cmd=STATUS"]
            elif x < 0.75:
                cfg = "cfg eps=%d boots=%d" % (rng.choice([0, 1, 2, 3, 4]), rng.choice([0, 1, 2, 3]))
                if rng.random() < 0.5:
                    cfg += " storage=%d" % rng.randrange(allv)
                if rng.random() < 0.3:
                    cfg += " host=%d" % rng.randrange(allv)
                if rng.random() < 0.3:
                    cfg += " advhost=%d" % rng.randrange(allv)
                lines += [cfg, "cresp cmd=DEFAULTS"]
            elif x < 0.85:
                c = rng.randrange(30, 40)
                sz = rng.choice([1, 17, 300, 70000])
                lines += ["cresp cmd=STORE c=%d sz=%d path=%d ttl=600" % (c, sz, rng.randrange(6)), "cresp cmd=FETCH-STREAM c=%d sz=%d" % (c, sz), "cresp cmd=LIST"]
            elif x < 0.93:
                lines.append("cresp cmd=METRICS")
            else:
                lines += ["adv ms=%d" % rng.choice([1000, 59000, 60000, 600000]), "cresp cmd=LIST", "cresp cmd=PING"]
        out.append(lines)
    return out


# ---------------------------------------------------------------------------------------------
def large_frame(rng, thorough):
    """values far beyond the small ones of the model: listings of hundreds of chunks, hundreds of warnings, and a sweep that slides the
    line breaks of a multi-kilobyte value over every byte offset (whatever buffering or segmenting lies between daemon and client)"""
    out = []
    for n in ((120, 230, 450, 900) if thorough else (230, 450)):
        lines = ["reset token=0 pow=0 cap=4000000"] + ["seed c=%d ttl=%d" % (c, rng.choice([600, 3600])) for c in range(100, 100 + n)]
        out.append(lines + ["cresp cmd=LIST", "adv ms=1000", "cresp cmd=LIST"])
    for n in ((60, 300, 700, 1500) if thorough else (300, 700)):
        out.append(["reset token=0 pow=0 cap=4000000", "cfg warn=%s conflict=1" % ".".join("w%d" % i for i in range(n)), "cresp cmd=STATUS",
                    "cfg eps=4 boots=%d" % rng.choice([3, 30]), "cresp cmd=DEFAULTS"])
    lines = ["reset token=0 pow=0 cap=4000000"]
    base = ".".join("w%d" % i for i in range(420 if thorough else 300))
    for pad in range(0, 72 if thorough else 40):
        lines += ["cfg warn=%s conflict=0 warnpad=%d" % (base, pad), "cresp cmd=STATUS"]
    out.append(lines)
    return out


def _key(e):
    if e["op"] == "req":
        return ["req", e["cmd"], e.get("tokcfg"), e.get("tok") if e.get("tok") in TOKS[:7] else "literal", e.get("status"), e.get("code"), bool(e.get("early")),
                e.get("lenkind"), e.get("ttlkind"), e.get("pow"), min(len(e.get("ids", [])), 4), min(len(e.get("files", [])), 2)]
    if e["op"] == "cresp":
        return ["cresp", e["cmd"], e.get("ok"), min(len(e.get("live", [])), 9), sorted((c["f"], len(c["exp"])) for c in e.get("checks", []))]
    return [e["op"]]


def run_and_validate(chk, behaviours, label):
    """scripts -> real daemon -> ndjson trace -> TLC (ControlTrace) -> reports"""
    if not behaviours:
        return None
    b = vlib.build("control")["control"]
    wd = vlib.workdir("control-%s-%s" % (chk.pid, label))
    script, trace = os.path.join(wd, "script.txt"), os.path.join(wd, "trace.ndjson")
    flat = []
    for lines in behaviours:
        flat += lines
    with open(script, "w") as f:
        f.write("\n".join(flat) + "\n")
    rc, out = vlib.sh([b, script, trace, os.path.join(wd, "d")], timeout=1200, check=False)
    events = vlib.read_ndjson(trace) if os.path.exists(trace) else []
    emitting = [i for i, ln in enumerate(flat) if ln.split()[0] != "cfg"]
    if rc != 0:
        # the process (daemon included) died.  If it died while handling a STORE whose declared length is over
        # the cap, the daemon did not refuse it before going for the body: that is C28's business; anything
        # else is not decided here (crash-freedom is C35) and stops the check as a machinery error.
        li = emitting[len(events)] if len(events) < len(emitting) else len(flat) - 1
        st = max(i for i, ln in enumerate(flat[:li + 1]) if ln.startswith("reset"))
        cur = dict(kv.split("=", 1) for kv in flat[li].split()[1:] if "=" in kv)
        cap = int(dict(kv.split("=", 1) for kv in flat[st].split()[1:] if "=" in kv).get("cap", 64))
        over = flat[li].startswith("req") and cur.get("cmd") == "STORE" and ("len" in cur and cur["len"] != "actual" or int(cur.get("sz", 0)) > cap)
        if not over:
            raise vlib.MachineryError("driver failed rc=%d at script line %r (%s):\n%s" % (rc, flat[li], label, out[-3000:]))
        chk.report("C28.body-read-before-refusal", "the daemon process aborted (rc=%d: %s) instead of refusing an over-cap STORE before its body (%s)" % (
            rc, out.strip().splitlines()[-1][:200] if out.strip() else "", label), flat[st:li + 1], replay_name="C28.body-read-before-refusal")
        log("[trace] %s: daemon aborted at %r after %d events; validating what was recorded" % (label, flat[li], len(events)))
        if not events:
            return None
    elif len(events) != len(emitting):
        raise vlib.MachineryError("driver wrote %d events for %d commands (%s)" % (len(events), len(emitting), label))
    # (an over-cap STORE whose body is withheld and that gets no answer is evidence for C28, not a machinery problem)
    silent = [e for e in events if e["op"] == "req" and e.get("status") == "NONE"
              and not (e.get("withheld") and e["cmd"] == "STORE" and (e.get("lenkind") == "huge" or e.get("len", 0) > e.get("cap", 0)))]
    if silent:
        raise vlib.MachineryError("the daemon did not answer %d request(s) within the driver's time limit (%s): %s" % (len(silent), label, json.dumps(silent[0])[:600]))
    res = vlib.validate("ControlTrace", trace)
    nb = sum(1 for e in events if e["op"] == "reset")
    chk.add_traces(nb, len(events), res, label)
    for e in events:
        chk.nontrivial(_key(e))
    chk.sample({"source": label, "first_events": events[:6]})
    # replay file = the script lines of the failing behaviour up to the failing command
    starts = [i for i, ln in enumerate(flat) if ln.startswith("reset")]
    evline = [i for i, ln in enumerate(flat) if ln.split()[0] != "cfg"]      # event k (0-based) <- script line evline[k]
    for v in res.get("viol", []):
        li = evline[v["l"] - 1]
        st = max(s for s in starts if s <= li)
        lines = ["# failing event (script line %d of the behaviour): %s" % (li - st + 1, json.dumps(v.get("detail"))[:3000])] + flat[st:li + 1]
        for cl in (v["clause"] if isinstance(v["clause"], list) else [v["clause"]]):
            chk.report(cl, "%s contract clause %s fails on a recorded execution of the real daemon (%s)" % (chk.pid, cl, label), lines, replay_name=cl)
    mine = sum(1 for v in res.get("viol", []) for cl in (v["clause"] if isinstance(v["clause"], list) else [v["clause"]]) if cl.startswith(chk.pid))
    log("[trace] %s: %d behaviours, %d events, %d clause failures of %s (stats %s)" % (label, nb, len(events), mine, chk.pid, res.get("stats")))
    return res


def replay(chk, path):
    cmds = [x.rstrip("\n") for x in open(path) if x.strip() and not x.startswith("#")]
    if not cmds or not cmds[0].startswith("reset"):
        raise vlib.MachineryError("replay file has no script (must start with reset): %s" % path)
    run_and_validate(chk, [cmds], "replay")


def _sample(rng, xs, n):
    return rng.sample(xs, min(len(xs), n))


def run(chk):
    thorough = chk.tier == "thorough"
    rng = chk.rng
    hists = model_check(chk)
    k = 8 if thorough else 1
    if chk.pid == "C27":
        a = auth_scripts(hists["auth"], rng)
        log("[gen] %d TLC state-cover sequences (auth)" % len(a))
        run_and_validate(chk, _sample(rng, a, 1300 * k), "tlc-state-cover-auth")
        run_and_validate(chk, random_auth(rng, 250 * k), "random-auth")
    elif chk.pid == "C28":
        ad = admit_scripts(hists["admit"], rng)
        rs = rate_scripts(hists["rate"], rng, False)
        rf = rate_scripts(hists["ratefetch"], rng, True)
        rb = [x for x in rate_scripts(hists["ratebad"], rng, False) if x[0].startswith("reset token=0 pow=8")]
        rb = sorted(rb, key=len, reverse=True)[:400 * k]
        log("[gen] TLC state-cover sequences: %d admit, %d rate(store), %d rate(fetch)" % (len(ad), len(rs), len(rf)))
        run_and_validate(chk, _sample(rng, ad, 600 * k), "tlc-state-cover-admit")
        run_and_validate(chk, rs + rf, "tlc-state-cover-rate")
        run_and_validate(chk, rb, "tlc-state-cover-rate-with-refused-requests")
        run_and_validate(chk, random_admit(rng, 200 * k), "random-admit")
        run_and_validate(chk, random_rate(rng, 120 * k), "random-rate")
    elif chk.pid == "C29":
        fr = frame_scripts(hists["frame"], rng)
        log("[gen] %d TLC state-cover sequences (frame)" % len(fr))
        # every LIST / payload sequence, a sample of the (many) free-value ones
        key = [i for i, h in enumerate(hists["frame"]) if h and h[-1]["op"] in ("list", "payload", "seed")]
        rest = [fr[i] for i in range(len(fr)) if i not in set(key)]
        run_and_validate(chk, [fr[i] for i in key] + _sample(rng, rest, 700 * k), "tlc-state-cover-frame")
        run_and_validate(chk, random_frame(rng, 250 * k), "random-frame")
        run_and_validate(chk, large_frame(rng, thorough), "large-values")
    chk.assumptions += [
        "in-process binding: a real Node and a real daemon::ControlServer on a free loopback port, steady_clock/system_clock interposed (virtual), socket time-outs in kernel time",
        "effects are observed through Node::stored_chunks(), Node::manifest_cache_ (friend NodeTestAccess), the daemon-side output directory, the stop call-back count and a following PING",
        "'refused before the body is read' is observed as: the refusal arrives while the client has sent the headers and not one body byte (300 ms wait)",
        "store-PoW validity of a nonce is computed by the harness with security::store_pow_valid on its own (hash, size, basename) triple; the PoW predicate itself belongs to C19",
        "C29 expectations come from the daemon-side state the harness configured (chunks, warnings, endpoints, bootstrap nodes, directory/host strings, payload bytes); field names are those the CLI reads",
        "client and daemon share one process, hence one max_control_stream_bytes(): METRICS / large streamed payloads are only exercised with a large cap",
    ]
