"""Crypto group (C08 SHA-256/HMAC, C09 ChaCha20, C13 signed envelope).

Pipeline of one check:  TLC checks the in-spec lemmas (spec/CryptoLemmas.tla) and, in the same run, exports the structured
input cases (spec/CryptoCases.tla, JsonSerialize)  ->  seeded random cases are added here  ->  harness/crypto.cpp runs
every case on the REAL classes and logs inputs + outputs  ->  TLC recomputes every digest / tag / keystream with the
executable references and compares (spec/CryptoTrace.tla).  No hashing is done in python for a verdict; python's hmac
module is only used to MANUFACTURE interesting candidate inputs (a correctly signed random buffer, a correct tag to
mutate) for the random cases."""
import hashlib, hmac as pyhmac, json, os
import vlib
from vlib import log, MachineryError

GROUPS = {
    "C08": {"ops": ("sha", "hmac"), "lemmas": "pad (261 lengths), stream (design=>contract of update/finalize buffering, 131 lengths x all 3-way splits), longkey (24 keys)",
            "invs": "L_Pad L_Stream L_LongKey"},
    "C09": {"ops": ("chacha", "chachal", "encwk", "decwk"), "lemmas": "involution (56 key/nonce/counter/length cases), advance (counter advance and 2^32 wrap, 14 cases)",
            "invs": "L_Involution L_Advance"},
    "C13": {"ops": ("signed",), "lemmas": "envelope (reference-signed buffers satisfy the contract; bit flips, truncation, extension, rotation, other key falsify it; 6 prefix lengths)",
            "invs": "L_Envelope"},
}


def hx(b):
    return bytes(b).hex()


# ------------------------------------------------------------------------------------------- TLC side
def lemmas_and_cases(chk):
    """one TLC run: checks the in-spec lemmas of this property (CryptoLemmas, which EXTENDS CryptoCases) and, through the
    ASSUME of CryptoCases, writes the structured input cases as JSON"""
    g = GROUPS[chk.pid]
    wd = vlib.workdir("crypto-cases-%s" % chk.pid)
    out = os.path.join(wd, "cases.json")
    r = vlib.mc("CryptoLemmas", "MC_CryptoLemmas_%s.cfg" % chk.pid, workers=8, timeout=900, wd=wd,
                env={"CASES_OUT": out, "CASES_GROUP": chk.pid, "CASES_SALT": str(chk.seed), "CASES_TIER": chk.tier})
    chk.add_model("CryptoLemmas[%s]: %s" % (chk.pid, g["lemmas"]), r, "invariants " + g["invs"] + " (one state per case, plus 8 dummy lane-start states per lemma kind)")
    if not os.path.exists(out):
        raise MachineryError("case export failed:\n" + r.out[-3000:])
    cases = json.load(open(out))
    log("[gen] TLC exported %s" % ", ".join("%d %s" % (len(v), k) for k, v in cases.items()))
    return cases


def case_to_line(c):
    op = c["op"]
    if op == "sha":
        return "sha msg=%s pos=%s" % (hx(c["msg"]), ",".join(str(p) for p in c["pos"]))
    if op == "shasplit":
        return "shasplit msg=%s at=%s" % (hx(c["msg"]), ",".join(str(p) for p in c["at"]))
    if op == "hmac":
        return "hmac key=%s msg=%s cands=%s" % (hx(c["key"]), hx(c["msg"]), ",".join(hx(x) if len(x) else "-" for x in c["cands"]))
    if op == "chacha":
        ctr = c["ctr"][0] * 65536 + c["ctr"][1] if isinstance(c["ctr"], list) else c["ctr"]
        return "chacha key=%s nonce=%s ctr=%d inp=%s" % (hx(c["key"]), hx(c["nonce"]), ctr, hx(c["inp"]))
    if op == "chachal":
        return "chachal key=%s nonce=%s ctr=%d n=%d seed=%d" % (hx(c["key"]), hx(c["nonce"]), c["ctr"], c["n"], c["seed"])
    if op == "encwk":
        return "encwk key=%s cid=%s pt=%s" % (hx(c["key"]), hx(c["cid"]), hx(c["data"]))
    if op == "decwk":
        return "decwk key=%s cid=%s nonce=%s ct=%s" % (hx(c["key"]), hx(c["cid"]), hx(c["nonce"]), hx(c["data"]))
    if op == "signed":
        return "signed type=%d ver=%d key=%s key2=%s seed=%d muts=%s" % (c["type"], c["ver"], hx(c["key"]), hx(c["key2"]), c["seed"], ",".join(c["muts"]))
    if op == "signedraw":
        return "signedraw kind=%s key=%s buf=%s" % (c.get("kind", "raw"), hx(c["key"]), hx(c["buf"]))
    raise MachineryError("unknown case op %r" % op)


# ------------------------------------------------------------------------------------------- random cases
def rbytes(rng, n):
    return [rng.randrange(256) for _ in range(n)]


def rlen(rng, hi, special=(0, 1, 31, 32, 33, 55, 56, 57, 63, 64, 65, 119, 120, 127, 128, 129)):
    return rng.choice([s for s in special if s <= hi]) if rng.random() < 0.35 else rng.randrange(hi + 1)


def random_c08(rng, n):
    out = []
    for _ in range(n):
        m = rbytes(rng, rlen(rng, 300))
        if rng.random() < 0.6:
            cuts = sorted(rng.randrange(len(m) + 1) for _ in range(rng.randint(1, 6)))
            out.append({"op": "shasplit", "msg": m, "at": cuts})
        else:
            pos = sorted(set(rng.randrange(len(m) + 1) for _ in range(rng.randint(2, 6))) | {0, len(m)})
            out.append({"op": "sha", "msg": m, "pos": pos})
    prev = None
    for k in range(n):
        key = rbytes(rng, rlen(rng, 140))
        if prev is not None and k % 3 == 1 and len(prev) >= 2:
            # consecutive calls under nearly equal keys (same length, one byte of the first / second half or the last byte differs):
            # "for every key" includes the key used right after a similar one
            key = list(prev)
            j = rng.choice([len(key) - 1, rng.randrange(len(key) // 2, len(key)), rng.randrange(0, max(1, len(key) // 2))])
            key[j] ^= 1 << rng.randrange(8)
        elif k % 3 == 0:
            key = rbytes(rng, rng.choice([32, 32, 16, 64, 20]))
        prev = key
        msg = rbytes(rng, rlen(rng, 200))
        tag = list(pyhmac.new(bytes(key), bytes(msg), hashlib.sha256).digest())   # input manufacture only, not the oracle
        cands = [tag]
        for _ in range(4):
            t = list(tag)
            t[rng.randrange(32)] ^= 1 << rng.randrange(8)
            cands.append(t)
        cands += [tag[:rng.randrange(32)], tag + rbytes(rng, rng.randint(1, 3)), rbytes(rng, 32), list(reversed(tag))]
        out.append({"op": "hmac", "key": key, "msg": msg, "cands": cands})
    # in every run: chains of calls under keys of one length that differ in exactly one byte (first, middle, second half, last)
    for ln in (16, 20, 32, 64, 100):
        base = rbytes(rng, ln)
        for j in (None, ln - 1, ln // 2, (3 * ln) // 4, 0, None):
            key = list(base)
            if j is not None:
                key[j] ^= 0x40
            msg = rbytes(rng, rng.choice([0, 5, 55, 64]))
            tag = list(pyhmac.new(bytes(key), bytes(msg), hashlib.sha256).digest())
            out.append({"op": "hmac", "key": key, "msg": msg, "cands": [tag, tag[:31], rbytes(rng, 32)]})
    return out


def random_c09(rng, n):
    out = []
    for _ in range(n):
        ln = rlen(rng, 400, (0, 1, 63, 64, 65, 127, 128, 129, 191, 192, 193, 256, 320))
        nb = (ln + 63) // 64
        x = rng.random()
        if x < 0.35:
            ctr = (2 ** 32 - rng.randint(0, max(1, nb))) % 2 ** 32      # wraps (or just not) inside the input
        elif x < 0.5:
            ctr = rng.choice([0, 1, 2 ** 16 - 1, 2 ** 16, 2 ** 31 - 1, 2 ** 31, 2 ** 32 - 1, 2 ** 24, 255, 256])
        else:
            ctr = rng.randrange(2 ** 32)
        key = rbytes(rng, 32) if rng.random() < 0.9 else [rng.choice([0, 255])] * 32
        out.append({"op": "chacha", "key": key, "nonce": rbytes(rng, 12), "ctr": ctr, "inp": rbytes(rng, ln)})
    # chunk-sized inputs (what CryptoManager feeds it: whole files): lengths around the sizes at which an implementation could switch
    # to a bulk path, whole-block and ragged, with zero / non-zero / wrapping initial counters
    sizes = [1024, 4095, 4096, 4097, 4159, 4160, 8191, 8192, 8193, 16384, 16385, 65535, 65536, 65537, 100001, 262144 + 17, 1048576 + 63]
    for k in range(max(40, n)):
        ln = sizes[k % len(sizes)] if k < 2 * len(sizes) else rng.choice([rng.randrange(1024, 70000), rng.choice(sizes) + rng.choice([-1, 0, 1, 31])])
        nb = (ln + 63) // 64
        ctr = [0, 1, rng.randrange(1, 2 ** 32), (2 ** 32 - rng.randint(1, nb)) % 2 ** 32, 2 ** 32 - 1][k % 5] if k % 7 else rng.randrange(2 ** 32)
        out.append({"op": "chachal", "key": rbytes(rng, 32), "nonce": rbytes(rng, 12), "ctr": ctr, "n": ln, "seed": rng.randrange(1, 10 ** 6)})
    for _ in range(max(4, n // 3)):
        key = rbytes(rng, 32) if rng.random() < 0.85 else [0] * 32
        cid = rng.choice([[0, 0, 0, 0], [255, 255, 255, 255], rbytes(rng, 4), rbytes(rng, 4)]) + rbytes(rng, 28)
        out.append({"op": rng.choice(["encwk", "encwk", "decwk"]), "key": key, "cid": cid, "nonce": rbytes(rng, 12), "data": rbytes(rng, rlen(rng, 200))})
    return out


MUT_POOL = ["pristine", "splice", "otherkey", "keyflip", "keytrunc", "keyext", "macfirst", "reverse", "maczero", "onlymac",
            "swap:pay0", "swap:paymid", "swap:payN", "swap:mac0", "swap:macmid"]


def random_mut(rng):
    x = rng.random()
    where = rng.choice(["ver", "type", "pay0", "paymid", "payN", "mac0", "macmid", "macN", str(rng.randrange(0, 140))])
    if x < 0.30:
        return "flip:%s:%d" % (where, rng.randrange(8))
    if x < 0.40:
        return "rflip:%s:%d" % (rng.choice(["ver", "type", "pay0", "paymid", "payN", str(rng.randrange(0, 100))]), rng.randrange(8))
    if x < 0.50:
        return rng.choice(["trunc", "ext", "rtrunc", "rext", "chop"]) + ":%d" % rng.choice([1, 2, 3, 16, 31, 32, 33, 64])
    if x < 0.58:
        return "rset:%s:%d" % (rng.choice(["ver", "type"]), rng.randrange(0, 9))
    if x < 0.66:
        return "set:%s:%d" % (where, rng.randrange(256))
    if x < 0.76:
        return random_mut(rng) + "+" + random_mut(rng)
    return rng.choice(MUT_POOL)


def py_signed(rng):
    """raw buffers signed here (python hmac = input manufacture): fixed-size encodings, some deliberately undecodable"""
    ver = rng.choice([1, 2, 3, 4, 4, 4, 0, 5])
    kind = rng.randrange(5)
    if kind == 0:
        p = [ver, 2] + rbytes(rng, 64)
    elif kind == 1:
        p = [ver, 6, rng.randrange(2), rng.randint(1, 4)] + rbytes(rng, 4)
    elif kind == 2:
        p = [ver, 4, rng.randrange(2)] + rbytes(rng, 64)
    elif kind == 3:
        p = [ver, 5] + rbytes(rng, 12) + [rng.randint(1, 4)]
    else:
        p = rbytes(rng, rng.randrange(0, 90))
    if rng.random() < 0.2 and p:
        p = p[:rng.randrange(len(p))]
    key = rbytes(rng, rng.choice([32, 32, 32, 0, 1, 64, 65, 90]))
    mac = list(pyhmac.new(bytes(key), bytes(p), hashlib.sha256).digest())
    r = rng.random()
    label = "py-good-mac"
    if r < 0.3:
        mac[rng.randrange(32)] ^= 1 << rng.randrange(8)
        label = "py-bad-mac"
    elif r < 0.4 and p:
        p[rng.randrange(len(p))] ^= 1 << rng.randrange(8)
        label = "py-bad-prefix"
    return {"op": "signedraw", "kind": label, "key": key, "buf": p + mac}


def random_c13(rng, n):
    out = []
    for _ in range(n):
        muts = ["pristine"] + [random_mut(rng) for _ in range(6)]
        out.append({"op": "signed", "type": rng.randint(1, 6), "ver": rng.choice([1, 2, 3, 4, 4, 4]), "key": rbytes(rng, rng.choice([32, 32, 32, 16, 64, 65, 0])),
                    "key2": rbytes(rng, 32), "seed": rng.randrange(1, 10 ** 6), "muts": muts})
    for _ in range(n * 3):
        out.append(py_signed(rng))
    return out


RANDOM = {"C08": random_c08, "C09": random_c09, "C13": random_c13}
N_RANDOM = {"quick": {"C08": 30, "C09": 45, "C13": 12}, "thorough": {"C08": 600, "C09": 900, "C13": 120}}


# ------------------------------------------------------------------------------------------- run + validate
def classify(e):
    """case class of one event (distinct_nontrivial counts these)"""
    op = e["op"]
    if op == "sha":
        n = len(e["msg"])
        return ["sha", n if n <= 130 else "%d blocks+%d" % ((n + 8) // 64 + 1, n % 64), e["nsplits"] > 1]
    if op == "hmac":
        kl, n = len(e["key"]), len(e["msg"])
        return ["hmac", "k>64" if kl > 64 else "k=64" if kl == 64 else "k=0" if kl == 0 else "k<64", (n + 8) // 64, n % 64 in (55, 56, 63, 0)]
    if op == "chacha":
        n = len(e["inp"])
        c = e["ctr"][0] * 65536 + e["ctr"][1]
        nb = (n + 63) // 64
        return ["chacha", "wrap" if c + nb > 2 ** 32 else "edge" if c + nb == 2 ** 32 else "hi" if c >= 2 ** 31 else "lo", nb, n % 64 == 0, sum(e["key"]) == 0]
    if op == "chachal":
        c = e["ctr"][0] * 65536 + e["ctr"][1]
        nb = (e["n"] + 63) // 64
        return ["chachal", "wrap" if c + nb > 2 ** 32 else "zero" if c == 0 else "hi" if c >= 2 ** 31 else "lo", len(bin(e["n"])), e["n"] % 64 == 0]
    if op in ("encwk", "decwk"):
        return [op, e["cid"][:4] in ([0, 0, 0, 0], [255, 255, 255, 255]), (len(e.get("pt", e.get("ct"))) + 63) // 64, sum(e["key"]) == 0]
    if op == "signed":
        parts = e["kind"].split("+")[0].split(":")
        where = parts[1] if len(parts) > 1 and not parts[1].isdigit() else ""
        return ["signed", parts[0] + (":" + where if where else ""), "+" in e["kind"], e["type"], e["acc"], e["dec"], len(e["buf"]) < 32]
    return [op]


LANES = max(1, min(8, vlib.NCPU))


def validate_lanes(trace, timeout):
    """trace validation in LANES interleaved lanes (events are independent; see spec/CryptoTrace.tla): one TLC run,
    one VERIF_RESULT per lane, merged here"""
    for attempt in (1, 2):      # an incomplete run (killed JVM on a loaded machine) is repeated once
        r = vlib.tlc("CryptoTrace", "CryptoTrace.cfg", workers=LANES, timeout=timeout, env={"TRACE": trace, "LANES": str(LANES)})
        res = r.results()
        if len(res) == LANES and not r.violated and r.completed:
            break
        log("[tlc] trace validation attempt %d incomplete (%d of %d lane results, rc=%s)" % (attempt, len(res), LANES, r.rc))
    if len(res) != LANES or r.violated or not r.completed:
        raise MachineryError("trace validation: %d of %d lane results (%s):\n%s" % (len(res), LANES, trace, r.out[-4000:]))
    stats = {}
    for x in res:
        for k, v in x.get("stats", {}).items():
            stats[k] = stats.get(k, 0) + v
    viol = sorted((v for x in res for v in x.get("viol", [])), key=lambda v: v["l"])
    return {"events": res[0]["events"], "viol": viol, "stats": stats, "tlc_states": r.distinct, "wall": r.dt}


def calls(e):
    """number of calls into the real code whose results this event carries (evaluations)"""
    op = e["op"]
    return {"sha": lambda: 1 + e["nsplits"], "hmac": lambda: 1 + len(e["cands"]), "chacha": lambda: 2, "chachal": lambda: 3 + (e["n"] + 63) // 64, "encwk": lambda: 2, "decwk": lambda: 1,
            "signed": lambda: 2}.get(op, lambda: 1)()


def execute(chk, lines, label):
    b = vlib.build("crypto")["crypto"]
    wd = vlib.workdir("crypto-%s-%s" % (chk.pid, label))
    script, trace = os.path.join(wd, "script.txt"), os.path.join(wd, "trace.ndjson")
    with open(script, "w") as f:
        f.write("\n".join(lines) + "\n")
    vlib.sh([b, script, trace], timeout=600)
    events = vlib.read_ndjson(trace)
    if not events:
        raise MachineryError("driver produced no events (%s)" % label)
    res = validate_lanes(trace, timeout=1500)
    if res["events"] != len(events):
        raise MachineryError("trace validation saw %d of %d events" % (res["events"], len(events)))
    return events, res


def check_not_vacuous(chk, st):
    """reference-side counters: the interesting classes must have been present in the input"""
    need = {"C08": (("sha", 100), ("splits", 1000), ("hmac", 50), ("cok", 50), ("cands", 1000)),
            "C09": (("chacha", 80), ("wrap", 8), ("withkey", 20)),
            "C13": (("signed", 250), ("smacok", 60), ("sgood", 30), ("sundec", 10))}[chk.pid]
    for k, lo in need:
        if st.get(k, 0) < lo:
            raise MachineryError("vacuity: only %d '%s' cases reached the reference (need >= %d); stats=%s" % (st.get(k, 0), k, lo, st))


def report(chk, res, events, lines, label):
    for v in res.get("viol", []):
        e = events[v["l"] - 1]
        src = e.get("src", 0)
        rl = ["# failing event (trace line %d, script line %d, case class %s); clauses %s" % (v["l"], src, json.dumps(classify(e)), ",".join(v["clause"])),
              "# event: " + json.dumps(e)[:1500], lines[src - 1] if 0 < src <= len(lines) else "# (script line unknown)"]
        for cl in v["clause"]:
            chk.report(cl, "%s clause %s fails on the real code (%s; e.g. %s)" % (chk.pid, cl, label, describe(e)), rl, replay_name=cl)


def compact(x):
    """byte arrays as hex strings (evidence samples stay readable)"""
    if isinstance(x, dict):
        return {k: (v if k == "acc" else compact(v)) for k, v in x.items()}
    if isinstance(x, list):
        if x and all(isinstance(v, int) for v in x) and len(x) > 2:
            h = bytes(v & 255 for v in x).hex()
            return "hex:" + (h if len(h) <= 160 else h[:160] + "...(%d bytes)" % len(x))
        return [compact(v) for v in x]
    return x


def describe(e):
    op = e["op"]
    if op == "sha":
        return "SHA-256 of a %d-byte message, split %s" % (len(e["msg"]), e["ex"][-1] if e.get("ex") else "?")
    if op == "hmac":
        return "HMAC with a %d-byte key over %d bytes" % (len(e["key"]), len(e["msg"]))
    if op == "chacha":
        return "ChaCha20 counter=%d len=%d" % (e["ctr"][0] * 65536 + e["ctr"][1], len(e["inp"]))
    if op == "chachal":
        return "ChaCha20 counter=%d len=%d (chunk-sized)" % (e["ctr"][0] * 65536 + e["ctr"][1], e["n"])
    if op in ("encwk", "decwk"):
        return "%s key=%s.. cid[0..3]=%s len=%d" % (op, hx(e["key"][:4]), hx(e["cid"][:4]), len(e.get("pt", e.get("ct"))))
    if op == "signed":
        return "decode_signed on mutation '%s' of a type-%d message (%d bytes, accepted=%d)" % (e["kind"], e["type"], len(e["buf"]), e["acc"])
    return op


def run(chk):
    pid = chk.pid
    chk.level = "exploration"
    chk.cov["rule"] = ("structured cases enumerated by TLC (spec/CryptoCases.tla: padding-boundary lengths, cut positions, key lengths, counters at the 2^32 wrap, chunk-sized ChaCha20 inputs 1 KiB..1 MiB judged block-wise, "
                       "mutation operators) plus VERIF_SEED-random cases; every case runs on the real C++ code and TLC recomputes the result with the executable "
                       "FIPS 180-4 / RFC 2104 / RFC 8439 reference. One case class = (operation, length/block/boundary class, key or counter class, outcome); "
                       "distinct_nontrivial = number of distinct classes among the validated events")
    cases = lemmas_and_cases(chk)
    structured = [c for k in cases for c in cases[k]]
    rnd = RANDOM[pid](chk.rng, N_RANDOM[chk.tier][pid])
    lines = [case_to_line(c) for c in structured + rnd]
    events, res = execute(chk, lines, "all")
    st = res.get("stats", {})
    chk.add_traces(len(events), sum(calls(e) for e in events), res, "%d TLC-enumerated + %d random cases -> %d events" % (len(structured), len(rnd), len(events)))
    for e in events:
        chk.nontrivial(classify(e))
    for e in (events[0], events[len(events) // 3], events[(2 * len(events)) // 3], events[-1]):
        chk.sample({"case_class": classify(e), "script_line": lines[e["src"] - 1][:400], "event": compact(e)})
    log("[trace] %s: %d events (%d structured + %d random cases), %d failing events, reference stats %s, TLC %.1fs" % (
        pid, len(events), len(structured), len(rnd), st.get("nviol", 0), {k: v for k, v in st.items() if v}, res["wall"]))
    report(chk, res, events, lines, "structured+random")
    check_not_vacuous(chk, st)
    chk.assumptions += [
        "the oracle is the TLA+ reference (spec/Sha256.tla, Hmac.tla, ChaCha20.tla), itself pinned by the standards' test vectors as ASSUMEs (FIPS 180-4 abc/empty/448-bit, RFC 4231 cases 1-4,6,7, RFC 8439 2.1.1/2.3.2/2.4.2)",
        "exploration, not proof: all inputs listed in the rule, not all byte strings",
    ]
    if pid == "C09":
        chk.assumptions.append("CryptoManager::encrypt_with_key/decrypt_with_key: initial counter = little-endian 32-bit value of chunk_id[0..3] (DESIGN.md C09/C11), nonce = the one returned/passed")
    if pid == "C13":
        chk.assumptions.append("'those bytes decode' is observed from the real protocol::decode on the bytes before the MAC (codec correctness is C15/C16)")


def replay(chk, path):
    """re-run the script lines of a replay file on the real code and validate them again"""
    chk.level = "exploration"
    lines = [l.strip() for l in open(path) if l.strip() and not l.startswith("#")]
    if not lines:
        raise MachineryError("replay file has no script line")
    events, res = execute(chk, lines, "replay")
    chk.add_traces(len(events), sum(calls(e) for e in events), res, "replay " + path)
    for e in events:
        chk.nontrivial(classify(e))
    report(chk, res, events, lines, "replay")
