"""Kademlia-table machinery shared by C06 (provider records) and C07 (routing table):
spec/Dht*.tla, harness/dht.cpp."""
import os, json, concurrent.futures
import vlib
from vlib import log

FULL = (1 << 256) - 1
SHIFTS = [0, 3, 6, 100, 124, 250, 252]      # where the model's 4-bit id window is placed in the 256-bit id
MODEL_SELF = {"prov": 0, "route": 5}        # Self of MC_Dht_prov.cfg / MC_Dht_route.cfg
REAL_K, REAL_CAP = 16, 20                   # what C07 / C06 fix (and DhtTrace.cfg states)
FAR_MS = 1000000000


def hx(n):
    return "%064x" % n


def embed(v, shift, base):
    return (base & ~(0xF << shift) & FULL) | (v << shift)


def msb(v):
    return v.bit_length() - 1


# ----------------------------------------------------------------------------------------
# model checking
def model_check(chk, thorough):
    """returns {"prov": hists, "route": hists} (state-cover action sequences of the two design models)"""
    c6 = chk.pid == "C06"
    main = "prov" if c6 else "route"
    jobs = []
    if c6:
        jobs += [("dev_locoverwrite", "C06_SweepNeverRemovesLive"), ("reach_mixedttl", "Reach_MixedTtlSweep"),
                 ("reach_captie", "Reach_CapTie"), ("reach_finddeadline", "Reach_FindAtDeadline")]
    else:
        jobs += [("reach_evictlive", "Reach_EvictLive"), ("reach_refreshmoves", "Reach_RefreshMoves"),
                 ("reach_deadamonglive", "Reach_DeadAmongLive"), ("closest", None)]
    if thorough:
        jobs += [("prov_big", None)] if c6 else [("route_big", None), ("closest_big", None)]
    out = {}

    def run(job):
        cfg, inv = job
        return cfg, vlib.mc("Dht", "MC_Dht_%s.cfg" % cfg, expect_violation=inv, workers=4 if not cfg.endswith("_big") else 8,
                            timeout=600 if not thorough else 3000)

    with concurrent.futures.ThreadPoolExecutor(max_workers=3) as ex:
        fut_main = ex.submit(vlib.dump_hists, "Dht", "MC_Dht_%s.cfg" % main, workers=8, timeout=900)
        futs = [ex.submit(run, j) for j in jobs]
        r, hists = fut_main.result()
        out[main] = hists
        chk.add_model("Dht design=>contract, %s" % ("provider side: 1 chunk x 3 peers, ttl 1..2, Cap=2, now<=2, <=6 calls" if c6 else
                                                      "routing side: 4-bit ids, self=5, 3 peers of one bucket + self, K=2, 2 addresses, register ttl none/1/2, now<=2, <=4 calls"), r,
                      "invariants " + ("C06_FindExact C06_HeldExact C06_SweepNeverRemovesLive C06_Cap" if c6 else "C07_Shape C07_Newest C07_Frame C07_Closest"))
        for f in futs:
            cfg, rr = f.result()
            if cfg == "closest" or cfg == "closest_big":
                chk.add_model("closest_peers lemma: every well-shaped 4-bit table with <=%d ids per bucket x 16 targets x every limit" % (1 if cfg == "closest" else 2), rr,
                              "C07_Closest C07_Shape on all initial states")
            elif cfg.endswith("_big"):
                chk.add_model("Dht design=>contract, larger bounds (%s)" % cfg, rr)
    return out


# ----------------------------------------------------------------------------------------
# TLC action histories -> scripts
class Builder:
    """turns model actions into script lines on 256-bit ids (model id v sits in a 4-bit window)"""

    def __init__(self, kind, rng, inflate):
        self.kind, self.rng, self.inflate = kind, rng, inflate
        self.shift = rng.choice([s for s in SHIFTS if s >= 4] if inflate else SHIFTS)
        self.base = rng.getrandbits(256)
        self.ms = MODEL_SELF[kind]
        self.selfid = embed(self.ms, self.shift, self.base)
        self.now = 0
        self.lines = ["reset self=" + hx(self.selfid)]
        self.fill = {}
        if inflate and kind == "route":
            # 14 never-expiring fillers per model bucket: the real bucket then has room for exactly
            # K=2 model contacts; re-registering the fillers after each model registration keeps the
            # model contacts at the LRU end, so the real 16-entry bucket evicts like the model's 2-entry one
            for b in range(4):
                self.fill[b] = [self.selfid ^ (1 << (self.shift + b)) ^ i for i in range(1, REAL_K - 2 + 1)]
                self.refill(b)
        self.filled_chunks = set()

    def id(self, v):
        return hx(embed(v, self.shift, self.base))

    def refill(self, b):
        for f in self.fill.get(b, []):
            self.lines.append("reg p=%s a=9 exp=%d" % (hx(f), FAR_MS))

    def fill_chunk(self, c):
        # 18 providers that outlive everything: the real capacity of 20 leaves 2 slots, as in the model
        if self.inflate and self.kind == "prov" and c not in self.filled_chunks:
            self.filled_chunks.add(c)
            for _ in range(REAL_CAP - 2):
                self.lines.append("add c=%d p=%s a=9 ttl=500000" % (c, hx(self.rng.getrandbits(256))))

    def query(self):
        r = self.rng
        t = self.id(r.randrange(16)) if r.random() < 0.8 else hx(r.getrandbits(256))
        self.lines.append("closest tg=%s k=%d" % (t, r.choice([0, 1, 2, 3, 5, 64])))

    def act(self, a):
        op = a["op"]
        if op == "add":
            self.fill_chunk(a["c"])
            self.lines.append("add c=%d p=%s a=%d ttl=%d" % (a["c"], self.id(a["p"]), a["a"], a["ttl"]))
        elif op == "withdraw":
            self.lines.append("withdraw c=%d p=%s" % (a["c"], self.id(a["p"])))
        elif op == "find":
            self.lines.append("find c=%d" % a["c"])
        elif op == "sweep":
            self.lines.append("sweep")
        elif op == "adv":
            self.now += 1000 * a["d"]
            self.lines.append("adv ms=%d" % (1000 * a["d"]))
        elif op == "reg":
            exp = "none" if a["x"] == 0 else str(self.now + 1000 * a["x"])
            self.lines.append("reg p=%s a=%d exp=%s" % (self.id(a["p"]), a["a"], exp))
        if op in ("add", "reg") and a["p"] != self.ms and self.fill:
            self.refill(msb(a["p"] ^ self.ms))
        if self.kind == "route":
            self.query()


def hist_to_script(h, kind, rng, inflate=False, extra=()):
    b = Builder(kind, rng, inflate)
    for a in list(h) + list(extra):
        b.act(a)
    if kind == "prov":
        for c in sorted({a["c"] for a in h if "c" in a} | {1}):
            b.lines.append("find c=%d" % c)
    else:
        b.query()
        b.lines.append("closest tg=%s k=64" % hx(b.selfid))
    return b.lines


EXT = {"prov": [{"op": "add", "c": 1, "p": 3, "a": 0, "ttl": 1}, {"op": "add", "c": 1, "p": 1, "a": 0, "ttl": 2}, {"op": "withdraw", "c": 1, "p": 2},
                {"op": "find", "c": 1}, {"op": "sweep"}, {"op": "adv", "d": 1}],
       "route": [{"op": "reg", "p": 3, "a": 1, "x": 1}, {"op": "reg", "p": 1, "a": 0, "x": 2}, {"op": "reg", "p": 2, "a": 1, "x": 0},
                 {"op": "reg", "p": 5, "a": 0, "x": 2}, {"op": "sweep"}, {"op": "adv", "d": 1}]}


# ----------------------------------------------------------------------------------------
# seeded random behaviours on 256-bit ids
def near(rng, selfid, L):
    """an id sharing exactly L leading bits with selfid (L = 256: selfid itself)"""
    if L >= 256:
        return selfid
    low = (1 << (256 - L)) - 1                   # the bits below the shared prefix
    v = (selfid & ~low & FULL) | (rng.getrandbits(256) & low)
    bit = 1 << (255 - L)
    return (v & ~bit) | ((selfid & bit) ^ bit)


def random_behaviour(rng, focus):
    selfid = rng.getrandbits(256)
    lines = ["reset self=" + hx(selfid)]
    pool = []
    hot = rng.sample([0, 1, 7, 8, 9, 64, 128, 200, 240, 249, 250], 2)
    nhot = rng.choice([6, 18, 22, 30]) if focus == "C07" else rng.choice([3, 8, 18])
    for L in hot:
        pool += [near(rng, selfid, L) for _ in range(nhot)]
    pool += [near(rng, selfid, rng.randrange(256)) for _ in range(10)]
    pool += [near(rng, selfid, 255), near(rng, selfid, 254), near(rng, selfid, 253), selfid]
    pool = list(dict.fromkeys(pool))
    nchunks = rng.choice([1, 2, 4])
    capheavy = focus == "C06" and rng.random() < 0.35
    if capheavy:
        pool += [rng.getrandbits(256) for _ in range(12)]
    ttls = rng.choice([[1, 2, 3], [1, 1, 2, 5, 10, 60], [-5, 0, 1, 2, 3, 5, 10, 3600, 1000000], [2, 2, 2, 3]])
    now, deadlines = 0, []
    if focus == "C07" and rng.random() < 0.4:
        # more than 16 distinct contacts for one bucket (live ones get evicted), mixed lifetimes
        L = hot[0]
        burst = list(dict.fromkeys(near(rng, selfid, L) for _ in range(rng.randint(15, 24))))
        pool = list(dict.fromkeys(pool + burst))
        for p in burst:
            if rng.random() < 0.8:
                exp = now + rng.choice([1000, 2000, 2000, 5000, 60000])
                lines.append("reg p=%s a=%d exp=%d" % (hx(p), rng.randrange(6), exp))
                deadlines.append(exp)
            else:
                ttl = rng.choice([1, 2, 5, 60])
                lines.append("add c=0 p=%s a=%d ttl=%d" % (hx(p), rng.randrange(6), ttl))
                deadlines.append(now + 1000 * ttl)
            if rng.random() < 0.15:
                lines.append("closest tg=%s k=%d" % (hx(rng.choice(burst)), rng.choice([1, 16, 17, 64])))
    if capheavy:
        # more than 20 distinct providers on chunk 0 (equal lifetimes included: ties at the capacity rule)
        for p in rng.sample(pool, min(len(pool), rng.randint(19, 27))):
            ttl = rng.choice(ttls)
            lines.append("add c=0 p=%s a=%d ttl=%d" % (hx(p), rng.randrange(6), ttl))
            deadlines.append(now + 1000 * ttl)
            if rng.random() < 0.1:
                lines.append("adv ms=%d" % rng.choice([1, 500, 1000]))
                now += int(lines[-1].split("=")[1])
    n = rng.randint(8, 70 if focus == "C07" else 50)
    if capheavy:
        n = rng.randint(30, 80)
    w = {"C06": dict(add=0.34, withdraw=0.08, find=0.16, sweep=0.10, reg=0.04, closest=0.03),
         "C07": dict(add=0.10, withdraw=0.02, find=0.03, sweep=0.07, reg=0.40, closest=0.18)}[focus]
    for _ in range(n):
        x = rng.random()
        acc = 0.0
        op = "adv"
        for k, p in w.items():
            acc += p
            if x < acc:
                op = k
                break
        if op == "add":
            ttl = rng.choice(ttls)
            c = 0 if capheavy and rng.random() < 0.8 else rng.randrange(nchunks)
            lines.append("add c=%d p=%s a=%d ttl=%d" % (c, hx(rng.choice(pool)), rng.randrange(6), ttl))
            deadlines.append(now + 1000 * ttl)
        elif op == "withdraw":
            lines.append("withdraw c=%d p=%s" % (rng.randrange(nchunks), hx(rng.choice(pool))))
        elif op == "find":
            lines.append("find c=%d" % rng.randrange(nchunks + (1 if rng.random() < 0.1 else 0)))
        elif op == "sweep":
            lines.append("sweep")
        elif op == "reg":
            y = rng.random()
            exp = "none" if y < 0.08 else str(now + rng.choice([1, 500, 1000, 2000, 3000, 10000, 60000])) if y < 0.9 else str(now - rng.choice([0, 1, 1000]))
            if exp != "none":
                deadlines.append(int(exp))
            lines.append("reg p=%s a=%d exp=%s" % (hx(rng.choice(pool)), rng.randrange(6), exp))
        elif op == "closest":
            y = rng.random()
            t = rng.choice(pool) if y < 0.5 else selfid if y < 0.6 else rng.choice(pool) ^ (1 << rng.randrange(256)) if y < 0.8 else rng.getrandbits(256)
            lines.append("closest tg=%s k=%d" % (hx(t), rng.choice([0, 1, 2, 3, 8, 16, 17, 20, 64, 1000])))
        else:
            future = [d for d in deadlines if now < d < now + 10 ** 7]
            if future and rng.random() < 0.6:
                d = rng.choice(future) - now + rng.choice([-1, 0, 0, 0, 1])   # land on (or next to) a recorded deadline
            else:
                d = rng.choice([0, 1, 500, 999, 1000, 1001, 2500, 10000])
            d = max(0, d)
            now += d
            lines.append("adv ms=%d" % d)
            # look right after the step: this is where expiry boundaries show
            lines.append(rng.choice(["find c=%d" % rng.randrange(nchunks), "closest tg=%s k=%d" % (hx(rng.choice(pool)), rng.choice([3, 64])), "sweep"]))
    for c in range(nchunks):
        lines.append("find c=%d" % c)
    lines.append("closest tg=%s k=1000" % hx(selfid))
    return lines


# ----------------------------------------------------------------------------------------
def run_and_validate(chk, behaviours, label):
    if not behaviours:
        return None
    b = vlib.build("dht")["dht"]
    wd = vlib.workdir("dht-%s-%s" % (chk.pid, label))
    script, trace = os.path.join(wd, "script.txt"), os.path.join(wd, "trace.ndjson")
    with open(script, "w") as f:
        for lines in behaviours:
            f.write("\n".join(lines) + "\n")
    vlib.sh([b, script, trace], timeout=600)
    events = vlib.read_ndjson(trace)
    res = vlib.validate("DhtTrace", trace, timeout=1200 if chk.tier != "thorough" else 3000)
    nb = sum(1 for e in events if e["op"] == "reset")
    chk.add_traces(nb, len(events), res, label)
    dl = set()
    for e in events:
        op = e["op"]
        if op == "reset":
            dl = set()
        if op == "add":
            dl.add(e["t"] + e["ttl"])
        if op == "reg" and e["given"]:
            dl.add(e["exp"])
        if chk.pid == "C06" and op in ("find", "sweep", "add", "withdraw"):
            hs = [len(l[2]) for l in e["loc"]]
            chk.nontrivial([op, min(len(e.get("res", [])), 21), e["t"] in dl, max(hs + [0]) >= REAL_CAP, len(hs)])
        if chk.pid == "C07" and op in ("closest", "reg", "add", "sweep"):
            per = {}
            for x in e["bk"]:
                per[x[0]] = per.get(x[0], 0) + 1
            chk.nontrivial([op, min(e.get("k", 0), 21), min(len(e.get("res", [])), 21), e["t"] in dl, max(list(per.values()) + [0]) >= REAL_K,
                            min(len(per), 4), any(x[4] <= e["t"] for x in e["bk"])])
    if events:
        chk.sample({"source": label, "first_events": [e for e in events if e["op"] != "id"][:6]})
    vlib.report_trace_violations(chk, res, events, label=label)
    log("[trace] %s: %d behaviours, %d events, %d clause failures, validation %.1fs, stats %s" % (label, nb, len(events), len(res.get("viol", [])), res.get("wall", 0), json.dumps(res.get("stats"))))
    return res


def events_to_script(events):
    lines = []
    for e in events:
        op = e.get("op")
        if op == "reset":
            lines.append("reset self=" + e["selfhex"])
        elif op == "add":
            lines.append("add c=%d p=%s a=%d ttl=%d" % (e["c"], e["ph"], e["a"], e["ttl"] // 1000))
        elif op == "withdraw":
            lines.append("withdraw c=%d p=%s" % (e["c"], e["ph"]))
        elif op == "find":
            lines.append("find c=%d" % e["c"])
        elif op == "sweep":
            lines.append("sweep")
        elif op == "reg":
            lines.append("reg p=%s a=%d exp=%s" % (e["ph"], e["a"], e["exp"] if e["given"] else "none"))
        elif op == "closest":
            lines.append("closest tg=%s k=%d" % (e["tgh"], e["k"]))
        elif op == "adv":
            lines.append("adv ms=%d" % e["ms"])
    return lines


def replay(chk, path):
    """re-run the behaviour stored in a replay file (the events of the failing behaviour) on the current tree"""
    events = [json.loads(x) for x in open(path) if x.strip() and not x.startswith("#")]
    lines = events_to_script(events)
    if not lines or not lines[0].startswith("reset"):
        raise vlib.MachineryError("replay file %s holds no behaviour" % path)
    run_and_validate(chk, [lines], "replay")


def run(chk):
    thorough = chk.tier == "thorough"
    rng = chk.rng
    kind = "prov" if chk.pid == "C06" else "route"
    hists = model_check(chk, thorough)[kind]
    hists = [h for h in hists if h]
    log("[gen] %d TLC state-cover sequences (%s model)" % (len(hists), kind))
    cover = rng.sample(hists, min(len(hists), 600 if not thorough else 6000))
    run_and_validate(chk, [hist_to_script(h, kind, rng) for h in cover], "tlc-state-cover")
    # the same paths with the real capacities brought down to the model's (fillers), so that the
    # model's overflow behaviours are overflow behaviours of the real constants 16 / 20
    infl = rng.sample(hists, min(len(hists), (60 if kind == "prov" else 25) if not thorough else (1000 if kind == "prov" else 250)))
    run_and_validate(chk, [hist_to_script(h, kind, rng, inflate=True) for h in infl], "tlc-state-cover-at-capacity")
    # transition cover: every kind of action appended to a sample of state-cover paths
    ext = []
    for h in rng.sample(hists, min(len(hists), 40 if not thorough else 600)):
        for a in EXT[kind]:
            ext.append(hist_to_script(h, kind, rng, inflate=rng.random() < (0.15 if kind == "prov" else 0.05), extra=[a]))
    run_and_validate(chk, ext, "tlc-transition-cover")
    n = 250 if not thorough else 3000
    run_and_validate(chk, [random_behaviour(rng, chk.pid) for _ in range(n)], "random-256bit")
    chk.assumptions += ["virtual clock by link-time interposition of steady_clock::now",
                        "buckets_ is read through explicit template instantiation (no source hook); table_ through snapshot_locators()",
                        "bucket numbering: index = position of the highest bit differing from the local id, 0 = least significant (as in the array buckets_)",
                        "expiry boundary: a record with expiry x is live at now iff now < x",
                        "addresses are drawn from a fixed family 10.0.x.y:4000 and logged as an index"]
