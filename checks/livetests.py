"""Run the repository's OWN scenario tests with life-cycle tracing on and validate their executions against
spec/NodeTtlTrace.tla (C02 store window, C03 derived lifetimes, C05 cleanup) -- growth item 3 of DESIGN.md §6.
The tests' assert()s are compiled out in the pinned build; here the specification judges what they do."""
import glob, json, os, subprocess
import vlib
from vlib import log

# in-process tests that create Nodes (CLI tests spawn the eph binary and are not traced)
TESTS = ["ttl_audit", "manifest_flow", "announce_distribution", "fetch_retry", "fetch_priority", "multi_node_integration", "swarm_node",
         "swarm_distribution", "swarm_fairness", "swarm_roles", "store_fetch_plan_rotation", "upload_choking", "upload_choking_scheduler",
         "secure_exchange", "announce_abuse", "manifest_discovery", "nat_node", "smoke", "bootstrap", "bootstrap_gossip"]
TOL_MS = 250


def build_tests():
    """link tests/<t>.cpp against the instrumented objects + the live tracer (no clock interposition)"""
    vlib.build("nodettl")             # makes sure the instrumented repo objects are up to date
    B = os.path.join(vlib.BUILD, "plain")
    out = os.path.join(B, "tests")
    os.makedirs(out, exist_ok=True)
    flags = "-std=c++20 -g -O1 -I%s/include -I%s/tests -I%s/harness -D_FILE_OFFSET_BITS=64 -DEPHEMERALNET_VERIF -pthread -w" % (vlib.REPO, vlib.REPO, vlib.VERIF)
    core = sorted(glob.glob(os.path.join(B, "repo", "*", "*.o")) + glob.glob(os.path.join(B, "repo", "*.o")))
    core = [o for o in core if "/relay/" not in o and "/daemon/" not in o]
    tracer = os.path.join(out, "livetrace.o")
    vlib.sh("g++ %s -c %s/harness/common/livetrace_tracer.cpp -o %s" % (flags, vlib.VERIF, tracer), timeout=900)
    built = []
    procs = []
    for t in TESTS:
        src = os.path.join(vlib.REPO, "tests", t + ".cpp")
        if not os.path.exists(src):
            continue
        exe = os.path.join(out, t)
        cmd = "g++ %s %s %s %s %s/common/vprobe.o -o %s -lcurl" % (flags, src, tracer, " ".join(core), B, exe)
        procs.append((t, exe, subprocess.Popen(cmd, shell=True, stdout=subprocess.PIPE, stderr=subprocess.STDOUT)))
    for t, exe, p in procs:
        o, _ = p.communicate(timeout=1800)
        if p.returncode == 0:
            built.append((t, exe))
        else:
            log("[live] test %s does not build against the instrumented objects: %s" % (t, o.decode()[-300:]))
    return built


def convert(events, label):
    """per node: remap chunk keys to small ints and emit NodeTtlTrace events"""
    out = []
    by_node = {}
    for e in events:
        by_node.setdefault(e["node"], []).append(e)
    for node, evs in by_node.items():
        ids = {}

        def cid(k):
            if k == "":
                return -1
            if k not in ids:
                ids[k] = len(ids) if len(ids) < 15 else 15
            return ids[k]

        def proj(p):
            q = {"listed": []}
            q["chunks"] = [[cid(k), v] for k, v in p["chunks"]]
            q["cache"] = [[cid(k), v] for k, v in p["cache"]]
            q["shard"] = [[cid(k), v] for k, v in p["shard"]]
            q["pend"] = [[cid(k), v, a] for k, v, a in p["pend"]]
            q["plans"] = [cid(k) for k in p["plans"]]
            q["loc"] = [[cid(k), v, hs] for k, v, hs in p["loc"]]
            return q
        first = evs[0]
        out.append({"op": "reset", "t": first["t"], "min": first["min"], "max": first["max"], "deflt": first["deflt"], "rot": first["rot"],
                    "apow": first["apow"], "hpow": first["hpow"], "spow": first["spow"], "tol": TOL_MS, "src": label, "node": node[:8],
                    "proj": {"chunks": [], "listed": [], "cache": [], "shard": [], "loc": [], "pend": [], "plans": []}})
        for e in evs:
            if len(ids) >= 15 and e["c"] not in ids and e["c"] != "":
                continue     # more chunks than the trace spec's id space: the surplus is not judged
            p = proj(e["proj"])
            if any(x[0] == 15 for x in p["chunks"] + p["cache"] + p["shard"] + p["pend"]):
                p = {k: [x for x in v if (x if isinstance(x, int) else x[0]) != 15] for k, v in p.items()}
            base = {"t": e["t"], "proj": p}
            op = e["op"]
            if op == "store":
                out.append(dict(base, op="store", c=cid(e["c"]), b=-1, ttl=0, dl=e["dl"], mexp=e["exp"], sexp=e["sexp"], aexp=e["aexp"]))
            elif op in ("ingest", "announce"):
                out.append(dict(base, op="manifest", via=op, c=cid(e["c"]), exp=e["exp"], ok=e["ok"]))
            elif op == "replica":
                out.append(dict(base, op="replica", via="recv", c=cid(e["c"]), b=-1, cls=-1, corrupt=0, exp=e["exp"], ok=e["ok"], dl=e["dl"]))
            elif op == "cleanup":
                out.append(dict(base, op="tick", cleaned=True, healthy=True, a_local=0, a_loc=0, a_contacts=0))
    return with_hints(out)


LOOKAHEAD_MS = 3000


def with_hints(events):
    """Hooks fire after the state change and outside the node's lock, so in a multi-threaded run a projection taken by thread A
    can already contain what thread B just did although B's own event is logged a moment later. For every accepted arrival the
    converter therefore announces its bound (min(expiry, arrival + max), or the store's own lifetimes) to the events of the same
    node stream that precede it by at most LOOKAHEAD_MS."""
    out = []
    n = len(events)
    for i, e in enumerate(events):
        if e["op"] != "reset":
            j = i + 1
            while j < n and events[j]["op"] != "reset" and events[j]["t"] - e["t"] <= LOOKAHEAD_MS:
                f = events[j]
                if f["op"] == "store":
                    out.append({"op": "hint", "c": f["c"], "bd": max(f["dl"], f["mexp"], f["sexp"], f["aexp"])})
                elif f["op"] in ("manifest", "replica") and f.get("ok") and f["c"] >= 0:
                    out.append({"op": "hint", "c": f["c"], "bd": min(f["exp"], f["t"] + cur_max[0])})
                j += 1
        else:
            cur_max[0] = e["max"]
        out.append(e)
    return out


cur_max = [0]


def run(chk, prefix_filter=("C02", "C03", "C05")):
    built = build_tests()
    wd = vlib.workdir("live-%s" % chk.pid)
    all_events = []
    ran = 0
    for t, exe in built:
        tf = os.path.join(wd, t + ".trace")
        rc, out = vlib.sh([exe], timeout=600, check=False, env={"EPH_TRACE_FILE": tf}, cwd=wd)
        files = glob.glob(tf + ".*")
        evs = []
        for f in files:
            evs += vlib.read_ndjson(f)
        if rc != 0:
            log("[live] test %s exited %d under tracing (not judged here; the pinned suite is the baseline's business)" % (t, rc))
        if evs:
            ran += 1
            all_events += convert(evs, t)
    if not all_events:
        raise vlib.MachineryError("no live events recorded")
    trace = os.path.join(wd, "live.ndjson")
    with open(trace, "w") as f:
        for e in all_events:
            f.write(json.dumps(e) + "\n")
    res = vlib.validate("NodeTtlTrace", trace)
    nb = sum(1 for e in all_events if e["op"] == "reset")
    chk.add_traces(nb, len(all_events), res, "repository tests under life-cycle tracing (%d test programs)" % ran)
    chk.cov["live_test_programs"] = ran
    for e in all_events:
        if e["op"] == "hint":
            continue
        chk.nontrivial(["live", e["op"], e.get("via"), e.get("ok"), len(e["proj"]["chunks"]), len(e["proj"]["pend"])])
    vlib.report_trace_violations(chk, res, all_events, label="repository's own tests, traced")
    log("[live] %d test programs, %d node streams, %d events, %d clause failures" % (ran, nb, len(all_events), len(res["viol"])))
    return res
