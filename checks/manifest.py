"""C17 / C18: manifest codec (spec/ManifestWire.tla, spec/MC_ManifestWire.tla, spec/ManifestTrace.tla, harness/manifest.cpp).

C17  round trip up to Norm + refusal of unrepresentable manifests     (plain build)
C18  decoder total: ok | invalid_argument, no crash / UB / time-out    (plain + asan build, same inputs)
"""
import base64, json, os, re, time
from concurrent.futures import ThreadPoolExecutor
import vlib
from vlib import log

MOD = "MC_ManifestWire"
LEMMAS = ["shards", "meta", "disc", "fb", "lens"]

# expiries as (two's complement floor seconds, nanoseconds): -1 s, 0, "now" with a fraction, 2^31, 2^32-1 + fraction,
# time_point::max(), time_point::min(), -0.5 s  (2^63-1 s and 2^64-1 s cannot be held by a time_point: they are decoder
# inputs, see the "expiry" mutations)
EXPIRIES = [(-1, 0), (0, 0), (1790000000, 123456789), (2 ** 31, 0), (2 ** 32 - 1, 999999999),
            (9223372036, 854775807), (-9223372037, 145224192), (-1, 500000000)]


def hx(b):
    return "h" + bytes(b).hex()


def exps(sec):
    return "%016x" % (sec & (2 ** 64 - 1))


# ------------------------------------------------------------------------------------------------
# models
def run_models(chk, thorough):
    """lemma models + deviation + the two generator models, concurrently (independent TLC runs)"""
    jobs = {}
    with ThreadPoolExecutor(max_workers=5) as ex:
        for f in LEMMAS:
            jobs[f] = ex.submit(vlib.mc, MOD, "MC_ManifestWire_%s%s.cfg" % (f, "_full" if thorough else ""), workers=4, timeout=1100)
        jobs["bounds"] = ex.submit(vlib.mc, MOD, "MC_ManifestWire_bounds.cfg", workers=4, timeout=900)
        jobs["dev"] = ex.submit(vlib.mc, MOD, "MC_ManifestWire_dev_shardwrap.cfg", expect_violation="C17_Bounds", workers=4, timeout=900)
        jobs["mut"] = ex.submit(vlib.dump_hists, MOD, "MC_ManifestWire_mut.cfg", var="x", workers=4, timeout=900)
        jobs["shapes"] = ex.submit(vlib.dump_hists, MOD, "MC_ManifestWire_shapes2.cfg", var="x", workers=4, timeout=900)
        res = dict((k, j.result()) for k, j in jobs.items())
    notes = {"shards": "0..2 shards x index/value patterns x threshold/total x 9 expiries (pre-epoch, sub-second, time_point min/max) x digest flag/content",
             "meta": "0..2 metadata entries, keys/values = all strings <= 2 (one entry: over {0x00,0xff}; two entries: quick tier over one symbol), keys strictly sorted",
             "disc": "0..2 discovery hints, scheme/transport/endpoint all strings <= 2 (one hint: over {0x00,0xff}; two hints: over one symbol), priority {0,255}",
             "fb": "0..2 fallback hints x advisory (strings <= 2) x token bits",
             "lens": "all four counted lists at sizes {0,1,2}^4 together x string lengths 0..2 x digest flag"}
    for f in LEMMAS:
        chk.add_model("ManifestWire lemma [%s]: Representable(m) => Norm(Decode(Encode(m))) = Norm(m), ~Representable => refused; layouts v1..v4 decode to the projection" % f,
                      res[f], notes[f])
    chk.add_model("ManifestWire lemma [bounds]: one field at 255/256/300 entries or 255/256/65535/65536 bytes, full Encode/Decode in the spec", res["bounds"],
                  "accepted iff within the limit; accepted ones round-trip")
    chk.add_model("ManifestWire deviation [no shard-count check] must violate C17_Bounds (vacuity guard)", res["dev"], "expected violation found")
    chk.add_model("ManifestWire C18 input generator: truncation at every byte of v1..v4 layouts, every byte >= count area set to 255 / 0, expiry fields, version, prefix, base64 damage",
                  res["mut"][0], "invariant C18_Mut: specification decoder total, strict prefixes / bad prefix / bad length / bad characters refused")
    chk.add_model("ManifestWire boundary shape generator (one or two fields off base)", res["shapes"][0])
    # (TLC's dump order depends on worker scheduling: sort, so that a seed reproduces a run)
    muts = sorted((m for m in res["mut"][1] if isinstance(m, dict)), key=lambda m: (m["kind"], m["v"], m["k"], m["full"], m["chars"]))
    shapes = sorted((s for s in res["shapes"][1] if isinstance(s, dict)), key=lambda s: json.dumps(s, sort_keys=True))
    if len(muts) < 1000 or len(shapes) < 500:
        raise vlib.MachineryError("generator models produced too few cases (%d mutations, %d shapes)" % (len(muts), len(shapes)))
    return muts, shapes


# ------------------------------------------------------------------------------------------------
# scripts
def shape_line(s, n):
    """a boundary shape (spec/MC_ManifestWire ShapeBase fields) -> rt script line; string sizes apply to the first entry of their list"""
    sec, frac = EXPIRIES[s["exp"]]
    meta = ",".join("%s/%s" % (("g%d.%d" % (s["k"], n)) if i == 0 else hx(b"k" + bytes([i >> 8, i & 255])),
                               ("g%d.%d" % (s["v"], n + 1)) if i == 0 else hx(b"v")) for i in range(s["meta"])) or "-"
    disc = ",".join("%s/%s/%s/%d" % (("g%d.%d" % (s["sch"], n + 2)) if i == 0 else ("h" if i % 2 else hx(b"s")),
                                     ("g%d.%d" % (s["tr"], n + 3)) if i == 0 else hx(b"tcp"),
                                     ("g%d.%d" % (s["ep"], n + 4)) if i == 0 else hx(b"1:%d" % i), i & 255) for i in range(s["disc"])) or "-"
    fb = ",".join("%s/%d" % (("g%d.%d" % (s["uri"], n + 5)) if i == 0 else hx(b"u%d" % i), (255 - i) & 255) for i in range(s["fb"])) or "-"
    tag = "shape:" + ",".join("%s=%d" % (k, v) for k, v in sorted(s.items()) if v != (2 if k == "exp" else 1))
    return "rt tag=%s idseed=%d thr=2 tot=3 exps=%s expf=%d nsh=%d shseed=%d meta=%s disc=%s fb=%s tcb=%d adv=g%d.%d hasdig=%d digseed=%d" % (
        tag or "shape:base", n, exps(sec), frac, s["shards"], n, meta, disc, fb, n & 255, s["adv"], n + 6, s["hasdig"], n + 7)


def rnd_len(rng, limit):
    x = rng.random()
    if x < 0.80:
        return rng.randint(0, 40)
    if x < 0.90:
        return rng.choice([254, 255, 256, 257]) if limit == 255 or rng.random() < 0.5 else rng.choice([65534, 65535, 65536, 65537])
    return rng.randint(0, 300)


def rnd_str(rng, limit, small=False):
    n = rng.randint(0, 6) if small else rnd_len(rng, limit)
    if n <= 64 and rng.random() < 0.7:
        return hx(bytes(rng.choice([0, 0x2f, 0x3d, 0x61, 0x7a, 0xff, rng.randrange(256)]) for _ in range(n)))
    return "g%d.%d" % (n, rng.randrange(10 ** 6))


def rnd_count(rng):
    x = rng.random()
    return rng.randint(0, 4) if x < 0.85 else rng.choice([254, 255, 256, 257, 300]) if x < 0.93 else rng.randint(5, 40)


def random_manifest_line(rng, i):
    x = rng.random()
    if x < 0.25:
        sec, frac = rng.choice(EXPIRIES)
    elif x < 0.5:
        sec, frac = rng.randint(-9223372036, 9223372035), rng.randrange(10 ** 9)
    elif x < 0.75:
        sec, frac = rng.randint(-5, 5), rng.choice([0, 1, 999999999, rng.randrange(10 ** 9)])
    else:
        sec, frac = rng.randint(0, 2 ** 33), rng.choice([0, rng.randrange(10 ** 9)])
    nm, nd, nf = rnd_count(rng), rnd_count(rng), rnd_count(rng)
    big = nm + nd + nf > 60          # keep long lists cheap: short strings inside
    keys = set()
    meta = []
    for j in range(nm):
        k = rnd_str(rng, 255, big) if not big else hx(b"k" + bytes([j >> 8, j & 255]))
        if k in keys:
            continue
        keys.add(k)
        meta.append("%s/%s" % (k, rnd_str(rng, 65535, big)))
    disc = ["%s/%s/%s/%d" % ("h" if rng.random() < 0.4 else rnd_str(rng, 255, big), rnd_str(rng, 255, big), rnd_str(rng, 65535, big), rng.randrange(256)) for _ in range(nd)]
    fb = ["%s/%d" % (rnd_str(rng, 65535, big), rng.randrange(256)) for _ in range(nf)]
    return "rt tag=rnd%d idseed=%d thr=%d tot=%d exps=%s expf=%d nsh=%d shseed=%d meta=%s disc=%s fb=%s tcb=%d adv=%s hasdig=%d%s" % (
        i, rng.randrange(10 ** 6), rng.randrange(256), rng.randrange(256), exps(sec), frac, rnd_count(rng), rng.randrange(1000),
        ",".join(meta) or "-", ",".join(disc) or "-", ",".join(fb) or "-", rng.randrange(256), rnd_str(rng, 65535), rng.randrange(2),
        (" digseed=%d" % rng.randrange(1000)) if rng.random() < 0.7 else "")


def presence_matrix_lines():
    """every combination of optional sections present / absent (metadata, discovery hints, fallback hints, token bits, advisory, attestation
    digest) x 0 or 2 shards: an encoder that picks a layout from what is present must not lose a section nobody else vouches for"""
    out = []
    n = 900000
    for mask in range(64):
        for nsh in (0, 2):
            n += 10
            meta = "%s/%s" % (hx(b"name"), hx(b"a.txt")) if mask & 1 else "-"
            disc = "%s/%s/%s/3" % (hx(b"control"), hx(b"tcp"), hx(b"1.2.3.4:5")) if mask & 2 else "-"
            fb = "%s/9" % hx(b"control://h:1") if mask & 4 else "-"
            out.append("rt tag=presence%d.%d idseed=%d thr=2 tot=3 exps=%s expf=0 nsh=%d shseed=%d meta=%s disc=%s fb=%s tcb=%d adv=g%d.%d hasdig=%d digseed=%d" % (
                mask, nsh, n, exps(1700000000), nsh, n, meta, disc, fb, 7 if mask & 8 else 0, 12 if mask & 16 else 0, n + 6, 1 if mask & 32 else 0, n + 7))
    return out


def mut_lines(muts, thorough):
    """TLC's decoder inputs. In the quick tier the bulk classes (every byte at 255 / 0, base64 damage) are logged summarised:
    the verdict needs only the outcome; the informative comparison with the specification's decoder is kept for the other classes"""
    out = []
    for m in muts:
        nox = " nox=1" if not thorough and m["kind"] in ("max", "zero", "b64char", "b64pad") else ""
        out.append("dec kind=%s/v%d/%d x=%s%s" % (m["kind"], m["v"], m["k"], bytes(m["chars"]).hex(), nox))
    return out


def text_layer_lines(thorough):
    """the text layer on its own: after the prefix, EVERY string over {a data character, the padding character} up to 10 (12) characters and
    every string over {'A', '=', '/', '-'} up to 5 (6) -- padding-only, padding-dominated and misplaced-padding payloads of every residue --
    plus long runs; also the same strings without / with a damaged prefix"""
    import itertools
    out = []
    seen = set()
    def add(kind, b):
        if b not in seen:
            seen.add(b)
            out.append("dec kind=%s x=%s" % (kind, b.hex()))
    for n in range(0, (12 if thorough else 10) + 1):
        for t in itertools.product(b"A=", repeat=n):
            add("text-layer/pad%d" % min(bytes(t).count(b"="), 9), b"eph://" + bytes(t))
    for n in range(0, (6 if thorough else 5) + 1):
        for t in itertools.product(b"A=/-", repeat=n):
            add("text-layer/alpha", b"eph://" + bytes(t))
    for n in (16, 63, 64, 65, 255, 256, 1000, 4096, 65536, 100000):
        for pad in (1, 2, 3, 4, n // 2, (3 * n) // 4, (3 * n) // 4 + 1, n - 1, n):
            add("text-layer/run", b"eph://" + b"A" * (n - pad) + b"=" * pad)
            add("text-layer/run", b"eph://" + b"=" * pad + b"A" * (n - pad))
    for pre in (b"", b"eph:/", b"eph:", b"EPH://", b"eph//", b"eph://eph://", b" eph://", b"eph:// "):
        for body in (b"", b"=", b"====", b"AAAA", b"A===", b"AA==", b"AAA=", b"=AAA"):
            add("text-layer/prefix", pre + body)
    return out


def random_dec_lines(rng, n, real_uris):
    """random strings, random well-formed base64 payloads with a plausible header, and damaged copies of URIs the real encoder produced"""
    out = []
    for i in range(n):
        x = rng.random()
        if x < 0.15:
            out.append("dec kind=random-bytes g=%d.%d.0" % (rng.choice([0, 1, 5, 6, 7, 10, 100, 123, 1000, 4096, 100000]), rng.randrange(10 ** 6)))
        elif x < 0.30:
            out.append("dec kind=random-base64 g=%d.%d.%d" % (rng.choice([0, 4, 8, 116, 120, 124, 400, 4000, 100000]) + rng.choice([0, 0, 0, 1, 2, 3]), rng.randrange(10 ** 6), rng.choice([1, 2])))
        elif x < 0.65 or not real_uris:
            # random payload that passes the base64 / size / version gates: random header (64-bit expiry!), counts, lengths
            ln = rng.choice([87, 88, 89, 100, 121, 122, 154, 200, 300, 1000])
            p = bytearray(rng.randrange(256) for _ in range(ln))
            p[0] = rng.choice([1, 2, 3, 4, 4, 4, 0, 5])
            if rng.random() < 0.5 and ln >= 88:
                p[77:85] = rng.choice([b"\0" * 8, (rng.randrange(2 ** 34)).to_bytes(8, "big"), b"\xff" * 8, b"\x7f" + b"\xff" * 7])
            if rng.random() < 0.6 and ln >= 88:
                p[87] = rng.choice([0, 0, 1, 2, 255])
            if rng.random() < 0.5:
                for j in range(88, ln):
                    if rng.random() < 0.7:
                        p[j] = rng.choice([0, 0, 0, 1, 2, 255])
            out.append("dec kind=random-payload x=%s" % (b"eph://" + base64.b64encode(bytes(p))).hex())
        else:
            u = bytearray(rng.choice(real_uris))
            k = rng.choice(["flip", "del", "ins", "cut", "pad", "payload-byte"])
            if k == "payload-byte" and len(u) > 6 and len(u) % 4 == 2:
                try:
                    p = bytearray(base64.b64decode(bytes(u[6:])))
                    j = rng.randrange(len(p))
                    p[j] = rng.choice([0, 1, 255, p[j] ^ (1 << rng.randrange(8))])
                    u = bytearray(b"eph://" + base64.b64encode(bytes(p)))
                except Exception:
                    k = "flip"
            if k == "flip" and u:
                u[rng.randrange(len(u))] = rng.choice([0x3d, 0x2d, 0x5f, 0x20, 0x00, 0xff, 0x41, rng.randrange(256)])
            elif k == "del" and u:
                del u[rng.randrange(len(u))]
            elif k == "ins":
                u.insert(rng.randrange(len(u) + 1), rng.choice([0x3d, 0x41, 0x0a, rng.randrange(256)]))
            elif k == "cut":
                u = u[:rng.randrange(len(u) + 1)]
            elif k == "pad":
                u += b"=" * rng.randint(1, 4)
            out.append("dec kind=damaged-real/%s x=%s" % (k, bytes(u).hex()))
    return out


# ------------------------------------------------------------------------------------------------
# running + validating
def classes(e):
    """distinct non-trivial case class of an event (measured)"""
    def bucket(n):
        return n if n <= 2 else "3..254" if n < 255 else n if n in (255, 256, 65535, 65536) else "257..65534" if n < 65535 else ">65536"
    if e["op"] == "rt":
        m = e["m"]
        mx = lambda xs: bucket(max(xs)) if xs else "-"
        return ["rt", e["enc"], e["dec"], bucket(len(m["shards"])), bucket(len(m["meta"])), bucket(len(m["disc"])), bucket(len(m["fb"])),
                mx([x["k"]["n"] for x in m["meta"]]), mx([x["v"]["n"] for x in m["meta"]]), mx([x["sch"]["n"] for x in m["disc"]]),
                mx([x["tr"]["n"] for x in m["disc"]]), mx([x["ep"]["n"] for x in m["disc"]]), mx([x["uri"]["n"] for x in m["fb"]]),
                bucket(m["adv"]["n"]), m["hasdig"], m["exp"]["s"][0] >= 128, m["exp"]["f"] > 0]
    if e["op"] == "dec":
        k = e["kind"].split("/")
        return ["dec", k[0], k[1] if len(k) > 1 and k[0] not in ("trunc", "max", "zero") else "", e["res"], bucket(e["x"]["n"] % 4)]
    if e["op"] == "skipped":
        return ["skipped"]
    return ["crash", e["phase"], e["why"]]


def drive(pid, lines, label, flavour):
    """run the script on the real code (given build flavour); returns a job record (no TLC yet)"""
    b = vlib.build("manifest", flavour)["manifest"]
    wd = vlib.workdir("manifest-%s-%s-%s" % (pid, label, flavour))
    script, trace = os.path.join(wd, "script.txt"), os.path.join(wd, "trace.ndjson")
    with open(script, "w") as f:
        f.write("\n".join(lines) + "\n")
    env = {"ASAN_OPTIONS": "detect_leaks=0:abort_on_error=0:allocator_may_return_null=1", "UBSAN_OPTIONS": "print_stacktrace=0"}
    t0 = time.time()
    vlib.sh([b, script, trace], timeout=900, env=env)
    t_drv = time.time() - t0
    events = vlib.read_ndjson(trace)
    if len(events) != len(lines):
        raise vlib.MachineryError("driver produced %d events for %d operations (%s/%s)" % (len(events), len(lines), label, flavour))
    ncrash = sum(1 for e in events if e["op"] == "crash")
    if any(e["op"] == "skipped" for e in events) and ncrash < 40 and sum(1 for e in events if e["op"] == "crash" and e["why"] == "timeout") < 4:
        raise vlib.MachineryError("driver skipped operations without the crash limit being reached (%s/%s)" % (label, flavour))
    for e in events:
        if e["op"] == "crash" and e["phase"] == "driver":
            raise vlib.MachineryError("the driver itself died outside the code under test: %s" % json.dumps(e))
    return {"label": label, "flavour": flavour, "lines": lines, "events": events, "trace": trace, "t_drv": t_drv}


def judge(job, reuse=None):
    """TLC validation of a driven script (a sanitizer-build trace that is byte-identical to the already
    validated plain trace is not validated twice)"""
    if reuse is not None and open(reuse["trace"], "rb").read() == open(job["trace"], "rb").read():
        job["res"] = reuse["res"]
        job["same_as_plain"] = True
    else:
        job["res"] = validate(job["trace"])
    return job


def validate(trace):
    """vlib.validate with a work directory of its own (two traces are validated concurrently)"""
    wd = os.path.join(os.path.dirname(trace), "tlc")
    os.makedirs(wd, exist_ok=True)
    r = vlib.tlc("ManifestTrace", "ManifestTrace.cfg", workers=1, timeout=1500, env={"TRACE": trace}, wd=wd)
    res = r.results()
    if not res:
        raise vlib.MachineryError("trace validation produced no result (ManifestTrace on %s):\n%s" % (trace, r.out[-4000:]))
    out = res[-1]
    out["tlc_states"] = r.distinct
    out["wall"] = r.dt
    return out


def account(chk, job):
    label, flavour, events, res, lines = job["label"], job["flavour"], job["events"], job["res"], job["lines"]
    chk.add_traces(len(events), len(events), res, "%s/%s" % (label, flavour))
    for e in events:
        chk.nontrivial(classes(e))
    st = res.get("stats", {})
    if st.get("wire_diff") or st.get("specdec_diff"):
        log("[info] %s/%s: the specification's layout differs from the real one on %d encodings / %d decodings (informative, not a verdict)" % (
            label, flavour, st.get("wire_diff", 0), st.get("specdec_diff", 0)))
    report(chk, res, events, lines, "%s/%s" % (label, flavour))
    log("[trace] %s/%s: %d events (driver %.1fs, %s), %d with failing clauses; stats %s" % (
        label, flavour, len(events), job["t_drv"],
        "trace byte-identical to the plain build's, validated there: no sanitizer report" if job.get("same_as_plain") else "TLC %.1fs" % res.get("wall", 0),
        len(res.get("viol", [])), json.dumps(st)))


def run_script(chk, lines, label, flavour="plain"):
    job = judge(drive(chk.pid, lines, label, flavour))
    account(chk, job)
    return job


def report(chk, res, events, lines, label):
    per = {}
    for v in res.get("viol", []):
        for cl in (v["clause"] if isinstance(v["clause"], list) else [v["clause"]]):
            per.setdefault(cl, []).append(v)
    for cl, vs in sorted(per.items()):
        vs.sort(key=lambda v: len(lines[v["l"] - 1]))
        v = vs[0]
        rl = ["# %d failing operations in %s; the shortest one follows (script line for harness/manifest.cpp, then its event summary)" % (len(vs), label),
              "# flavour: %s" % label.split("/")[-1]]
        rl += ["# also: %s" % json.dumps(x["detail"]) for x in vs[1:6]]
        rl += ["# event: %s" % json.dumps(v["detail"]), lines[v["l"] - 1][:200000]]
        chk.report(cl, "%s clause %s fails on the real code (%s): %s" % (chk.pid, cl, label, json.dumps(v["detail"])), rl, replay_name=cl)


ASSUME = ["metadata is logged in std::map order; strings longer than 300 bytes are compared by length, FNV-1a-32 and first/last 16 bytes (computed by the driver), shorter ones byte for byte",
          "expiry is logged as floor(seconds) (8 bytes) + nanoseconds; both whole-second readings (toward zero, floor) are accepted",
          "the attestation digest is compared only while its flag is on (optional field)",
          "each operation runs in a forked worker under a 5 s watchdog; sanitizer reports are classified from the worker's stderr"]


def run(chk):
    thorough = chk.tier == "thorough"
    chk.level = "exploration"
    chk.cov["rule"] = ("cases = TLC-enumerated boundary shapes (each counted list at 0/1/255/256/300, each string at 0/255/256[/65535/65536], 8 expiries, "
                       "one or two fields off base) + TLC-generated decoder inputs (every truncation point of v1..v4 layouts, every count/length byte at 255 and 0, "
                       "expiry fields, prefix/base64 damage) + the text layer exhaustively (every string over {data char, '='} up to 10 characters after the prefix, over {A,=,/,-} up to 5, long padding runs, damaged prefixes) + seeded random manifests / strings; a case class = outcome x size bucket of every list and string "
                       "x expiry sign/fraction (rt) or mutation kind x version x outcome (dec)")
    rng = chk.rng
    c18 = chk.pid == "C18"
    with ThreadPoolExecutor(max_workers=4) as ex:
        builds = [ex.submit(vlib.build, "manifest", fl) for fl in (("plain", "asan") if c18 else ("plain",))]
        muts, shapes = run_models(chk, thorough)
        for b in builds:
            b.result()
    singles = [s for s in shapes if sum(1 for k, v in s.items() if v != (2 if k == "exp" else 1)) <= 1]
    pairs = [s for s in shapes if s not in singles]
    pick = singles + (pairs if thorough else rng.sample(pairs, 160))
    rt_lines = [shape_line(s, i + 1) for i, s in enumerate(pick)]
    rt_lines += [random_manifest_line(rng, i) for i in range(4000 if thorough else 300)]
    rt_lines += presence_matrix_lines()
    log("[gen] %d boundary shapes (%d single, %d pairs) + %d random manifests; %d TLC decoder inputs" % (
        len(pick), len(singles), len(pick) - len(singles), len(rt_lines) - len(pick), len(muts)))
    rt = drive(chk.pid, rt_lines, "roundtrip", "plain")
    if not c18:
        account(chk, judge(rt))
        chk.sample({"source": "roundtrip", "events": [{"tag": e.get("tag"), "enc": e["enc"], "dec": e.get("dec")} for e in rt["events"][:6]]})
    else:
        real = [bytes(e["uri"]["b"]) for e in rt["events"] if e["op"] == "rt" and e.get("exact") and e["enc"] == "ok"]
        dec_lines = mut_lines(muts, thorough) + text_layer_lines(thorough) + random_dec_lines(rng, 15000 if thorough else 1000, real)
        # the two input sets are independent: validate them side by side, each first on the plain build and then
        # (same inputs) on the ASan+UBSan build
        def chain(first, lines, label):
            first = judge(first if first else drive(chk.pid, lines, label, "plain"))
            return first, judge(drive(chk.pid, lines, label, "asan"), reuse=first)
        with ThreadPoolExecutor(max_workers=2) as ex:
            a = ex.submit(chain, rt, rt_lines, "roundtrip")
            b = ex.submit(chain, None, dec_lines, "decode")
            jobs = list(a.result()) + list(b.result())
        for j in jobs:
            account(chk, j)
        ev_d = jobs[2]["events"]
        chk.sample({"source": "decode", "events": [{"kind": e.get("kind"), "n": e.get("x", {}).get("n"), "res": e.get("res")} for e in ev_d[:3] + ev_d[-3:]]})
        chk.assumptions.append("memory safety / UB are observed by ASan+UBSan (g++ -fsanitize=address,undefined) on these executions; the sanitizer is a monitor, not a proof; "
                               "UBSan reports a source location once per driver process")
    chk.assumptions += ASSUME


def replay(chk, path):
    chk.level = "exploration"
    lines = [l.rstrip("\n") for l in open(path) if l.strip() and not l.startswith("#")]
    flav = "plain"
    for l in open(path):
        m = re.match(r"# flavour: (\w+)", l)
        if m:
            flav = m.group(1)
    run_script(chk, lines, "replay", flav if flav in ("plain", "asan") else "plain")
