"""Node-level TTL life-cycle machinery shared by C01 (node level), C02, C03, C05
(spec/NodeTtl*.tla, harness/nodettl.cpp)."""
import os, json
import vlib
from vlib import log

GRID_S = [-1, 0, 1, 4, 5, 6, 29, 30, 31, 3599, 3600, 3601, 86399, 86400, 86401, 100000000]
POW = [0, 6, 24, 25, 255]


def run_driver(chk, behaviours, label, flavour="plain"):
    if not behaviours:
        return None, []
    b = vlib.build("nodettl", flavour)["nodettl"]
    wd = vlib.workdir("nodettl-%s-%s" % (chk.pid, label))
    script, trace = os.path.join(wd, "script.txt"), os.path.join(wd, "trace.ndjson")
    with open(script, "w") as f:
        for lines in behaviours:
            f.write("\n".join(lines) + "\n")
    vlib.sh([b, script, trace, os.path.join(wd, "dir")], timeout=1500)
    events = vlib.read_ndjson(trace)
    res = vlib.validate("NodeTtlTrace", trace, timeout=1500)
    nb = sum(1 for e in events if e["op"] == "reset")
    chk.add_traces(nb, len(events), res, label)
    for e in events:
        p = e.get("proj", {})
        chk.nontrivial([e["op"], e.get("via"), e.get("res"), e.get("ok"), e.get("cleaned"), len(p.get("chunks", [])), len(p.get("cache", [])),
                        len(p.get("loc", [])), len(p.get("pend", []))])
    if events:
        chk.sample({"source": label, "first_events": [{k: v for k, v in e.items() if k != "proj"} for e in events[:10]]})
    vlib.report_trace_violations(chk, res, events, label=label, behaviours=behaviours, harness="nodettl")
    log("[trace] %s: %d behaviours, %d events, %d clause failures" % (label, nb, len(events), len(res.get("viol", []))))
    return res, events


def reset_line(rng, small=True, **kw):
    if small:
        mn = rng.choice([1, 2, 2, 3])
        mx = mn + rng.choice([0, 1, 2, 4])
        d = dict(min=mn, max=mx, default=rng.choice([mn, mx, max(1, mn - 1), mx + 3]), cleanup=rng.choice([1, 1, 2, 3]), thr=rng.choice([1, 2, 3]), total=rng.choice([1, 3, 5]))
    else:
        d = dict(min=rng.choice(GRID_S), max=rng.choice(GRID_S), default=rng.choice(GRID_S), cleanup=rng.choice([1, 5, 300]), rot=rng.choice([-1, 0, 4, 5, 6, 300, 3600, 3601, 10 ** 8]),
                 apow=rng.choice(POW), hpow=rng.choice(POW), spow=rng.choice(POW), thr=rng.choice([1, 2, 3]), total=rng.choice([1, 3, 5]))
    d.update(kw)
    d["rseed"] = rng.randrange(1, 10 ** 6)
    return "reset " + " ".join("%s=%s" % kv for kv in d.items()), d


def random_behaviours(rng, n, focus, maxlen=36):
    """focus: 'c01' (stores and reads only), 'c03' (manifest arrivals), 'c05' (everything + ticks)"""
    out = []
    for _ in range(n):
        line, d = reset_line(rng)
        lines = [line]
        now = 0
        marks = []          # interesting instants (deadlines, manifest expiries)
        slots = 0
        mn, mx = d["min"] * 1000, d["max"] * 1000
        local = [0, 1, 2, 3]
        foreign = [4, 5, 6, 7] if focus != "c05x" else [0, 1, 2, 3, 4, 5]
        for _ in range(rng.randint(4, maxlen)):
            x = rng.random()
            if x < 0.22:
                ttl = rng.choice([-5, 0, 1, 1, 2, 3, 5, 10, 1000000000])
                lines.append("store c=%d b=%d ttl=%d" % (rng.choice(local), rng.randrange(8), ttl))
                eff = min(max((ttl if ttl > 0 else d["default"]) * 1000, mn), mx)
                marks.append(now + eff)
            elif x < 0.45:
                c = rng.choice(local + (foreign if focus != "c01" else []))
                k = rng.randrange(5)
                if k <= 1:
                    lines.append("fetch c=%d" % c)
                elif k == 2:
                    lines.append("export c=%d" % c)
                elif k == 3:
                    lines.append("peerreq c=%d p=%d" % (c, rng.choice([1, 2])))
                else:
                    lines.append("list")
            elif x < 0.62 and focus != "c01":
                slots += 1
                e = rng.choice([-1000, 0, 1, 999, mn - 1, mn, mn + 1, mn + 999, mn + 1000, mx - 1, mx, mx + 1, mx + 5000, 86400000, 800000000, 1900000000])
                c = rng.choice(foreign)
                eabs = ""
                if rng.random() < 0.12:      # absolute expiries at the ends of what the codec carries (centuries away either way)
                    eabs = " eabs=%d" % rng.choice([-9223372036, -9223372035, -9000000000, -8000000000, -7523372037, -7523372036, -7000000000, -2208988800, -1, 0, 1,
                                                     9223372036, 9223372035, 9000000000])
                lines.append("mk m=%d c=%d b=%d e=%d%s%s" % (slots, c, rng.randrange(8), e, eabs, rng.choice(["", "", "", " thr=0", " drop=1"])))
                marks.append(now + e)
                for _ in range(rng.randint(1, 3)):
                    y = rng.random()
                    if y < 0.3:
                        lines.append("ingest m=%d" % slots)
                    elif y < 0.55:
                        lines.append("announce m=%d p=%d ttl=%d assign=%d%s" % (slots, rng.choice([1, 2, 3]), rng.choice([0, 1, 3, 9, 100000]), rng.choice([0, 1]), rng.choice(["", "", " noep=1"])))
                    elif y < 0.8:
                        lines.append("recv m=%d corrupt=%d" % (slots, rng.choice([0, 0, 0, 1, 2, 3])))
                    elif y < 0.9:
                        lines.append("chunkin m=%d p=%d" % (slots, rng.choice([1, 2])))
                    else:
                        lines.append("request m=%d p=%d" % (slots, rng.choice([1, 2])))
            elif x < 0.66 and focus in ("c05", "c05x"):
                lines.append("selfann c=%d ttl=%d" % (rng.choice(local), rng.choice([1, 3, 9, 30])))
            elif x < 0.74 and focus != "c03":
                lines.append("tick")
                if rng.random() < 0.6:
                    lines.append("drain")
            elif x < 0.78 and focus != "c03":
                lines.append("drain")
            else:
                fut = [m for m in marks if m > now and m - now < 10 ** 7]
                if fut and rng.random() < 0.65:
                    dlt = rng.choice(fut) - now + rng.choice([-1, 0, 0, 1])
                else:
                    dlt = rng.choice([0, 1, 500, 999, 1000, 1001, 2000, 5000])
                dlt = max(0, dlt)
                now += dlt
                lines.append("adv ms=%d" % dlt)
        if focus != "c03":
            lines += ["adv ms=%d" % rng.choice([1000, 5000]), "tick", "drain"]
        out.append(lines)
    return out


def config_grid_behaviours(rng, n):
    """C02: configurations from the boundary grid, each followed by stores with extreme requests"""
    out = []
    for _ in range(n):
        line, d = reset_line(rng, small=False)
        lines = [line]
        for i, ttl in enumerate(rng.sample([-7, 0, 1, 29, 30, 31, 3600, 86399, 86400, 86401, 1000000000], 5)):
            lines.append("store c=%d b=%d ttl=%d" % (i % 4, i, ttl))
        lines.append("list")
        out.append(lines)
    return out


# ---- TLC model -> scripts -----------------------------------------------------------------------
MODEL_RESET = "reset min=2 max=4 default=3 cleanup=1 thr=2 total=3"


def hist_to_script(h, seed, foreign_offset=0):
    """foreign_offset: manifests that arrive from outside are mapped to chunk id c + offset (C01 only
    quantifies over store / read / sweep / tick histories of a chunk; arrivals of foreign manifests for
    the SAME id belong to C03 / C05 / C11)"""
    lines = [MODEL_RESET + " rseed=%d" % seed]
    slot = 0
    k = 0
    for a in h:
        op = a["op"]
        k += 1
        if op == "store":
            lines.append("store c=%d b=%d ttl=%d" % (a["c"], k % 8, a["ttl"]))
        elif op in ("ingest", "announce", "recv"):
            slot += 1
            lines.append("mk m=%d c=%d b=%d e=%d" % (slot, a["c"] + foreign_offset, k % 8, a["e"] * 1000))
            if op == "ingest":
                lines.append("ingest m=%d" % slot)
            elif op == "recv":
                lines.append("recv m=%d" % slot)
            else:
                lines.append("announce m=%d p=%d ttl=%d assign=%d" % (slot, a["p"], a["attl"], 1 if a["assign"] else 0))
        elif op == "selfann":
            lines.append("selfann c=%d ttl=%d" % (a["c"], a["ttl"]))
        elif op == "fetch":
            lines.append(["fetch c=%d", "peerreq c=%d p=1", "export c=%d"][k % 3] % a["c"])
        elif op == "list":
            lines.append("list")
        elif op == "tick":
            lines.append("tick")
        elif op == "drain":
            lines.append("drain")
        elif op == "adv":
            lines.append("adv ms=1000")
    return lines


def model_check(chk, dev=(), reach=()):
    r = vlib.mc("NodeTtl", "MC_NodeTtl.cfg", workers=8, timeout=900)
    chk.add_model("NodeTtl design=>contract (1 chunk, 1 peer, min 2 max 4 default 3, cleanup 1, expiries {0,1,3,9}, now<=5, <=8 actions)", r,
                  "invariants C01_Reads C02_StoreWindow C03_Derived C05_Clean C05_Once")
    for cfg, inv in dev:
        vlib.mc("NodeTtl", "MC_NodeTtl_%s.cfg" % cfg, expect_violation=inv, workers=4, timeout=600)
    for cfg, inv in reach:
        vlib.mc("NodeTtl", "MC_NodeTtl_%s.cfg" % cfg, expect_violation=inv, workers=4, timeout=600)
    return r


def model_sequences(chk, nmax, foreign_offset=0):
    r, hists = vlib.dump_hists("NodeTtl", "MC_NodeTtl.cfg", workers=8, timeout=900)
    hists = [h for h in hists if h]
    log("[gen] %d TLC state-cover sequences" % len(hists))
    rng = chk.rng
    pick = hists if len(hists) <= nmax else rng.sample(hists, nmax)
    beh = [hist_to_script(h, rng.randrange(1, 10 ** 6), foreign_offset) for h in pick]
    # transition-cover flavour: extend with a closing sweep so that every path ends in a cleanup + drain
    return [b + ["adv ms=1000", "tick", "drain", "list"] for b in beh]


ASSUME = ["virtual clock by link-time interposition of steady_clock::now / system_clock::now (both advance in lock-step)",
          "private Node state read through the friend class test::NodeTestAccess defined by the harness",
          "peer requests are observed on a socketpair adopted as the peer's session; what the peer receives is decrypted with the manifest the node holds"]
