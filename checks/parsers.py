"""Pure-function properties of the "parsers" group: C33 (STUN response parsing), C34 (auto-advertise filter),
C37 (structured log records), C38 (update metadata parsing).  Each has an executable TLA+ reference
(spec/<X>Contract.tla), a TLC-enumerated case generator (spec/<X>.tla, exported with -dump), a driver on the
real code (harness/<x>.cpp) and a trace specification (spec/<X>Trace.tla) that judges the recorded results."""
import hashlib, json, os, re, struct
import vlib
from vlib import log

HEX = bytes.hex


# ----------------------------------------------------------------------------------------------------
# shared helpers
def write_lines(path, lines):
    with open(path, "w") as f:
        for ln in lines:
            f.write(ln + "\n")


def report_events(chk, res, events, label, to_script):
    """VERIF_RESULT violations -> chk.report; the replay file holds the failing event and its script line"""
    for v in res.get("viol", []):
        e = events[v["l"] - 1]
        clauses = v["clause"] if isinstance(v["clause"], list) else [v["clause"]]
        for cl in clauses:
            lines = ["# %s" % label, "# script line: " + to_script(e), json.dumps(e)]
            chk.report(cl, "%s clause %s fails on the real code (%s)" % (chk.pid, cl, label), lines, replay_name=cl)


def replay_events(path):
    return [json.loads(x) for x in open(path) if x.startswith("{")]


def run_driver(name, flavour, script, trace, extra=(), timeout=1200):
    b = vlib.build(name, flavour)[name]
    env = {"ASAN_OPTIONS": "detect_leaks=0:abort_on_error=0:allocator_may_return_null=1", "UBSAN_OPTIONS": "print_stacktrace=0"}
    vlib.sh([b, script, trace] + list(extra), timeout=timeout, env=env)
    return vlib.read_ndjson(trace)


def dump_states(module, cfg, var="hist", **kw):
    """like vlib.dump_hists, but also understands the dump of a one-variable spec (no leading conjunction bullet)"""
    import shutil
    wd = vlib.workdir("dump-%s-%s-%d" % (module, os.path.basename(cfg).replace(".cfg", ""), os.getpid()))
    dumpf = os.path.join(wd, "dump")
    r = vlib.mc(module, cfg, extra=["-dump", dumpf], wd=wd, **kw)
    text = open(dumpf + ".dump").read() if os.path.exists(dumpf + ".dump") else open(dumpf).read()
    vals = []
    for block in re.split(r"^State \d+:\s*$", text, flags=re.M)[1:]:
        m = re.search(r"^(?:/\\ )?%s = (.*?)(?=^/\\ |\Z)" % re.escape(var), block, flags=re.M | re.S)
        if m:
            vals.append(vlib.parse_tla(m.group(1).strip()))
    shutil.rmtree(wd, ignore_errors=True)
    if len(vals) != r.distinct:
        raise vlib.MachineryError("dump of %s/%s: %d values parsed for %d distinct states" % (module, cfg, len(vals), r.distinct))
    return r, vals


def chunks(xs, n):
    for i in range(0, len(xs), n):
        yield xs[i:i + n]


# ----------------------------------------------------------------------------------------------------
# C33  STUN
STUN_TID = bytes([183, 231, 167, 1, 188, 52, 214, 134, 250, 135, 223, 174])
COOKIE = bytes([0x21, 0x12, 0xA4, 0x42])


def stun_script_line(d, tid, src):
    return "parse d=%s tid=%s src=%s" % (HEX(bytes(d)), HEX(bytes(tid)), src)


def stun_event_to_script(e):
    return stun_script_line(e.get("d", []), e.get("tid", []), e.get("src", "replay"))


def stun_attr(rng, tid):
    k = rng.random()
    port = rng.choice([0, 1, 80, 3478, 0x2112, 0xFFFF, rng.randrange(65536)])
    if k < 0.45:
        xor = rng.random() < 0.5
        v6 = rng.random() < 0.4
        addr = bytes(rng.randrange(256) for _ in range(16 if v6 else 4))
        if rng.random() < 0.2:
            addr = rng.choice([bytes(len(addr)), bytes([255]) * len(addr), (COOKIE + tid)[:len(addr)]])
        fam = 2 if v6 else 1
        if rng.random() < 0.12:
            fam = rng.choice([0, 3, 1 if v6 else 2, 255])
        val = bytes([rng.choice([0, 0, 0, 7]), fam])
        if xor:
            val += struct.pack(">H", port ^ 0x2112) + bytes(a ^ b for a, b in zip(addr, COOKIE + tid))
        else:
            val += struct.pack(">H", port) + addr
        ln = len(val)
        r = rng.random()
        if r < 0.10:
            val = val[:rng.randrange(0, len(val))]; ln = len(val)          # short value
        elif r < 0.16:
            val += bytes(rng.randrange(256) for _ in range(rng.choice([1, 4, 12]))); ln = len(val)   # long value
        elif r < 0.22:
            ln = rng.choice([ln + 4, ln + 1, ln + 12, 0xFFFF, ln - 4 if ln >= 4 else 0])            # length lies about the value
        body = struct.pack(">HH", 0x0020 if xor else 0x0001, ln & 0xFFFF) + val
    else:
        ln = rng.choice([0, 1, 2, 3, 4, 5, 6, 7, 8, 11, 20, rng.randrange(0, 40)])
        val = bytes(rng.randrange(256) for _ in range(ln))
        body = struct.pack(">HH", rng.choice([0x8022, 0x8028, 0x0008, 0x0009, 0x0006, 0x8020, rng.randrange(65536)]), ln) + val
    if rng.random() < 0.92:
        body += bytes((-len(body)) % 4)          # pad to 4 (mostly)
    return body


def stun_random(rng, n):
    out = []
    for i in range(n):
        tid = bytes(rng.randrange(256) for _ in range(12))
        if rng.random() < 0.06:
            d = bytes(rng.randrange(256) for _ in range(rng.choice([0, 1, 19, 20, 21, 24, 32, rng.randrange(0, 513)])))
            if len(d) >= 20 and rng.random() < 0.5:
                d = b"\x01\x01" + d[2:8] + tid + d[20:]
        else:
            body = b"".join(stun_attr(rng, tid) for _ in range(rng.choice([0, 1, 1, 2, 2, 3, 4, 6, 10])))
            trail = b""
            r = rng.random()
            if r < 0.2:
                trail = stun_attr(rng, tid)
            elif r < 0.3:
                trail = bytes(rng.randrange(256) for _ in range(rng.randrange(1, 24)))
            decl = len(body) + rng.choice([0] * 8 + [-4, -8, -12, -20, -1, 1, 2, 3, 4, 8, -len(body), 4 - len(body), 65535 - len(body)])
            decl = max(0, min(65535, decl))
            mtype = rng.choice([0x0101] * 10 + [0x0111, 0x0001, 0x0100, 0x0102, rng.randrange(65536)])
            mtid = tid
            if rng.random() < 0.08:
                j = rng.randrange(12)
                mtid = tid[:j] + bytes([tid[j] ^ (1 << rng.randrange(8))]) + tid[j + 1:]
            cookie = COOKIE if rng.random() < 0.9 else bytes(rng.randrange(256) for _ in range(4))
            d = struct.pack(">HH", mtype, decl) + cookie + mtid + body + trail
            r = rng.random()
            if r < 0.12:
                d = d[:rng.randrange(0, len(d) + 1)]
            elif r < 0.20 and len(d) > 20:
                j = rng.randrange(20, len(d))
                d = d[:j] + bytes([rng.randrange(256)]) + d[j + 1:]
        out.append((d[:512], tid, "rnd%d" % i))
    return out


def stun_nontrivial(chk, events):
    """distinct datagrams that reach the attribute walk (Binding Success, matching transaction, non-empty body)"""
    for e in events:
        d, tid = e.get("d", []), e.get("tid", [])
        if len(d) >= 24 and d[0] == 1 and d[1] == 1 and d[8:20] == tid and (d[2] or d[3]):
            chk.nontrivial("stun:" + hashlib.sha1(bytes(d)).hexdigest()[:16] + (":ok" if e.get("ok") else ""))


def stun_validate(chk, cases, label, with_asan=True):
    wd = vlib.workdir("stun-%s-%s" % (chk.pid, label))
    script = os.path.join(wd, "script.txt")
    write_lines(script, [stun_script_line(d, t, s) for d, t, s in cases])
    events = run_driver("stun", "plain", script, os.path.join(wd, "trace.ndjson"))
    traces = [("plain", events, os.path.join(wd, "trace.ndjson"))]
    if with_asan:
        ev2 = run_driver("stun", "asan", script, os.path.join(wd, "trace-asan.ndjson"))
        if ev2 != events:
            traces.append(("asan", ev2, os.path.join(wd, "trace-asan.ndjson")))   # differs (e.g. a sanitizer abort): judge it too
        else:
            chk.cov.setdefault("asan_identical_runs", 0)
            chk.cov["asan_identical_runs"] += len(ev2)
    for flav, evs, path in traces:
        if len(evs) != len(cases):
            raise vlib.MachineryError("stun driver (%s) produced %d events for %d cases" % (flav, len(evs), len(cases)))
        res = vlib.validate("StunTrace", path, timeout=1500)
        chk.add_traces(len(evs), len(evs), res, "%s/%s" % (label, flav))
        stun_nontrivial(chk, evs)
        rep = [e for e in evs if e.get("ok")]
        if rep:
            chk.sample({"source": label, "datagram_hex": HEX(bytes(rep[0]["d"])), "tid_hex": HEX(bytes(rep[0]["tid"])),
                        "reported": "%s:%s" % (rep[0].get("text"), rep[0].get("port"))})
        report_events(chk, res, evs, "%s, %s flavour" % (label, flav), stun_event_to_script)
        log("[trace] stun %s/%s: %d calls, %d reported an address, %d clause failures" % (
            label, flav, len(evs), res["stats"]["reported"], len(res.get("viol", []))))


def stun_run(chk):
    thorough = chk.tier == "thorough"
    chk.level = "exploration"
    cfg = "MC_Stun_full2.cfg" if thorough else "MC_Stun.cfg"
    r, hists = dump_states("Stun", cfg, workers=8, timeout=1500)
    chk.add_model("Stun builder x code-shaped parser model vs RFC 5389 reference (%s)" % cfg, r,
                  "invariants C33_DesignMeetsContract, DesignReportsWhenReportable; every state is one datagram")
    if thorough:
        r3 = vlib.mc("Stun", "MC_Stun_d3.cfg", workers=8, timeout=1800)
        chk.add_model("Stun, attribute depth 3, all header choices (model only, datagrams not exported)", r3)
    for c, inv in (("dev_headerless", "C33_DesignMeetsContract"), ("reach_reported", "Reach_Reported"), ("reach_overrun", "Reach_OverrunInsideDatagram")):
        vlib.mc("Stun", "MC_Stun_%s.cfg" % c, expect_violation=inv, workers=4, timeout=600)
    cases = []
    for h in hists:
        src = "tlc:%d/%d/%s/%s/%s" % (h["type"], h["delta"], h["tid"], h["trail"], "+".join(h["attrs"]) or "-")
        cases.append((bytes(h["bytes"]), STUN_TID, src))
    log("[gen] %d TLC datagrams" % len(cases))
    if len(cases) > 60000:
        cases = chk.rng.sample(cases, 60000)
    for i, part in enumerate(chunks(cases, 20000)):
        stun_validate(chk, part, "tlc-datagrams-%d" % i)
    n = 100000 if thorough else 6000
    rnd = stun_random(chk.rng, n)
    for i, part in enumerate(chunks(rnd, 20000)):
        stun_validate(chk, part, "random-%d" % i)
    chk.cov["rule"] = ("datagrams = every state of spec/Stun.tla (header type x declared-length delta x transaction match x trailing bytes x "
                       "attribute sequences from a 13-item menu) plus seeded structure-aware random datagrams <= 512 B; a case counts as "
                       "non-trivial when it is a Binding Success with the expected transaction id and a non-empty body (the attribute walk "
                       "runs); distinct by datagram content")
    chk.assumptions += ["the reported text is mapped back to address bytes with inet_pton before comparison (textual form itself is not judged)",
                        "datagram and transaction id live in exact-size heap blocks; AddressSanitizer/UBSan are the monitor for 'never reads outside'",
                        "the magic-cookie field is not required to match (the statement does not mention it)"]


def stun_replay(chk, path):
    chk.level = "exploration"
    evs = replay_events(path)
    stun_validate(chk, [(bytes(e["d"]), bytes(e["tid"]), e.get("src", "replay")) for e in evs], "replay")


# ----------------------------------------------------------------------------------------------------
# C34  auto-advertise
ADV_CTL = {"any": "4:00000000", "loopback": "4:7f000001", "private": "4:0a000005", "public": "4:2d403d56"}
# a configured control host is free text: IPv6 literals in brackets, with a zone id, both, in upper case -- of every class the statement lists
ADV_CTL_V6 = ["fe80::1c2d:3eff:fe4f:5a6b", "::1", "fd12:3456:789a::10", "::ffff:192.168.1.20", "2001:db8::5", "ff02::1", "fc00::1", "2606:4700::1111"]
ADV_CTL_SPELLINGS = [f % a for a in ADV_CTL_V6 for f in ("[%s]", "%s%%eth0", "[%s%%eth0]")] + [a.upper() for a in ADV_CTL_V6] + ["[" + a.upper() + "%ETH0]" for a in ADV_CTL_V6[:3]]
ADV_V4_RANGES = [("127.0.0.0", 8), ("10.0.0.0", 8), ("172.16.0.0", 12), ("192.168.0.0", 16), ("169.254.0.0", 16), ("100.64.0.0", 10),
                 ("192.0.2.0", 24), ("198.51.100.0", 24), ("203.0.113.0", 24), ("198.18.0.0", 15), ("224.0.0.0", 3)]
ADV_V6_RANGES = [("fc00::", 7), ("fe80::", 10), ("2001:db8::", 32), ("ff00::", 8)]


def adv_spec(fam, parts):
    if fam == 4:
        return "4:" + HEX(bytes(parts))
    return "6:" + "".join("%04x" % h for h in parts)


def adv_parallel_mc(module, items, workers=3):
    """dev / reach configurations, a few TLC processes side by side"""
    from concurrent.futures import ThreadPoolExecutor
    with ThreadPoolExecutor(max_workers=4) as ex:
        futs = [ex.submit(vlib.mc, module, cfg, expect_violation=inv, workers=workers, timeout=600, heap="2g") for cfg, inv in items]
        return [f.result() for f in futs]


def adv_random(rng, n):
    import ipaddress
    lines = []

    def rand_v4():
        r = rng.random()
        if r < 0.6:
            base, bits = rng.choice(ADV_V4_RANGES)
            net = ipaddress.ip_network("%s/%d" % (base, bits))
            lo, hi = int(net.network_address), int(net.broadcast_address)
            x = rng.choice([lo + rng.randrange(0, 4), hi - rng.randrange(0, 4), lo - 1 - rng.randrange(0, 3), hi + 1 + rng.randrange(0, 3),
                            rng.randrange(lo, hi + 1)])
            return max(0, min(2 ** 32 - 1, x)).to_bytes(4, "big")
        if r < 0.7:
            return rng.choice([b"\0\0\0\0", b"\0\0\0\1", b"\xff\xff\xff\xff", b"\x08\x08\x08\x08"])
        return rng.randrange(2 ** 32).to_bytes(4, "big")

    def rand_addr():
        r = rng.random()
        if r < 0.4:
            return "4:" + HEX(rand_v4())
        if r < 0.65:
            return "6:" + "0" * 20 + "ffff" + HEX(rand_v4())
        if r < 0.9:
            base, bits = rng.choice(ADV_V6_RANGES)
            net = ipaddress.ip_network("%s/%d" % (base, bits))
            lo, hi = int(net.network_address), int(net.broadcast_address)
            x = rng.choice([lo + rng.randrange(0, 4), hi - rng.randrange(0, 4), lo - 1 - rng.randrange(0, 3), hi + 1 + rng.randrange(0, 3),
                            rng.randrange(lo, hi + 1), rng.randrange(0, 4)])
            return "6:" + HEX(max(0, min(2 ** 128 - 1, x)).to_bytes(16, "big"))
        return "6:" + HEX(bytes([0x20 | rng.randrange(16)] + [rng.randrange(256) for _ in range(15)]))

    for _ in range(n):
        a = rand_addr()
        lines.append("classify a=" + a)
        ctl = rng.choice(list(ADV_CTL.values()) + ["name:node.example", rand_addr(), "name:" + rng.choice(ADV_CTL_SPELLINGS)])
        lines.append("publish mode=%s allow=%d ctl=%s stun=%s%s" % (rng.choice(["on", "warn", "off"]), rng.randrange(2), ctl,
                                                                      a if rng.random() < 0.9 else "none", rng.choice(["", "", "", " prev=pub", " prev=priv"])))
    return lines


def adv_event_to_script(e):
    if e["op"] == "classify":
        return "classify a=" + adv_spec(e["fam"], e["a"])
    c = e["ctl"]
    return "publish mode=%s allow=%d ctl=%s stun=%s%s" % (e["mode"], 1 if e["allow"] else 0,
                                                          adv_spec(c["fam"], c["a"]) if c["fam"] else "name:" + c["host"],
                                                          adv_spec(e["stun"]["fam"], e["stun"]["a"]) if e.get("stun_ok") else "none",
                                                          "" if e.get("prev", "none") == "none" else " prev=" + e["prev"])


def adv_validate(chk, lines, label):
    wd = vlib.workdir("adv-%s-%s" % (chk.pid, label))
    script, trace = os.path.join(wd, "script.txt"), os.path.join(wd, "trace.ndjson")
    write_lines(script, lines)
    events = run_driver("advertise", "plain", script, trace)
    if len(events) != len(lines):
        raise vlib.MachineryError("advertise driver produced %d events for %d commands" % (len(events), len(lines)))
    threw = [e for e in events if "threw" in e]
    if threw:
        raise vlib.MachineryError("advertise driver: node threw: %s" % threw[0]["threw"])
    res = vlib.validate("AdvertiseTrace", trace, timeout=900)
    nb = sum(1 for e in events if e["op"] == "publish")
    chk.add_traces(nb, len(events), res, label)
    for e in events:
        if e["op"] == "classify":
            chk.nontrivial("classify:" + e["host"])
        elif e.get("stun_ok"):
            chk.nontrivial("publish:%s:%s:%s:%s" % (e["mode"], e["allow"], e["ctl"]["host"], e["stun"]["host"]))
    pub = [e for e in events if e["op"] == "publish" and e.get("stun_ok") and e["advertised"]]
    if pub:
        chk.sample({"source": label, "event": pub[0]})
    report_events(chk, res, events, label, adv_event_to_script)
    log("[trace] advertise %s: %d events (%d nodes started, %d published something auto-discovered), %d clause failures" % (
        label, len(events), nb, res["stats"]["published"], len(res.get("viol", []))))


def adv_run(chk):
    thorough = chk.tier == "thorough"
    chk.level = "exploration"
    r, hists = dump_states("Advertise", "MC_Advertise.cfg", workers=4, timeout=900)
    chk.add_model("Advertise: boundary addresses x mode x allow_private x control host x STUN outcome; code-shaped publication model vs contract", r,
                  "invariants C34_DesignMeetsContract, C34_ClassifierMeetsContract; every state is one case")
    adv_parallel_mc("Advertise", [("MC_Advertise_dev_mapped.cfg", "C34_ClassifierMeetsContract"), ("MC_Advertise_dev_mapped_pub.cfg", "C34_DesignMeetsContract"),
                                  ("MC_Advertise_dev_bench19.cfg", "C34_ClassifierMeetsContract"), ("MC_Advertise_dev_self.cfg", "C34_DesignMeetsContract"),
                                  ("MC_Advertise_dev_warnleak.cfg", "C34_DesignMeetsContract"), ("MC_Advertise_dev_stale.cfg", "C34_DesignMeetsContract"),
                                  ("MC_Advertise_reach_history.cfg", "Reach_OffAfterHistory"), ("MC_Advertise_reach_public.cfg", "Reach_PublicPublished"),
                                  ("MC_Advertise_reach_warnconflict.cfg", "Reach_WarnConflict")])
    lines, seen = [], set()
    for h in hists:
        s = h["stun"]
        spec = adv_spec(s["fam"], s["a"]) if s["fam"] else "none"
        if s["fam"] and spec not in seen:
            seen.add(spec)
            lines.append("classify a=" + spec)
        lines.append("publish mode=%s allow=%d ctl=%s stun=%s%s" % (h["mode"], 1 if h["allow"] else 0, ADV_CTL[h["ctl"]], spec, "" if h.get("prev", "none") == "none" else " prev=" + h["prev"]))
    log("[gen] %d TLC cases (%d distinct boundary addresses)" % (len(hists), len(seen)))
    # the control host as free text: every spelling of the listed IPv6 classes, STUN failing, every mode and allow setting
    for sp in ADV_CTL_SPELLINGS:
        for mode in ("on", "warn", "off"):
            lines.append("publish mode=%s allow=%d ctl=name:%s stun=none" % (mode, 0 if mode != "off" else chk.rng.randrange(2), sp))
    adv_validate(chk, lines, "tlc-cases")
    adv_validate(chk, adv_random(chk.rng, 6000 if thorough else 800), "random")
    chk.cov["rule"] = ("cases = every state of spec/Advertise.tla (first/last address of each listed range, the neighbours just outside, IPv4-mapped "
                       "forms, a few routable addresses; x auto mode x allow_private x control host x STUN success/failure; x an earlier start of the same node that published a routable / a private address) plus seeded random "
                       "addresses biased to the range edges; non-trivial = a classification call on a distinct canonical address, or a node start "
                       "where STUN reported an address (distinct by mode, allow_private, control host, STUN address)")
    chk.assumptions += ["addresses reach the code in canonical text form (inet_ntop), as the statement's quantifier says",
                        "auto-discovered = non-manual Config::advertised_endpoints entries and manifest discovery hints with scheme 'transport'; "
                        "configured control endpoints ('control' hints) are not judged",
                        "STUN is answered through NatTraversalManager::TestHooks; the node binds a real ephemeral TCP port"]


def adv_replay(chk, path):
    chk.level = "exploration"
    adv_validate(chk, [adv_event_to_script(e) for e in replay_events(path)], "replay")


# ----------------------------------------------------------------------------------------------------
# C37  structured log records
def log_line(event, fields, level="info"):
    s = "log level=%s event=%s n=%d" % (level, HEX(event), len(fields))
    for i, (k, v) in enumerate(fields):
        s += " k%d=%s v%d=%s" % (i, HEX(k), i, HEX(v))
    return s


def log_event_to_script(e):
    return log_line(bytes(e.get("event", [])), [(bytes(f[0]), bytes(f[1])) for f in e.get("fields", [])], e.get("level", "info"))


def log_random_string(rng):
    cps = []
    for _ in range(rng.choice([0, 1, 1, 2, 3, 5, 8, 13, 40])):
        r = rng.random()
        if r < 0.25:
            cps.append(rng.choice([0x22, 0x5C, 0x2F, 8, 12, 10, 13, 9]))
        elif r < 0.45:
            cps.append(rng.randrange(0, 0x20))
        elif r < 0.65:
            cps.append(rng.randrange(0x20, 0x80))
        elif r < 0.85:
            cps.append(rng.choice([0x7F, 0x80, 0xE9, 0x7FF, 0x800, 0x20AC, 0xD7FF, 0xE000, 0xFFFD, 0xFFFF, 0x10000, 0x1F600, 0x10FFFF]))
        else:
            cp = rng.randrange(0x80, 0x110000)
            cps.append(cp if not 0xD800 <= cp <= 0xDFFF else 0xFFFD)
    return "".join(map(chr, cps)).encode("utf-8")


def log_needs_care(b):
    return any(c < 0x20 or c in (0x22, 0x5C) or c >= 0x7F for c in b)


def log_validate(chk, lines, label, expand=False):
    wd = vlib.workdir("log-%s-%s" % (chk.pid, label))
    script, trace = os.path.join(wd, "script.txt"), os.path.join(wd, "trace.ndjson")
    write_lines(script, lines)
    events = run_driver("logjson", "plain", script, trace)
    if (len(events) != len(lines)) if not expand else (len(events) < len(lines)):
        raise vlib.MachineryError("logjson driver produced %d events for %d commands" % (len(events), len(lines)))
    res = vlib.validate("LogJsonTrace", trace, timeout=1500)
    chk.add_traces(len(events), len(events), res, label)
    for e in events:
        strs = [bytes(e["event"])] + [bytes(x) for f in e["fields"] for x in f]
        if any(log_needs_care(s) for s in strs):
            chk.nontrivial("log:" + hashlib.sha1(b"\0".join(strs) + bytes([len(strs)])).hexdigest()[:16])
    pick = [e for e in events if e["fields"] and log_needs_care(bytes(e["event"]))]
    if pick:
        chk.sample({"source": label, "event_hex": HEX(bytes(pick[0]["event"])), "record": bytes(pick[0]["out"]).decode("utf-8", "replace")})
    report_events(chk, res, events, label, log_event_to_script)
    log("[trace] logjson %s: %d records, %d clause failures" % (label, len(events), len(res.get("viol", []))))


def log_run(chk):
    thorough = chk.tier == "thorough"
    chk.level = "exploration"
    r, hists = dump_states("LogJson", "MC_LogJson.cfg", workers=8, timeout=1500)
    chk.add_model("LogJson: Escape/record layout lemma over all strings <= 3 symbols of a 15-symbol class alphabet", r,
                  "invariants C37_EscapeLemma (one line, valid JSON, decodes back as event / field name / field value), C37_EscapedIsClean")
    adv_parallel_mc("LogJson", [("MC_LogJson_dev_rawcontrol.cfg", "C37_EscapeLemma"), ("MC_LogJson_dev_rawquote.cfg", "C37_EscapeLemma"),
                                ("MC_LogJson_reach_full.cfg", "Reach_FullLength")])
    lines = []
    for h in hists:
        s = bytes(h["bytes"])
        lines.append(log_line(s, [(s, s), (b"k", s)]))
    lines.append(log_line(b"plain", []))
    log("[gen] %d TLC strings" % len(hists))
    log_validate(chk, lines, "tlc-strings")
    rnd = []
    for i in range(4000 if thorough else 500):
        nf = chk.rng.choice([0, 1, 1, 2, 3, 5])
        fields = [(log_random_string(chk.rng), log_random_string(chk.rng)) for _ in range(nf)]
        if nf >= 2 and chk.rng.random() < 0.3:
            fields[1] = (fields[0][0], fields[1][1])          # duplicate field name
        rnd.append(log_line(log_random_string(chk.rng), fields, chk.rng.choice(["info", "warning", "error"])))
    log_validate(chk, rnd, "random")
    # several threads logging at once (records with quotes, backslashes, control bytes): what meets at the descriptor must still be one
    # faithful line per record.  The driver expands one clog line into one event per record (+ one per stray line)
    log_validate(chk, ["clog threads=4 count=%d" % (60 if thorough else 20), "clog threads=8 count=%d" % (40 if thorough else 8)], "concurrent", expand=True)
    chk.cov["rule"] = ("strings = every state of spec/LogJson.tla (all strings of <= 3 symbols over quote, backslash, slash, \\b \\f \\n \\r \\t, 0x01, 0x1F, "
                       "'a', 0x7F and a 2-, 3- and 4-byte UTF-8 character), each logged as event name, field name and field value, plus seeded "
                       "random valid-UTF-8 strings (all control bytes, BMP edges, astral code points) with 0-5 fields and duplicate names; "
                       "non-trivial = a record in which some string needs escaping or is non-ASCII; distinct by logged content")
    chk.assumptions += ["std::clog is redirected into a string buffer; the record is what one log() call wrote",
                        "logged strings are valid UTF-8 (the statement's domain); raw bytes >= 0x80 are not validated by the JSON reference"]


def log_replay(chk, path):
    chk.level = "exploration"
    log_validate(chk, [log_event_to_script(e) for e in replay_events(path)], "replay")


# ----------------------------------------------------------------------------------------------------
# C38  update metadata
def upd_event_to_script(e):
    if e.get("kind", "").startswith("pat-"):
        return "gen kind=%s pre=%s mid=%s post=%s wrap=%d depth=%d src=%s" % (e["kind"], e["pre"], e["mid"], e["post"], e.get("wrap", 0), e["depth"], e.get("src", "replay"))
    if e.get("kind"):
        return "gen kind=%s depth=%d src=%s" % (e["kind"], e["depth"], e.get("src", "replay"))
    return "parse doc=%s src=%s" % (HEX(bytes(e.get("doc", []))), e.get("src", "replay"))


def upd_jstr(rng, cps):
    """JSON source of a string with the given code points, each written raw or escaped (never a lone surrogate)"""
    out = []
    short = {0x22: '\\"', 0x5C: "\\\\", 0x2F: "\\/", 8: "\\b", 12: "\\f", 10: "\\n", 13: "\\r", 9: "\\t"}
    for cp in cps:
        r = rng.random()
        if cp in short and (r < 0.7 or cp != 0x2F):
            out.append(short[cp] if r < 0.85 or cp < 0x20 or cp in (0x22, 0x5C) else chr(cp))
            if cp < 0x20 and r >= 0.85:
                out[-1] = "\\u%04x" % cp
        elif cp < 0x20 or r < 0.4:
            if cp >= 0x10000:
                v = cp - 0x10000
                fmt = "\\u%04x\\u%04x" if rng.random() < 0.5 else "\\u%04X\\u%04X"
                out.append(fmt % (0xD800 + (v >> 10), 0xDC00 + (v & 0x3FF)))
            else:
                out.append(("\\u%04x" if rng.random() < 0.5 else "\\u%04X") % cp)
        else:
            out.append(chr(cp))
    return '"' + "".join(out) + '"'


def upd_rand_cps(rng):
    cps = []
    for _ in range(rng.choice([0, 1, 1, 2, 3, 5, 12])):
        r = rng.random()
        if r < 0.2:
            cps.append(rng.choice([0x22, 0x5C, 0x2F, 8, 12, 10, 13, 9]))
        elif r < 0.3:
            cps.append(rng.randrange(0, 0x20))
        elif r < 0.55:
            cps.append(rng.randrange(0x20, 0x7F))
        elif r < 0.8:
            cps.append(rng.choice([0x7F, 0x80, 0xE9, 0x7FF, 0x800, 0x20AC, 0xD7FF, 0xE000, 0xFFFF, 0x10000, 0x1F600, 0x1F601, 0x10FFFF]))
        else:
            cp = rng.randrange(0x80, 0x110000)
            cps.append(cp if not 0xD800 <= cp <= 0xDFFF else 0x1F600)
    return cps


def upd_random_doc(rng):
    ws = lambda: rng.choice(["", "", "", " ", "\n", "\r\n\t "])

    def val(depth):
        r = rng.random()
        if depth > 0 and r < 0.25:
            return "[" + ",".join(val(depth - 1) for _ in range(rng.randrange(0, 4))) + "]"
        if depth > 0 and r < 0.45:
            n = rng.randrange(0, 4)
            return "{" + ",".join('"k%d":%s' % (i, val(depth - 1)) for i in range(n)) + "}"
        if r < 0.6:
            return rng.choice(["0", "-1", "1.5", "1e9", "-2.5E-3", "12345678901234567890", "0.0", "1E+2"])
        if r < 0.7:
            return rng.choice(["true", "false", "null"])
        return upd_jstr(rng, upd_rand_cps(rng))

    members = []
    for f in ("version", "tag", "commit", "channel", "generated_at"):
        r = rng.random()
        if r < 0.9:
            members.append('"%s"%s:%s%s' % (f, ws(), ws(), upd_jstr(rng, upd_rand_cps(rng))))
        elif r < 0.95:
            members.append('"%s":%s' % (f, rng.choice(["1", "null", "[]", "{}"])))
    if rng.random() < 0.7:
        members.append('"notes_url":%s' % (upd_jstr(rng, upd_rand_cps(rng)) if rng.random() < 0.9 else "null"))
    plats = []
    for i in range(rng.choice([0, 1, 1, 2, 3])):
        inner = []
        if rng.random() < 0.93:
            inner.append('"url":%s' % upd_jstr(rng, upd_rand_cps(rng)))
        for f in ("arch", "format", "sha256"):
            r = rng.random()
            if r < 0.6:
                inner.append('"%s":%s' % (f, upd_jstr(rng, upd_rand_cps(rng))))
            elif r < 0.7:
                inner.append('"%s":%s' % (f, rng.choice(["7", "null", "[1]"])))
        rng.shuffle(inner)
        name = upd_jstr(rng, [ord(c) for c in "p%d" % i] + upd_rand_cps(rng)[:3])
        plats.append("%s:%s" % (name, "{" + ("," + ws()).join(inner) + "}" if rng.random() < 0.92 else rng.choice(['"str"', "3"])))
    if rng.random() < 0.95:
        members.append('"downloads":%s{%s}' % (ws(), ",".join(plats)))
    if rng.random() < 0.5:
        members.append('"extra%d":%s' % (rng.randrange(100), val(rng.choice([1, 2, 4, 12]))))
    rng.shuffle(members)
    doc = (ws() + "{" + ws() + ("," + ws()).join(members) + ws() + "}" + ws()).encode("utf-8")
    r = rng.random()
    if r < 0.15:
        doc = doc[:rng.randrange(0, len(doc) + 1)]
    elif r < 0.22 and doc:
        j = rng.randrange(len(doc))
        doc = doc[:j] + bytes([rng.choice([0x22, 0x5C, 0x7B, 0x7D, 0x5B, 0x5D, 0x2C, 0x3A, 0x2D, 0x30, rng.randrange(256)])]) + doc[j + 1:]
    elif r < 0.27 and doc:
        j = rng.randrange(len(doc))
        doc = doc[:j] + doc[j + 1:]
    elif r < 0.30:
        doc = doc + rng.choice([b"x", b"{", b"]", b"\x00", b" 1"])
    return doc


UPD_EDGE = [b"{", b"[", b"-", b"-0", b"1.", b"1e", b"1e+", b'"', b'"\\', b'"\\u', b'"\\u12', b'"\\ud83d', b'"\\ud83d\\', b'"\\ud83d\\u', b"t", b"tru", b"nul",
            b"{\"a\"", b"{\"a\":", b"{\"a\":1,", b"[1,", b"", b" ", b"\xef\xbb\xbf{}", b"{}", b"[]", b"null", b"0", b'"x"', b"{\"a\":-}", b"[-]", b"{,}", b"[,]",
            b"{\"a\" 1}", b"\x00", b"{\"version\":\"1\"}"]


def upd_validate(chk, lines, label, flavours=("plain", "asan")):
    wd = vlib.workdir("upd-%s-%s" % (chk.pid, label))
    script = os.path.join(wd, "script.txt")
    write_lines(script, lines)
    prev = None
    for flav in flavours:
        trace = os.path.join(wd, "trace-%s.ndjson" % flav)
        events = run_driver("updatejson", flav, script, trace, timeout=1500)
        if len(events) != len(lines):
            raise vlib.MachineryError("updatejson driver (%s) produced %d events for %d cases" % (flav, len(events), len(lines)))
        if prev is not None and events == prev:
            chk.cov["asan_identical_runs"] = chk.cov.get("asan_identical_runs", 0) + len(events)
            continue
        prev = events
        res = vlib.validate("UpdateJsonTrace", trace, timeout=1500)
        chk.add_traces(len(events), len(events), res, "%s/%s" % (label, flav))
        for e in events:
            if e["op"] == "died":
                chk.nontrivial("upd:died:" + e["how"] + ":" + e.get("kind", e.get("src", "")))
            elif e.get("ok"):
                chk.nontrivial("upd:ok:" + hashlib.sha1(bytes(e.get("doc", [])) + str(e.get("n")).encode()).hexdigest()[:16])
            elif e.get("n", 0) > 0:
                chk.nontrivial("upd:err:" + e.get("err", "")[:40] + ":" + str(min(e["n"], 64)))
        okev = [e for e in events if e["op"] == "parse" and e.get("ok") and "doc" in e]
        if okev:
            chk.sample({"source": label, "document": bytes(okev[-1]["doc"]).decode("utf-8", "replace")[:400],
                        "reported_version_hex": HEX(bytes(okev[-1]["fields"]["version"]))})
        report_events(chk, res, events, "%s, %s flavour" % (label, flav), upd_event_to_script)
        log("[trace] updatejson %s/%s: %d calls, %d succeeded (%d compared with the reference), %d died, %d clause failures" % (
            label, flav, len(events), res["stats"]["ok"], res["stats"]["compared"], sum(1 for e in events if e["op"] == "died"), len(res.get("viol", []))))


def upd_run(chk):
    thorough = chk.tier == "thorough"
    chk.level = "exploration"
    r, hists = dump_states("UpdateJson", "MC_UpdateJson.cfg", workers=8, timeout=1500)
    chk.add_model("UpdateJson: document builder x code-shaped parse_update_metadata model vs RFC 8259 reference", r,
                  "invariants C38_DesignMeetsContract, RefDecodesIntended, RefValidity, DesignTotalOnCases; every state is one document")
    adv_parallel_mc("UpdateJson", [("MC_UpdateJson_dev_splitsurrogates.cfg", "C38_DesignMeetsContract"), ("MC_UpdateJson_reach_pair.cfg", "Reach_SuccessWithPair"),
                                   ("MC_UpdateJson_reach_cutpair.cfg", "Reach_CutInsidePair")])
    lines = []
    for h in hists:
        src = "tlc:%s/%s/%s/%s/%s/%s%s/%s" % (h["kind"], h["slot"], h["variant"], h["field"], h["disp"], h["extra"], h["depth"], h["cut"])
        lines.append("parse doc=%s src=%s" % (HEX(bytes(h["bytes"])), src))
    log("[gen] %d TLC documents" % len(lines))
    for i, d in enumerate(UPD_EDGE):
        lines.append("parse doc=%s src=edge%d" % (HEX(d), i))
    upd_validate(chk, lines, "tlc-documents")
    deep = []
    for kind in ("arr", "obj", "arr-open", "obj-open", "extra-arr", "extra-obj"):
        for d in ((10, 100, 127, 128, 129, 1000, 100000) if thorough else (100, 1000, 100000)):
            deep.append("gen kind=%s depth=%d src=deep-%s-%d" % (kind, d, kind, d))
    # per-level shapes: the nested child preceded / followed by siblings of every value type (a depth counter that is refunded or
    # not charged for some value type shows only on such shapes), mixed containers, closed and left open
    sib = ["[]", "{}", "1", '"s"', "null", "true", "[[]]", '{"k":[]}', "[1,2]", "-0.5e1"]
    shapes = []
    for i, v in enumerate(sib):
        shapes.append(("arr-elder%d" % i, "[" + v + ",", "[]", "]"))
        shapes.append(("obj-elder%d" % i, '{"e":' + v + ',"n":', "{}", "}"))
        shapes.append(("arr-younger%d" % i, "[", "[]", "," + v + "]"))
    shapes += [("mixed-ao", '[{"a":', "1", "}]"), ("mixed-oa", '{"a":[', "null", "]}"), ("mixed-elder", '[[],{"e":{},"n":', "[]", "}]"),
               ("ws", " [ \n", " [ ] ", " ] \t"), ("two-empties", "[[],{},", "[]", "]")]
    depths = (129, 1000, 100000, 1000000) if thorough else (1000, 200000)
    for name, pre, mid, post in shapes:
        pre, mid, post = [x.replace("\\n", "\n").replace("\\t", "\t") for x in (pre, mid, post)]
        for d in depths:
            for wrap in (0, 1):
                for closed in (1, 0):
                    if not closed and (wrap or d != depths[-1]):
                        continue
                    deep.append("gen kind=pat-%s pre=%s mid=%s post=%s wrap=%d depth=%d src=deep-%s-%d-%s%s" % (
                        name, HEX(pre.encode()), HEX(mid.encode()), HEX(post.encode() if closed else b""), wrap, d, name, d, "w" if wrap else "t", "" if closed else "-open"))
    upd_validate(chk, deep, "deep-nesting", flavours=("plain", "asan") if thorough else ("plain",))
    rnd = ["parse doc=%s src=rnd%d" % (HEX(upd_random_doc(chk.rng)), i) for i in range(6000 if thorough else 700)]
    upd_validate(chk, rnd, "random")
    chk.cov["rule"] = ("documents = every state of spec/UpdateJson.tla (base document; 30 string variants - every escape, surrogate pairs incl. min/max, raw UTF-8 - "
                       "in 6 slots; each field missing / number / null / array / object / true; nested extra members; white space; every prefix of the "
                       "base document) + hand-listed truncated tokens + nesting depths 10^2..10^5 (arrays/objects, closed/open, top-level/inside a valid "
                       "document) + seeded random documents (random escapes, shuffled members, mutations); non-trivial = a successful parse (distinct "
                       "by document), a distinct (error message, length class) or a distinct way of dying")
    chk.assumptions += ["documents sit in exact-size heap blocks; AddressSanitizer/UBSan monitor reads outside them",
                        "cases run in a child process on a thread with an 8 MiB stack, 5 s watchdog per case: stack overflow / crash / hang are observations",
                        "lone surrogates, duplicate keys, invalid JSON accepted leniently and absent fields are not judged (outside the statement)",
                        "documents > 3000 bytes (deep nesting) are judged for totality only"]


def upd_replay(chk, path):
    chk.level = "exploration"
    upd_validate(chk, [upd_event_to_script(e) for e in replay_events(path)], "replay")
