"""PoW group (C19): the four proof-of-work surfaces (handshake, announce, store, bootstrap token), their leading-zero
counters, validators and solvers, in the node/library code and in the CLI's own copies.

Pipeline:  TLC checks the in-spec lemmas (spec/PowLemmas.tla with MC_Pow.cfg: LeadingZeroBits / Accept on synthetic digests
for every z in 0..256 x every difficulty 0..255 x 4 tail fillings, plus layout vectors)  ->  a script of cases is generated
here (structured + VERIF_SEED-random field values; synthetic and random digests for the counters)  ->  harness/pow_cli.cpp
(src/main.cpp compiled in) and harness/pow.cpp (src/core/Node.cpp + src/security/StoreProof.cpp compiled in) run every case on
the REAL code and log inputs + answers  ->  TLC (spec/PowTrace.tla) recomputes every digest from the logged fields with the
executable reference (spec/Pow.tla over spec/Sha256.tla) and decides acceptance for all 256 difficulties.
No hashing is done in python for a verdict (hashlib was only used, once and offline, to mine the 24-bit witnesses below,
whose digests TLC recomputes like any other)."""
import json, os
import vlib
from vlib import log, MachineryError

# Pre-mined inputs whose digest has >= 24 leading zero bits (about 2^24 attempts each from nonce 10^9, mined offline with hashlib; the reference
# recomputes their digests at every run and the vacuity guard 'over24' fails the run if they are not what is claimed).
# They make the validators ACCEPT at difficulties 13..24 and show the store cap in action (d > 24 accepted with exactly
# min(d, 24) bits).
def _wid(a, b):
    return bytes((a * i + b) % 256 for i in range(32)).hex()


WITNESSES = [
    # digest 0000005489ce4192...  (25 leading zero bits)
    {"surface": "handshake", "nonce": "000000003befc635", "fields": {"init": _wid(7, 3), "resp": _wid(11, 5), "pub": "9e3779b1"}},
    # digest 000000cd88197561...  (24)
    {"surface": "announce", "nonce": "000000003c6c0749",
     "fields": {"cid": _wid(7, 3), "peer": _wid(11, 5), "ep": b"198.51.100.7:47001".hex(), "uri": b"eph://witness".hex(), "shards": "0103", "ttl": (7200).to_bytes(8, "big").hex()}},
    # digest 000000e5e2b58fa7...  (24)
    {"surface": "store", "nonce": "000000003c88ff4d", "fields": {"cid": _wid(7, 3), "size": (65536).to_bytes(8, "big").hex(), "fname": b"w.bin".hex()}},
]


def _witnesses():
    return WITNESSES


LANES = max(1, min(8, vlib.NCPU))


def hx(b):
    b = bytes(b)
    return b.hex() if b else "-"


# ------------------------------------------------------------------------------------------- case generation
def synth_digest(z, fill, rng):
    """32 bytes with exactly z leading zero bits; tail: 0 zeros, 1 ones, 2 random"""
    bits = [0] * 256
    if z < 256:
        bits[z] = 1
        for j in range(z + 1, 256):
            bits[j] = 0 if fill == 0 else 1 if fill == 1 else rng.randrange(2)
    return bytes(sum(bits[8 * i + k] << (7 - k) for k in range(8)) for i in range(32))


def rb(rng, n):
    return bytes(rng.randrange(256) for _ in range(n))


def rid(rng):
    x = rng.random()
    if x < 0.1:
        return bytes(32)
    if x < 0.2:
        return bytes([255]) * 32
    return rb(rng, 32)


def rendpoint(rng, lo=0, hi=24):
    x = rng.random()
    if x < 0.6:
        return ("%d.%d.%d.%d:%d" % (rng.randrange(1, 255), rng.randrange(256), rng.randrange(256), rng.randrange(1, 255), rng.randrange(1, 65536))).encode()
    n = rng.randint(lo, hi)
    return rb(rng, n)


def rpub(rng):
    return rng.choice([rb(rng, 4), rb(rng, 4), bytes([255, 255, 255, 255]), bytes([128, 0, 0, 0]), bytes([0, 0, 0, 2]), bytes(4)])


def rttl(rng):
    v = rng.choice([rng.randrange(1, 86400), 3600, 0, 1, 2 ** 31, 2 ** 32 + 5, -1, -rng.randrange(1, 10 ** 6), 2 ** 63 - 1])
    return (v % 2 ** 64).to_bytes(8, "big")


def rsize(rng):
    v = rng.choice([rng.randrange(1, 2 ** 20), 0, 1, 2 ** 32 - 1, 2 ** 32, rng.randrange(2 ** 40), 2 ** 64 - 1])
    return v.to_bytes(8, "big")


def rfname(rng, short):
    x = rng.random()
    if x < 0.2:
        return b""
    if short or x < 0.5:
        return rb(rng, rng.randint(1, 3))          # keeps the store message in one SHA block
    return rng.choice([b"report-final.pdf", b"a.txt", rb(rng, rng.randint(4, 40)), b"x" * 255 if x > 0.95 else b"data.bin"])


def fields_of(surface, rng, small):
    if surface == "handshake":
        return {"init": rid(rng), "resp": rid(rng), "pub": rpub(rng)}
    if surface == "announce":
        return {"cid": rid(rng), "peer": rid(rng), "ep": rendpoint(rng), "uri": rng.choice([b"", b"eph://" + rb(rng, rng.randint(1, 8 if small else 60)).hex().encode()]),
                "shards": rng.choice([b"", bytes([rng.randrange(8)]), bytes(sorted(rng.sample(range(16), rng.randint(2, 5)))), rb(rng, 3)]), "ttl": rttl(rng)}
    if surface == "store":
        return {"cid": rid(rng), "size": rsize(rng), "fname": rfname(rng, small)}
    if surface == "token":
        ep = rendpoint(rng, 1, 20)
        return {"cid": rid(rng), "hash": rid(rng), "ep": ep or b"h:1"}
    raise MachineryError("surface " + surface)


def case_line(surface, f, d, **kw):
    s = "case surface=%s d=%d " % (surface, d) + " ".join("f.%s=%s" % (k, hx(v)) for k, v in f.items())
    return s + "".join(" %s=%s" % (k, v) for k, v in kw.items())


def tok_line(f, d, maxa, check, **kw):
    s = "tok d=%d max=%d check=%s " % (d, maxa, check) + " ".join("f.%s=%s" % (k, hx(v)) for k, v in f.items())
    return s + "".join(" %s=%s" % (k, v) for k, v in kw.items())


def gen_cases(rng, tier):
    q = tier == "quick"
    L = []
    # ---- (i) counters: exactly z leading zero bits, z in 0..256, 3 tail fillings; then random and special digests
    for z in range(257):
        for fill in (0, 1, 2):
            L.append("lz dig=%s" % synth_digest(z, fill, rng).hex())
    for _ in range(60 if q else 3000):
        x = rng.random()
        d = rb(rng, 32)
        if x < 0.5:      # zero prefix of random length, random continuation
            k = rng.randrange(0, 33)
            d = bytes(k) + d[k:]
        L.append("lz dig=%s" % d.hex())
    for d in (bytes([255]) * 32, bytes(31) + b"\x01", bytes(31) + b"\x80", b"\x01" + bytes(31), b"\x00\x01" + bytes([255]) * 30):
        L.append("lz dig=%s" % d.hex())
    # ---- (ii)+(iii) validators and solvers
    ms = lambda: rng.randrange(1, 10 ** 9)
    muts = "one" if q else "all"
    hs_d = [0, 6, 8, 10, 12, rng.randint(6, 12)] if q else [0, 1, 2, 3, 4, 5] + list(range(6, 17)) * 2 + [rng.randint(6, 16) for _ in range(10)] + [17, 18]
    for d in hs_d:
        L.append(case_line("handshake", fields_of("handshake", rng, q), d, muts=muts, mseed=ms()))        # node and CLI
    ann_d = [0, 6, 9, 12] if q else [0, 1, 3, 5] + list(range(6, 17)) + [rng.randint(6, 16) for _ in range(8)] + [17, 18]
    for d in ann_d:
        L.append(case_line("announce", fields_of("announce", rng, q), d, muts=muts, mseed=ms()))
    st_d = [0, 6, 8, 10, 12, rng.randint(6, 12)] if q else [0, 1, 2, 4] + list(range(6, 17)) * 2 + [rng.randint(6, 16) for _ in range(8)] + [17, 18, 25, 200, 255]
    for d in st_d:
        L.append(case_line("store", fields_of("store", rng, q), d, muts=muts, mseed=ms()))
    # solver walks that cross a power-of-two boundary of the nonce before reaching their first valid nonce (the driver searches ids for it)
    for k, span, d in ((16, 200, 9), (24, 1500, 12), (32, 1500, 12), (32, 1500, 13)) if q else ((16, 300, 9), (16, 100, 8), (24, 2000, 11), (24, 3000, 12), (32, 3000, 12), (32, 3000, 12), (32, 6000, 13)):
        for s in ("handshake", "announce"):
            L.append("seek surface=%s k=%d span=%d tries=8000000 d=%d on=node muts=none " % (s, k, span, d) + " ".join("f.%s=%s" % (kk, hx(v)) for kk, v in fields_of(s, rng, True).items()))
    # given (unsolved) nonces: mostly the rejecting side, all difficulties
    for s in ("handshake", "announce", "store"):
        for _ in range(2 if q else 12):
            L.append(case_line(s, fields_of(s, rng, q), rng.randint(0, 255), nonce=rb(rng, 8).hex(), kind="given"))
    # witnesses with >= 24 leading zero bits
    for w in _witnesses():
        L.append(case_line(w["surface"], {k: bytes.fromhex(v) for k, v in w["fields"].items()}, 24, nonce=w["nonce"], kind="witness"))
    # token: observed through the solver's search
    for d in ([6, 8, 10] if q else list(range(5, 17)) + [rng.randint(5, 14) for _ in range(6)]):
        L.append(tok_line(fields_of("token", rng, q), d, 500000, "prev", muts=muts, mseed=ms(), on="node"))
    for d in ([7, 9] if q else [5, 6, 8, 10, 11, 12, 13]):
        L.append(tok_line(fields_of("token", rng, q), d, 250000, "prev", muts=muts, mseed=ms(), on="cli"))
    for d in ([0, 1, 2, 3, 4] if q else [0, 1, 2, 3, 4, 5, 6, 1, 2, 3, 4, 5, 6]):
        L.append(tok_line(fields_of("token", rng, q), d, 500000, "full", muts="none", on="node"))
    for d in ([3] if q else [1, 2, 3, 4, 5]):
        L.append(tok_line(fields_of("token", rng, q), d, 250000, "full", muts="none", on="cli"))
    return L


# ------------------------------------------------------------------------------------------- run + validate
def validate_lanes(trace, timeout):
    """trace validation in LANES interleaved lanes (events are independent; see spec/PowTrace.tla)"""
    for attempt in (1, 2):
        r = vlib.tlc("PowTrace", "PowTrace.cfg", workers=LANES, timeout=timeout, heap="2g", env={"TRACE": trace, "LANES": str(LANES)})
        res = r.results()
        if len(res) == LANES and not r.violated and r.completed:
            break
        log("[tlc] trace validation attempt %d incomplete (%d of %d lane results, rc=%s)" % (attempt, len(res), LANES, r.rc))
    if len(res) != LANES or r.violated or not r.completed:
        raise MachineryError("trace validation: %d of %d lane results (%s):\n%s" % (len(res), LANES, trace, r.out[-4000:]))
    stats = {}
    for x in res:
        for k, v in x.get("stats", {}).items():
            stats[k] = stats.get(k, 0) + v
    viol = sorted((v for x in res for v in x.get("viol", [])), key=lambda v: v["l"])
    return {"events": res[0]["events"], "viol": viol, "stats": stats, "tlc_states": r.distinct, "wall": r.dt}


def cost(e):
    """rough number of reference SHA blocks of an event (lane balancing only)"""
    if e["op"] == "probe":
        return {"handshake": 2, "announce": 3, "store": 2}[e["surface"]]
    if e["op"] == "tok":
        return 2 * (1 + (e["n"] if e["check"] == "full" and e["found"] else 1))
    return 0


def execute(chk, lines, label):
    bins = vlib.build(["pow", "pow_cli"])
    wd = vlib.workdir("pow-%s-%s" % (chk.pid, label))
    script = os.path.join(wd, "script.txt")
    tcli, tnode, trace = (os.path.join(wd, n) for n in ("trace_cli.ndjson", "trace_node.ndjson", "trace.ndjson"))
    lines = list(lines)
    with open(script, "w") as f:
        f.write("\n".join(lines) + "\n")
    vlib.sh([bins["pow_cli"], script, tcli], timeout=900)
    ecli = vlib.read_ndjson(tcli)
    # every nonce the CLI's solver returned is also put to the NODE's validator (the node is who checks it in the field)
    for e in ecli:
        if e["op"] == "probe" and e["kind"] == "solved" and e["found"] == 1 and "nonce=" not in lines[e["src"] - 1]:
            lines.append(case_line("handshake", {k: bytes(e[k]) for k in ("init", "resp", "pub")}, e["d0"], nonce=bytes(e["nonce"]).hex(), kind="clisolved", on="node"))
    with open(script, "w") as f:
        f.write("\n".join(lines) + "\n")
    vlib.sh([bins["pow"], script, tnode], timeout=900)
    enode = vlib.read_ndjson(tnode)
    # join the counter events of the two executables on the script line (structural; values are copied, not compared)
    clilz = {e["src"]: e for e in ecli if e["op"] == "lz"}
    merged = []
    for e in enode:
        if e["op"] == "lz" and e["src"] in clilz:
            c = clilz.pop(e["src"])
            if c["dig"] != e["dig"]:
                raise MachineryError("lz events of script line %d carry different digests" % e["src"])
            e = dict(e, cli=c["cli"])
        merged.append(e)
    merged += [e for e in ecli if e["op"] != "lz"] + list(clilz.values())
    for e in merged:
        if e["op"] == "tok" and e["found"] and e["n"] >= 0 and int.from_bytes(bytes(e["nonce"]), "big") != e["n"]:
            raise MachineryError("tok event: nonce bytes and n differ (script line %d)" % e["src"])
        if e["op"] == "tok" and e["found"] and e["n"] < 0:
            raise MachineryError("tok event: nonce beyond 2^31 (script line %d)" % e["src"])
    merged.sort(key=lambda e: -cost(e))
    if not merged:
        raise MachineryError("drivers produced no events (%s)" % label)
    with open(trace, "w") as f:
        for e in merged:
            f.write(json.dumps(e, separators=(",", ":")) + "\n")
    res = validate_lanes(trace, timeout=2400)
    if res["events"] != len(merged):
        raise MachineryError("trace validation saw %d of %d events" % (res["events"], len(merged)))
    return merged, res, lines


def lz_of(dig):
    z = 0
    for b in dig:
        if b == 0:
            z += 8
            continue
        return z + (8 - b.bit_length())
    return z


def classify(e):
    """case class of an event (distinct_nontrivial counts these); built from the INPUTS and the code's answers"""
    op = e["op"]
    if op == "lz":
        z = lz_of(e["dig"])
        tail = e["dig"][min(31, z // 8 + 1):]
        return ["lz", z, "zeros" if not any(tail) else "ones" if all(b == 255 for b in tail) else "mixed"]
    if op == "probe":
        top = max(e["acc"]) if e["acc"] else -1
        return ["probe", e["surface"], e["impl"], e["kind"], e["field"], e["variant"], e["d0"] in e["acc"], min(top, 25) // 4]
    if op == "tok":
        return ["tok", e["impl"], e["kind"], e["field"], e["variant"], e["d0"], e["found"], e["check"]]
    return [op]


def calls(e):
    if e["op"] == "lz":
        return (e["node"] >= 0) + (e["store"] >= 0) + (e["cli"] >= 0) + (256 if e["tokrec"] else 0)
    if e["op"] == "probe":
        return 256 + (1 if e["dig"] else 0) + (1 if e["kind"] == "solved" else 0)
    return 1 + (256 if e.get("hrec") else 0)


def compact(x):
    if isinstance(x, dict):
        return {k: (v if k in ("acc", "hacc", "tok") else compact(v)) for k, v in x.items()}
    if isinstance(x, list) and len(x) > 2 and all(isinstance(v, int) for v in x):
        return "hex:" + bytes(v & 255 for v in x).hex()
    return x


def describe(e):
    if e["op"] == "lz":
        return "digest %s: counters node=%s store=%s cli=%s, digest_meets_difficulty true for %d difficulties" % (
            bytes(e["dig"]).hex(), e["node"], e["store"], e["cli"], len(e["tok"]))
    if e["op"] == "probe":
        return "%s/%s %s%s at solver difficulty %d, nonce %s: validator accepts difficulties %s" % (
            e["surface"], e["impl"], e["kind"], ("(%s %s)" % (e["field"], e["variant"])) if e["field"] else "", e["d0"], bytes(e["nonce"]).hex(),
            ("0..%d" % max(e["acc"])) if e["acc"] == list(range(len(e["acc"]))) and e["acc"] else str(e["acc"]))
    return "token/%s %s%s d=%d max=%d: %s" % (e["impl"], e["kind"], ("(%s %s)" % (e["field"], e["variant"])) if e["field"] else "", e["d0"], e["max"],
                                            ("nonce %d" % e["n"]) if e["found"] else "no nonce")


def report(chk, res, events, lines, label):
    for v in res.get("viol", []):
        e = events[v["l"] - 1]
        src = e.get("src", 0)
        rl = ["# failing event (trace line %d, script line %d, case class %s); clauses %s" % (v["l"], src, json.dumps(classify(e)), ",".join(v["clause"])),
              "# event: " + json.dumps(compact(e))[:1800], lines[src - 1] if 0 < src <= len(lines) else "# (script line unknown)"]
        for cl in v["clause"]:
            chk.report(cl, "%s clause %s fails on the real code (%s; e.g. %s)" % (chk.pid, cl, label, describe(e)), rl, replay_name=cl)


def check_not_vacuous(st, events, tier, nwit):
    need = (("lz", 771 + 60), ("probes", 90), ("solved", 18), ("clisolved", 4), ("refacc", 25), ("refrej", 50), ("muts", 40), ("mutrej", 38),
            ("digs", 90), ("over24", nwit), ("capwit", 1 if nwit else 0), ("tok", 20), ("toksearch", 4), ("tokmuts", 9), ("tokmutrej", 3), ("lzacc", 771 * 100))
    for k, lo in need:
        if st.get(k, 0) < lo:
            raise MachineryError("vacuity: only %d '%s' reached the reference (need >= %d); stats=%s" % (st.get(k, 0), k, lo, st))
    for key in (("handshake", "node"), ("handshake", "cli"), ("announce", "node"), ("store", "lib")):
        n = sum(1 for e in events if e["op"] == "probe" and (e["surface"], e["impl"]) == key and e["kind"] == "solved" and e["found"] == 1 and e["d0"] >= 6)
        if n < 3:
            raise MachineryError("vacuity: solver of %s/%s returned only %d nonces at difficulty >= 6" % (key + (n,)))
    for impl in ("lib", "cli"):
        n = sum(1 for e in events if e["op"] == "tok" and e["impl"] == impl and e["kind"] == "solved" and e["found"] == 1 and e["d0"] >= 1)
        if n < 2:
            raise MachineryError("vacuity: token solver (%s) returned only %d nonces" % (impl, n))


def run(chk):
    chk.level = "exploration"
    chk.cov["rule"] = ("counters: every digest with exactly z leading zero bits, z in 0..256, x 3 tail fillings (zeros, ones, VERIF_SEED-random) plus random and edge "
                       "digests, each put to all three counters and to digest_meets_difficulty at every difficulty 0..255; validators: structured difficulties + "
                       "VERIF_SEED-random field values (ids, 32-bit keys incl. high bit, endpoints, manifest URIs, shard lists, TTLs incl. negative / > 2^32, sizes up "
                       "to 2^64-1, file names incl. empty), the real solver's nonce, nonce+1, nonce-1, every field mutated once (bit flip / append / drop / boundary "
                       "shift), random nonces and pre-mined 24-bit witnesses, each probed at ALL 256 difficulties; token: solver search results incl. exhaustive "
                       "re-decision of every skipped nonce at difficulties 1..4. TLC recomputes every digest from the logged fields (spec/Pow.tla over spec/Sha256.tla). "
                       "One case class = (event kind, surface, implementation, probe kind, mutated field+variant, accepted at the solver difficulty, leading-zero "
                       "class); distinct_nontrivial = number of distinct classes among the validated events")
    r = vlib.mc("PowLemmas", "MC_Pow.cfg", workers=8, timeout=900, heap="1g")
    chk.add_model("PowLemmas[MC_Pow]: LeadingZeroBits = z, Accept/AcceptCapped <=> z >= d / min(d,24) for every d in 0..255, monotone, prefix-only; z in 0..256 x 4 fillings", r,
                  "invariants L_LZ L_Accept L_Monotone L_Prefix (one state per synthetic digest + 8 lane-start states); layout vectors of the four encodings as ASSUMEs")
    lines = gen_cases(chk.rng, chk.tier)
    events, res, lines = execute(chk, lines, "all")
    st = res.get("stats", {})
    ncases = len(lines)
    chk.add_traces(ncases, sum(calls(e) for e in events), res, "%d script cases -> %d events (node/library + CLI executables)" % (ncases, len(events)))
    for e in events:
        chk.nontrivial(classify(e))
    picks = [next((e for e in events if e["op"] == "probe" and e["kind"] == k), None) for k in ("solved", "mut", "witness")] + \
            [next((e for e in events if e["op"] == "tok"), None), next((e for e in events if e["op"] == "lz" and e["node"] == 13), None)]
    for e in picks:
        if e:
            chk.sample({"case_class": classify(e), "script_line": lines[e["src"] - 1][:400], "event": compact(e)})
    log("[trace] C19: %d events from %d cases, %d failing events, reference stats %s, TLC %.1fs" % (len(events), ncases, st.get("nviol", 0), {k: v for k, v in st.items() if v}, res["wall"]))
    report(chk, res, events, lines, "structured+random")
    check_not_vacuous(st, events, chk.tier, len(WITNESSES))
    chk.assumptions += [
        "the oracle is the TLA+ reference: spec/Pow.tla (field layouts restated in its header, pinned by layout vectors in spec/PowLemmas.tla) over spec/Sha256.tla (FIPS 180-4 vectors as ASSUMEs)",
        "exploration, not proof: all inputs listed in the rule, not all field values / nonces; solved difficulties 0..12 (quick) / 0..18 (thorough; a solver may give up within its 500000 attempts above 16, which the statement allows) plus pre-mined 24-bit witnesses",
        "the bootstrap-token surface has no validator in the code besides the solver's own search; it is observed through solve_token_challenge / the CLI's compute_bootstrap_token "
        "(result n => n accepted and 0..n-1 rejected) and through digest_meets_difficulty on digests of material composed by the harness",
        "handshake / announce difficulties above 24: the node clamps its configuration (sanitize_config) and the validator functions are uncapped; a verdict is accepted as right if it "
        "is right for either placement of the cap. Store: store_pow_valid / compute_store_pow cap at 24 (the code's cap) and the reference demands exactly that",
        "the CLI's STORE command calls the library's compute_store_pow (no CLI copy exists); node-level use of the configured difficulties is the business of C20/C21",
    ]


def replay(chk, path):
    chk.level = "exploration"
    lines = [l.strip() for l in open(path) if l.strip() and not l.startswith("#")]
    if not lines:
        raise MachineryError("replay file has no script line")
    events, res, lines = execute(chk, lines, "replay")
    chk.add_traces(len(lines), sum(calls(e) for e in events), res, "replay " + path)
    for e in events:
        chk.nontrivial(classify(e))
    report(chk, res, events, lines, "replay")
