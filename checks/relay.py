"""Relay machinery shared by C25 and C26 (spec/Relay*.tla, harness/relay.cpp).

pipeline: TLC checks design => contract on spec/Relay.tla (+ deviation and vacuity configs) -> the state cover of
the model (hist per distinct state, VIEW/-dump), of the as-found variant of the model, a transition cover and seeded
random / out-of-protocol behaviours become scripts -> harness/relay.cpp replays them on the REAL RelayServer
(single-threaded, socketpairs, real EventLoop::run batch by batch) -> TLC validates the recorded ndjson trace against
the contract (spec/RelayTrace.tla)."""
import json, os, re
import vlib
from vlib import log

INV_C25 = "C25_OnlyPartner C25_NoRelayBeforeBridge C25_InOrderNoLoss C25_SingleClaim C25_Symmetric C25_PartnerDisconnected"
INV_C26 = "C26_Released C26_NeverHangs"
DEV = {"C25": (("dev_rereg_claim", "C25_SingleClaim"), ("dev_rereg_misroute", "C25_OnlyPartner"),
               ("dev_rereg_prebridge", "C25_NoRelayBeforeBridge"), ("dev_rereg_partner", "C25_PartnerDisconnected")),
       "C26": (("dev_rereg_hang", "C26_NeverHangs"),)}
REACH = {"C25": ("ReRegisterWhileClaimed", "ReRegisterRefused", "BridgeDataBothWays", "FragmentedIdentity", "SurplusDelivered",
                 "DisconnectMidIdentity", "TargetLeavesWhileClaimed", "DuplicateIds", "SelfConnect", "DataBeforeBegin", "BridgedSideLeaves",
                 "ConnectorLeavesTargetBack"),
         "C26": ("AllGoneAfterBridge", "DisconnectMidIdentity", "TargetLeavesWhileClaimed", "BridgedSideLeaves", "DuplicateIds")}
THIRDS = [0, 11, 22, 32]
SPELLED = []     # state-cover histories of MC_Relay_spelling.cfg that contain a differently spelled CONNECT


def model_check(chk, thorough):
    """design => contract; returns the state-cover histories of the model and of its as-found variant"""
    r, hists = vlib.dump_hists("Relay", "MC_Relay.cfg", workers=vlib.NCPU, timeout=2400)
    chk.add_model("Relay design=>contract, 3 clients x 2 ids, exhaustive (REGISTER/CONNECT/identity in 1-3 fragments/pipelined "
                  "identity+data/data/other lines/disconnect at every stage)", r, "invariants " + INV_C25 + " " + INV_C26 + " D_RegistryConsistent")
    # the code as found (REGISTER accepted from a claimed peer) must violate the contract in the model
    # (the counterexample TLC prints is kept as a witness history: it is replayed on the real server in every run)
    witnesses = []
    for cfg, inv in (DEV[chk.pid] if thorough else DEV[chk.pid][:2]):
        rd = vlib.mc("Relay", "MC_Relay_%s.cfg" % cfg, expect_violation=inv, workers=8, timeout=1500)
        w = last_hist(rd.out)
        if not w:
            raise vlib.MachineryError("no counterexample history in the output of MC_Relay_%s.cfg" % cfg)
        witnesses.append(w)
    # vacuity: every scenario the invariants are about is reachable (one run, ReachAll prints the names it meets)
    rr = vlib.mc("Relay", "MC_Relay_reach.cfg", workers=8, timeout=1800)
    seen = set(re.findall(r'<<"REACHED", "(\w+)">>', rr.out))
    missing = [x for x in REACH[chk.pid] if x not in seen]
    if missing:
        raise vlib.MachineryError("vacuity: scenarios never reached in MC_Relay_reach.cfg: %s" % ", ".join(missing))
    chk.cov["scenarios_reached_in_model"] = sorted(seen)
    if thorough:
        for name in ("ReRegisterWhileClaimed", "BridgeDataBothWays", "SurplusDelivered"):
            vlib.mc("Relay", "MC_Relay_reach_%s.cfg" % name, expect_violation="Reach_" + name, workers=4, timeout=900)
    # the model of the code as found (REGISTER accepted while claimed), no invariants: its state cover supplies the
    # histories that run through the deviation, whatever the tree under test does with them
    r2, hists2 = vlib.dump_hists("Relay", "MC_Relay_gen_rereg.cfg", workers=vlib.NCPU, timeout=2400)
    chk.add_model("Relay as-found variant (REGISTER accepted while claimed), state cover only, <= 9 steps", r2, "no invariants: sequence generation")
    if chk.pid == "C25":
        # CONNECTs that spell the target differently from the registry key: refused by the code (model: AltSpelling = "refuse");
        # looking the canonical id up while erasing the typed text keeps a claimed peer listed (deviation, C25_SingleClaim)
        r4, hists4 = vlib.dump_hists("Relay", "MC_Relay_spelling.cfg", workers=vlib.NCPU, timeout=2400)
        chk.add_model("Relay design=>contract with differently spelled CONNECT targets, 3 clients x 2 ids, <= 8 client steps", r4, "bounded")
        rd = vlib.mc("Relay", "MC_Relay_dev_spelling.cfg", expect_violation="C25_SingleClaim", workers=8, timeout=1500)
        w = last_hist(rd.out)
        if not w:
            raise vlib.MachineryError("no counterexample history in the output of MC_Relay_dev_spelling.cfg")
        witnesses.append(w)
        SPELLED[:] = [h for h in hists4 if any(a.get("alt") for a in h)]
    if thorough:
        r3 = vlib.mc("Relay", "MC_Relay_thorough.cfg", workers=vlib.NCPU, timeout=2400)
        chk.add_model("Relay design=>contract, 4 clients x 2 ids, <= 10 client steps", r3, "bounded")
    return hists, hists2, witnesses


def last_hist(out):
    """the value of hist in the last state of the error trace TLC printed"""
    i = out.rfind("/\\ hist = ")
    if i < 0:
        return None
    txt = out[i + len("/\\ hist = "):]
    m = re.search(r"\n(/\\ |\s*\n|State \d+|Error|\d+ states generated)", txt)
    return vlib.parse_tla((txt[:m.start()] if m else txt).strip())


# ---- model history -> script --------------------------------------------------------------------------
class Gen:
    """tracks what the clients of one behaviour have sent so that every line is well formed"""

    def __init__(self, n, rng):
        self.n, self.rng = n, rng
        self.lines = ["reset n=%d" % n]
        self.third = {}
        self.tok = {}
        self.open, self.closed = set(), set()

    def nexttok(self, c):
        self.tok[c] = self.tok.get(c, 0) + 1
        return self.tok[c]

    def act(self, a):
        op, c, rng = a["op"], a["c"], self.rng
        if op == "open":
            self.lines.append("open c=%d" % c)
            self.open.add(c)
        elif op == "reg":
            self.lines.append("send c=%d p=%s:%d" % (c, "regcr" if rng.random() < 0.15 else "reg", a["i"]))
        elif op == "con":
            # alt: the target's id spelled in upper / mixed case (the same peer id, not the registry's own text)
            kind = rng.choice(["conU", "conM"]) if a.get("alt") else "concr" if rng.random() < 0.15 else "con"
            p = "%s:%d:%d" % (kind, a["i"] if a.get("self") else 100 + c, a["i"])
            if a.get("pipe", 0) >= 1:
                p += ",id:0:32"
                self.third[c] = 3
            if a.get("pipe", 0) == 2:
                p += ",tok:%d" % self.nexttok(c)
            if a.get("pipe", 0) == 3:      # identity and a bulk payload in one write: the relay needs several reads in the wake-up that bridges
                p += ",%s,tok:%d" % (self.bulk(), self.nexttok(c))
            self.lines.append("send c=%d p=%s" % (c, p))
        elif op == "id":
            f = self.third.get(c, 0)
            t = min(3, f + a["n"])
            self.third[c] = t
            p = "id:%d:%d" % (THIRDS[f], THIRDS[t])
            if a.get("plus"):
                p += ",tok:%d" % self.nexttok(c)
                if a.get("plus") == 2:
                    p += ",%s,tok:%d" % (self.bulk(), self.nexttok(c))
            self.lines.append("send c=%d p=%s" % (c, p))
        elif op == "data":
            if a.get("bulk"):
                self.lines.append("send c=%d p=tok:%d,%s,tok:%d" % (c, self.nexttok(c), self.bulk(), self.nexttok(c)))
            else:
                self.lines.append("send c=%d p=tok:%d" % (c, self.nexttok(c)))
        elif op == "misc":
            self.lines.append("send c=%d p=%s" % (c, a.get("kind", "unk")))
        elif op == "close":
            self.lines.append("%s c=%d" % ("shutwr" if rng.random() < 0.2 else "close", c))
            self.closed.add(c)

    def bulk(self):
        return "raw:bin:%d:%d" % (self.rng.choice([4040, 4056, 4064, 4065, 4100, 8192, 9000, 20000, 70000]), self.rng.randrange(1 << 16))

    def live(self):
        return sorted(self.open - self.closed)

    def done(self):
        return self.lines + ["final"]


def hist_to_script(h, rng, n=3):
    g = Gen(n, rng)
    for a in h:
        g.act(a)
    return g


def random_action(g, rng, ids=(1, 2)):
    """one more client step, whatever the clients did before (the relay must cope with all of it)"""
    unopened = [c for c in range(1, g.n + 1) if c not in g.open]
    live = g.live()
    if unopened and (not live or rng.random() < 0.25):
        return {"op": "open", "c": unopened[0]}
    if not live:
        return None
    c = rng.choice(live)
    x = rng.random()
    if x < 0.22:
        return {"op": "reg", "c": c, "i": rng.choice(ids)}
    if x < 0.42:
        return {"op": "con", "c": c, "i": rng.choice(ids), "self": rng.random() < 0.1, "pipe": rng.choice([0, 0, 1, 2, 3]), "alt": rng.random() < 0.15}
    if x < 0.60:
        return {"op": "id", "c": c, "n": rng.choice([1, 2, 3]), "plus": rng.choice([0, 0, 0, 0, 1, 1, 2])}
    if x < 0.80:
        return {"op": "data", "c": c, "bulk": rng.random() < 0.12}
    if x < 0.90:
        return {"op": "misc", "c": c, "kind": rng.choice(["unk", "pong", "empty", "crlf", "ping", "regbad"])}
    return {"op": "close", "c": c}


def transition_cover(hists, rng, count, n=3):
    """state-cover path + every kind of next step (also the ones the model treats as self-loops: refused or ignored
    commands, PONG, empty lines) + a few random steps + one data token from every client still connected"""
    out = []
    paths = rng.sample(hists, min(len(hists), count))
    for h in paths:
        g0 = hist_to_script(h, rng, n)
        if not g0.live() and len(g0.open) == n:
            continue
        g = hist_to_script(h, rng, n)
        for _ in range(rng.randint(1, 4)):
            a = random_action(g, rng)
            if a:
                g.act(a)
        for c in g.live():
            g.act({"op": "data", "c": c})
        out.append(g.done())
    return out


def random_behaviours(rng, count, garbage=False):
    """seeded random behaviours: more clients and ids than the model, identity cut at arbitrary bytes, writes delivered to
    the server in small pieces, re-REGISTER / CONNECT / data at any time; with garbage: byte streams outside the protocol"""
    out = []
    for _ in range(count):
        n = rng.randint(2, 6)
        ids = list(range(1, rng.randint(2, 4)))
        g = Gen(n, rng)
        idoff = {}
        huge = 0
        for _ in range(rng.randint(4, 28)):
            a = random_action(g, rng, ids)
            if not a:
                break
            c = a["c"]
            if a["op"] == "id":
                f = idoff.get(c, 0)
                if f >= 32:
                    a = {"op": "data", "c": c}
                else:
                    t = min(32, f + rng.choice([1, 5, 10, 16, 31, 32]))
                    idoff[c] = t
                    p = "id:%d:%d" % (f, t)
                    if t == 32 and rng.random() < 0.4:
                        p += ",tok:%d" % g.nexttok(c)
                        if rng.random() < 0.4:
                            p += ",%s,tok:%d" % (g.bulk(), g.nexttok(c))
                    g.lines.append("send c=%d p=%s%s" % (c, p, " split=%d" % rng.choice([1, 3, 7]) if rng.random() < 0.2 else ""))
                    continue
            if a["op"] == "con" and a.get("pipe", 0) >= 1:
                idoff[c] = 32
            if garbage and rng.random() < 0.45 and c in g.live():
                kind = rng.choice(["nul", "bin", "binnl", "line", "noline", "regline", "connline", "spaces", "idfrag", "hex"])
                if kind == "idfrag":
                    p = "raw:bin:%d:%d" % (rng.choice([1, 7, 31, 32, 33, 64]), rng.randrange(1 << 16))
                elif kind == "hex":
                    p = "hex:" + rng.choice(["0d0a", "00", "0a0a0a", "ff00ff0a", "434f4e4e454354200a", "5245474953544552200a", "0204", "4f4b0a", "424547494e20780a"])
                else:
                    ln = rng.choice([0, 1, 63, 64, 65, 4095, 4096, 4097, 70000, 1048576]) if rng.random() < 0.5 else rng.randint(0, 300)
                    if ln >= 70000:
                        huge += 1
                        if huge > 2:      # what the server legitimately buffers stays far below the driver's heap limit
                            ln = 4097
                    p = "raw:%s:%d:%d" % (kind, ln, rng.randrange(1 << 16))
                g.lines.append("send c=%d p=%s%s" % (c, p, " split=%d" % rng.choice([1, 5, 4096, 65536]) if rng.random() < 0.15 and "1048576" not in p and "70000" not in p else ""))
                continue
            g.act(a)
            if a["op"] in ("reg", "con", "data", "misc") and rng.random() < 0.12:
                g.lines[-1] += " split=%d" % rng.choice([1, 2, 9, 40])
        if rng.random() < 0.7:
            order = g.live()
            rng.shuffle(order)
            for c in order[: rng.randint(0, len(order))]:
                g.act({"op": "close", "c": c})
        out.append(g.done())
    return out


def flow_behaviours(chk, rng, count):
    """spec/RelayFlow.tla: the byte pipeline of one bridge direction (conservation of what was sent across the kernel queues, the relay's
    write buffer and a receiver that stalls).  TLC checks conservation / order for the code's unbounded buffering and for a back-pressure
    design, progress under fairness, and that the dropping and the never-resuming designs are refuted; the client-visible steps of its
    state cover (send one unit, stall, unstall) are replayed on the real relay with units of 150-400 KB"""
    import sched
    r, hists = vlib.dump_hists("RelayFlow", "MC_RelayFlow_unbounded.cfg", workers=4, timeout=600)
    chk.add_model("RelayFlow as coded (unbounded relay buffer), 5 units, kernel queues of 1 unit: C25_Conservation, C25_InOrder", r)
    r2 = vlib.mc("RelayFlow", "MC_RelayFlow_hold.cfg", workers=4, timeout=600)
    chk.add_model("RelayFlow with back-pressure (cap 2, resume at half): conservation, order, bounded backlog", r2)
    vlib.mc("RelayFlow", "MC_RelayFlow_dev_drop.cfg", expect_violation="C25_Conservation", workers=2, timeout=600)
    vlib.mc("RelayFlow", "MC_RelayFlow_reach_paused.cfg", expect_violation="Reach_Paused", workers=2, timeout=600)
    vlib.mc("RelayFlow", "MC_RelayFlow_reach_backlog.cfg", expect_violation="Reach_StalledBacklog", workers=2, timeout=600)
    sched.live(chk, "RelayFlow", "MC_RelayFlow_live_unbounded.cfg", workers=2)
    sched.live(chk, "RelayFlow", "MC_RelayFlow_live_hold.cfg", workers=2)
    sched.live(chk, "RelayFlow", "MC_RelayFlow_dev_noresume_live.cfg", expect_violation=True, workers=2)
    seqs = set()
    for h in hists:
        vis = tuple(a["op"] for a in h if a["op"] in ("send", "stall", "unstall"))
        if vis.count("send") >= 3 and "stall" in vis:
            seqs.add(vis)
    seqs = sorted(seqs)
    pick = rng.sample(seqs, min(len(seqs), count))
    out = []
    for vis in pick:
        unit = rng.choice([150000, 250000, 400000])
        lines = ["reset n=2", "open c=1", "open c=2", "send c=1 p=reg:1", "send c=2 p=con:102:1,id:0:32,tok:1"]
        tok = 1
        stalled = False
        for op in vis:
            if op == "send":
                tok += 1
                lines.append("send c=2 p=raw:bin:%d:%d,tok:%d" % (unit, rng.randrange(1 << 16), tok))
            else:
                stalled = op == "stall"
                lines.append("%s c=1" % op)
        if stalled:
            lines.append("unstall c=1")
        lines += ["send c=2 p=tok:%d" % (tok + 1), "send c=1 p=tok:1", "final"]
        out.append(lines)
    return out


def stalled_receiver_behaviours(rng, count):
    """an established bridge whose receiving side stops reading for a while: the relay may buffer, slow the sender down or close the
    bridge, but as long as both stay connected everything sent must arrive, in order, once the receiver reads again"""
    out = []
    for k in range(count):
        big = rng.choice([300000, 600000, 1500000, 3000000]) if k else 1500000
        back = rng.choice([0, 70000, 900000])
        lines = ["reset n=3", "open c=1", "open c=2", "open c=3", "send c=1 p=reg:1", "send c=3 p=reg:2",
                 "send c=2 p=con:102:1,id:0:32,tok:1", "send c=1 p=tok:1"]
        lines += ["stall c=1", "send c=2 p=tok:2,raw:bin:%d:%d,tok:3%s" % (big, rng.randrange(1 << 16), " split=%d" % rng.choice([65536, 300000]) if rng.random() < 0.5 else "")]
        if rng.random() < 0.5:
            lines.append("send c=2 p=raw:bin:%d:%d,tok:4" % (rng.choice([4096, 100000]), rng.randrange(1 << 16)))
        lines += ["unstall c=1", "send c=2 p=tok:9"]
        if back:
            lines += ["stall c=2", "send c=1 p=tok:2,raw:bin:%d:%d,tok:3" % (back, rng.randrange(1 << 16)), "unstall c=2", "send c=1 p=tok:4"]
        lines += ["send c=3 p=ping"] + (["close c=%d" % rng.choice([1, 2])] if rng.random() < 0.5 else []) + ["final"]
        out.append(lines)
    return out


# ---- run on the real server + validate -------------------------------------------------------------------
SAN_RE = re.compile(r"ERROR: (?:AddressSanitizer|LeakSanitizer): ([A-Za-z0-9_-]+)|(runtime error):|ERROR: (LeakSanitizer): detected")


def run_driver(behaviours, wd, flavour="plain"):
    """replays the behaviours; a driver that dies is restarted on the behaviours that follow the one it died in, and a
    crash event is put into the trace.  returns (events, tracefile)"""
    b = vlib.build("relay", flavour)["relay"]
    trace = os.path.join(wd, "trace.ndjson")
    env = {"RELAY_WATCHDOG_S": "180"}
    if flavour == "asan":
        env.update({"RELAY_DATA_LIMIT_MB": "0", "UBSAN_OPTIONS": "print_stacktrace=1:halt_on_error=1",
                    "ASAN_OPTIONS": "allocator_may_return_null=1:max_allocation_size_mb=96:detect_leaks=0:abort_on_error=0"})
    all_lines = []
    start, rounds, hangs = 0, 0, 0
    while start < len(behaviours) and rounds < 12:
        rounds += 1
        script = os.path.join(wd, "script-%d.txt" % rounds)
        part = os.path.join(wd, "trace-%d.ndjson" % rounds)
        with open(script, "w") as f:
            for lines in behaviours[start:]:
                f.write("\n".join(lines) + "\n")
            f.write("end\n")
        rc, out = vlib.sh([b, script, part], timeout=1500, env=env, check=False)
        lines = [x for x in open(part).read().split("\n") if x.strip()] if os.path.exists(part) else []
        good = []
        for x in lines:          # a line cut short by a dying driver is dropped
            try:
                json.loads(x)
                good.append(x)
            except ValueError:
                pass
        ended = bool(good) and json.loads(good[-1]).get("op") == "end"
        nres = sum(1 for x in good if x.startswith('{"op":"reset"'))
        all_lines += [x for x in good if not x.startswith('{"op":"end"')]
        if ended and rc == 0:
            start = len(behaviours)
            break
        if nres == 0:
            raise vlib.MachineryError("relay driver failed before the first behaviour (rc=%d):\n%s" % (rc, out[-3000:]))
        if not (good and json.loads(good[-1]).get("op") == "crash"):
            m = SAN_RE.search(out)
            if m:
                kind = m.group(1) or ("undefined-behaviour" if m.group(2) else "leak")
                all_lines.append(json.dumps({"op": "crash", "kind": "sanitizer", "san": kind, "detail": out[-1500:]}))
            else:
                all_lines.append(json.dumps({"op": "crash", "kind": "exit-%d" % rc, "detail": out[-1500:]}))
        log("[driver] %s driver stopped in behaviour %d (rc=%d); resuming after it" % (flavour, start + nres, rc))
        start += nres
        if rc == 70:
            hangs += 1
            if hangs >= 3:       # each hang costs the watchdog's two minutes; three of them settle the matter for this group
                log("[driver] %s: three behaviours hung the server; the remaining %d behaviours of this group are not run" % (flavour, len(behaviours) - start))
                break
    with open(trace, "w") as f:
        f.write("\n".join(all_lines) + "\n")
    return [json.loads(x) for x in all_lines], trace


def report(chk, res, events, behaviours, label):
    """VERIF_RESULT violations -> reports; the replay file holds the script of the failing behaviour (lines without '#')"""
    starts = [i + 1 for i, e in enumerate(events) if e.get("op") == "reset"]
    for v in res.get("viol", []):
        l = v["l"]
        bi = max([k for k, s0 in enumerate(starts) if s0 <= l] or [0])
        lines = ["# failing event (trace line %d of %s, behaviour %d): %s" % (l, label, bi, json.dumps(events[l - 1])[:1500])]
        lines += ["# " + json.dumps(e)[:600] for e in events[starts[bi] - 1:l]] if starts else []
        lines += behaviours[bi] if bi < len(behaviours) else []
        clauses = v["clause"] if isinstance(v["clause"], list) else [v["clause"]]
        for cl in clauses:
            chk.report(cl, "%s contract clause %s fails on an execution of the real relay server (%s)" % (chk.pid, cl, label), lines, replay_name=cl)


def run_and_validate(chk, behaviours, label, flavour="plain", hists=None):
    if not behaviours:
        return None
    wd = vlib.workdir("relay-%s-%s" % (chk.pid, label))
    events, trace = run_driver(behaviours, wd, flavour)
    res = vlib.validate("RelayTrace", trace, timeout=2400)
    nb = sum(1 for e in events if e["op"] == "reset")
    chk.add_traces(nb, len(events), res, "%s (%s build)" % (label, flavour))
    for e in events:
        if e["op"] in ("send", "close", "shutwr", "final"):
            chk.nontrivial([e["op"], [p.get("k") for p in e.get("parts", [])],
                            sorted((d["c"] != e.get("c"), tuple(i["k"] for i in d["items"])) for d in e.get("rxd", [])),
                            len(e.get("eof", [])), e.get("sc"), e.get("rc")])
    if events:
        chk.sample({"source": label, "script": behaviours[0][:16], "first_events": events[:8]})
    report(chk, res, events, behaviours, label)
    st = res.get("stats") or {}
    if label != "replay" and nb >= 100 and not res.get("viol") and (st.get("bridges", 0) == 0 or st.get("tokens", 0) == 0 or st.get("finals", 0) == 0):
        # nothing was ever bridged / relayed / finished: the clauses were vacuous on this trace (e.g. a server that answers nothing)
        raise vlib.MachineryError("vacuous trace validation (%s): %s" % (label, json.dumps(st)))
    drift = None
    if hists is not None:
        drift = model_drift(hists, events)
        chk.cov.setdefault("model_vs_code", []).append({"what": label, "steps_compared": drift[0], "steps_differing": drift[1],
                                                        "first_difference": drift[2]})
    log("[trace] %s/%s: %d behaviours, %d events, %d failing events%s; %s" % (
        label, flavour, nb, len(events), len(res.get("viol", [])),
        "" if drift is None else ", model-vs-code differences %d/%d" % (drift[1], drift[0]), json.dumps(res.get("stats"))))
    return res


def model_drift(hists, events):
    """informational: does the design model predict the reply and the table sizes the real server shows after each step?
    (a difference is not a verdict -- only the contract is -- but it tells when Relay.tla no longer describes the code)"""
    behs = vlib.behaviours_of(events)
    total = diff = 0
    first = None
    for h, (_, evs) in zip(hists, behs):
        steps = [e for e in evs if e["op"] in ("open", "send", "close", "shutwr")]
        if len(steps) != len(h):
            continue
        for a, e in zip(h, steps):
            total += 1
            got_ok = any(d["c"] == a["c"] and any(i["k"] == "ok" for i in d["items"]) for d in e.get("rxd", []))
            bad = (a["sc"], a["rc"]) != (e["sc"], e["rc"]) or (a["op"] in ("reg", "con") and (a["res"] == "ok") != got_ok)
            if bad:
                diff += 1
                if first is None:
                    first = {"model": a, "real": {k: e.get(k) for k in ("op", "c", "parts", "rxd", "sc", "rc")}}
                break
    return total, diff, first


def run(chk):
    thorough = chk.tier == "thorough"
    rng = chk.rng
    hists, hists2, witnesses = model_check(chk, thorough)
    log("[gen] %d state-cover histories of the model, %d of its as-found variant, %d witness histories" % (len(hists), len(hists2), len(witnesses)))
    # named corner cases that are part of every run: TLC's counterexamples of the deviation configs and the as-found
    # histories that end in an identity arriving for a connector whose target is gone (C26: the server must survive it)
    gone_target = [h for h in hists2 if h and h[-1]["op"] in ("id", "con") and h[-1]["res"] == "err" and
                   (h[-1]["op"] == "id" or h[-1].get("pipe", 0) > 0) and len(h) > 1 and h[-1]["sc"] < h[-2]["sc"]]
    corner = witnesses + rng.sample(gone_target, min(len(gone_target), 10 if not thorough else 60))
    run_and_validate(chk, [hist_to_script(h, rng).done() for h in corner] +
                     [hist_to_script(h, rng).lines + ["send c=%d p=tok:9" % c for c in (1, 2, 3)] + ["final"] for h in witnesses], "tlc-witnesses")
    k1, k2 = (1500, 1000) if not thorough else (24000, 16000)
    # the longest as-found histories are the ones that run through the deviation; always keep a good share of them
    h1 = rng.sample(hists, min(len(hists), k1))
    h2s = sorted(hists2, key=len, reverse=True)
    h2 = h2s[: k2 // 2] + rng.sample(h2s[k2 // 2:], min(max(0, len(h2s) - k2 // 2), k2 // 2))
    if chk.pid == "C25":
        run_and_validate(chk, [hist_to_script(h, rng).done() for h in h1], "tlc-state-cover", hists=h1)
        run_and_validate(chk, [hist_to_script(h, rng).done() for h in h2], "tlc-state-cover-as-found-variant")
        run_and_validate(chk, transition_cover(hists + hists2, rng, 800 if not thorough else 12000), "tlc-transition-cover")
        sp = sorted(SPELLED, key=len, reverse=True)
        sp = sp[:300] + rng.sample(sp[300:], min(max(0, len(sp) - 300), 300 if not thorough else 6000))
        run_and_validate(chk, [hist_to_script(h, rng).lines + ["send c=%d p=tok:9" % c for c in (1, 2, 3)] + ["final"] for h in sp], "tlc-state-cover-spelled-targets")
        run_and_validate(chk, random_behaviours(rng, 400 if not thorough else 8000), "random")
        run_and_validate(chk, stalled_receiver_behaviours(rng, 6 if not thorough else 40) + flow_behaviours(chk, rng, 10 if not thorough else 60), "slow-receiver")
    else:
        # C26: same generated executions, plus byte streams outside the protocol; the memory-safety clause is monitored
        # by running them under AddressSanitizer + UBSan as well
        cover = [hist_to_script(h, rng).done() for h in h1[: len(h1) // 2] + h2[: len(h2) // 2]]
        run_and_validate(chk, cover, "tlc-state-cover", hists=None)
        run_and_validate(chk, transition_cover(hists + hists2, rng, 400 if not thorough else 4000), "tlc-transition-cover")
        run_and_validate(chk, random_behaviours(rng, 250 if not thorough else 3000, garbage=True), "out-of-protocol-bytes")
        sub = rng.sample(cover, min(len(cover), 500 if not thorough else 5000))
        run_and_validate(chk, sub + random_behaviours(rng, 100 if not thorough else 2000), "tlc-state-cover+random", "asan")
        run_and_validate(chk, random_behaviours(rng, 200 if not thorough else 2000, garbage=True), "out-of-protocol-bytes", "asan")
    chk.assumptions += [
        "one client step (one write or a disconnect) followed by the server running until idle is atomic: the server is single-threaded and has no timers; the driver executes the real EventLoop::run() one epoll batch at a time until nothing moves",
        "clients are ends of AF_UNIX socketpairs registered with the server by the statements of accept_new_clients() (or the guarded adopt_client hook when present); listen/accept itself is not exercised",
        "relayed bytes are recognised by self-identifying data tokens (sender, sequence number) and by byte totals; replies OK / BEGIN <id> define when a bridge exists",
        "C26 memory-safety clauses are monitored by AddressSanitizer/UBSan on the generated executions; a driver heap limit turns unbounded buffering into a reported crash",
    ]


def replay(chk, path):
    lines = [x.rstrip("\n") for x in open(path) if x.strip() and not x.startswith("#")]
    if not lines or not lines[0].startswith("reset"):
        raise vlib.MachineryError("replay file has no script: " + path)
    run_and_validate(chk, [lines], "replay")
