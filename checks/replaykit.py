"""replay of a failing behaviour for the checks built on the chunkstore / nodettl / system drivers (C01-C05): the replay file
carries the script of the behaviour (SCRIPT lines, see vlib.report_trace_violations); it is executed again on the real code
built from the current tree and the recorded trace is validated against the same trace specification."""
import vlib


def replay(chk, path):
    harness, lines = vlib.read_replay(path)
    if harness.startswith("chunkstore"):
        import chunk
        chunk.run_and_validate(chk, [lines], "replay", crash=harness.endswith("crash"))
    elif harness == "system":
        import system
        system.execute(chk, [lines], 3 if any(" n=3" in ln for ln in lines[:1]) else 2)
    elif harness == "nodettl":
        import nodettl
        nodettl.run_driver(chk, [lines], "replay")
    else:
        raise vlib.MachineryError("replay file %s names no known driver (%r); the live traces of the repository's own tests are "
                                  "re-recorded by running the check itself" % (path, harness))
