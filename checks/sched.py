"""Upload scheduler (C23) and fetch scheduler (C24) of a real Node:
spec/Uploads*.tla, spec/Fetches*.tla, harness/sched.cpp."""
import os, re, json
import vlib
from vlib import log

TICK_MS = 1000          # one model time unit
UPLOAD = dict(module="Uploads", trace="UploadsTrace", timeout=2, mortal_life=2)
FETCH = dict(module="Fetches", trace="FetchesTrace", binit=1, bmax=4, succ=2)
LIFE = {"quick": {1: 6, 2: 4}, "thorough": {1: 8, 2: 6}}


# ------------------------------------------------------------------------------------------
# TLC helpers
def live(chk, module, cfg, expect_violation=False, timeout=900, workers=6):
    """liveness run (own TLC invocation: vlib.tlc only knows one wording of TLC's temporal-violation message)"""
    import shutil, time
    meta = vlib.workdir("tlc-%s-%s-%d" % (module, cfg.replace(".cfg", ""), os.getpid()))
    cmd = ["java", "-XX:+UseParallelGC", "-Xmx6g", "-cp", vlib.TLA_CP, "tlc2.TLC", "-workers", str(workers), "-metadir", os.path.join(meta, "states"),
           "-noGenerateSpecTE", "-config", cfg, module + ".tla"]
    t0 = time.time()
    rc, out = vlib.sh(cmd, timeout=timeout, cwd=vlib.SPEC, check=False)
    r = vlib.TlcOut(out, rc, time.time() - t0)
    shutil.rmtree(meta, ignore_errors=True)
    violated = re.search(r"Temporal propert(y|ies)\b.*(was|were) violated", out) is not None
    if not violated and ("Error:" in out or not r.completed or r.distinct == 0):
        raise vlib.MachineryError("TLC liveness run failed %s/%s:\n%s" % (module, cfg, out[-3000:]))
    if expect_violation:
        if not violated:
            raise vlib.MachineryError("vacuity: %s/%s expected a liveness violation\n%s" % (module, cfg, out[-2000:]))
        log("[tlc] %s %s: liveness violated as expected (deviation), %.1fs" % (module, cfg, r.dt))
        return None
    if violated:
        r.violated = "liveness"
        raise vlib.ModelViolation(module, cfg, r)
    log("[tlc] %s %s: liveness holds, %d distinct states, %.1fs" % (module, cfg, r.distinct, r.dt))
    chk.add_model("%s liveness (%s)" % (module, cfg), r, "fair ticks and clock; temporal properties hold")
    return r


_REC = re.compile(r"\[([^\[\]]*)\]")
_FLD = re.compile(r"(\w+) \|-> (?:\"(\w*)\"|(-?\d+)|(TRUE|FALSE))")


def dump_hists(module, cfg, rng, limit, **kw):
    """model-check with -dump; return (TlcOut, sample of action histories (lists of dicts), number of states)"""
    import shutil
    wd = vlib.workdir("dump-%s-%s-%d" % (module, cfg.replace(".cfg", ""), os.getpid()))
    dumpf = os.path.join(wd, "dump")
    r = vlib.mc(module, cfg, extra=["-dump", dumpf], wd=wd, **kw)
    path = dumpf + ".dump" if os.path.exists(dumpf + ".dump") else dumpf
    # stream the dump: reservoir-sample the hist values (one per distinct state)
    picked, n, cur = [], 0, None

    def done(text):
        nonlocal n
        n += 1
        if len(picked) < limit:
            picked.append(text)
        else:
            j = rng.randrange(n)
            if j < limit:
                picked[j] = text
    with open(path) as f:
        for line in f:
            if line.startswith("/\\ hist = "):
                cur = [line[len("/\\ hist = "):]]
            elif cur is not None:
                if line.startswith("/\\ ") or line.startswith("State ") or not line.strip():
                    done("".join(cur))
                    cur = None
                else:
                    cur.append(line)
    if cur is not None:
        done("".join(cur))
    shutil.rmtree(wd, ignore_errors=True)
    if n == 0:
        raise vlib.MachineryError("no states in TLC dump of %s/%s" % (module, cfg))
    hists = []
    for text in picked:
        h = []
        for rec in _REC.findall(text):
            d = {}
            for k, sv, iv, bl in _FLD.findall(rec):
                d[k] = int(iv) if iv else (bl == "TRUE") if bl else sv
            h.append(d)
        hists.append(h)
    return r, hists, n


# ------------------------------------------------------------------------------------------
# scripts
def upload_script(h, settle=True, flip=[0], stagger=False):
    cfg = h[0]
    if stagger:    # MC_Uploads_stagger.cfg: one peer, four immortal chunks, per-peer limit 2, time-out 3
        lines = ["reset mode=up peers=1 chunks=4 maxpar=%d perpeer=%d uto=3 recon=0" % (cfg["maxpar"], cfg["perpeer"]), "peer p=1"] + ["store c=%d ttl=3600" % c for c in (1, 2, 3, 4)]
    else:
        lines = ["reset mode=up peers=2 chunks=3 maxpar=%d perpeer=%d uto=%d recon=0" % (cfg["maxpar"], cfg["perpeer"], UPLOAD["timeout"]),
                 "peer p=1", "peer p=2", "store c=1 ttl=3600", "store c=2 ttl=%d" % UPLOAD["mortal_life"]]
    for a in h[1:]:
        op = a["op"]
        if op == "req":
            lines.append("req p=%d c=%d" % (a["p"], a["c"]))
        elif op == "ack":
            flip[0] ^= 1
            lines.append("ack p=%d c=%d ok=%d" % (a["p"], a["c"], flip[0]))
        elif op == "tick":
            lines.append("tick")
        elif op == "adv":
            lines.append("adv ms=%d" % TICK_MS)
        elif op == "unlink":
            lines.append("link p=%d up=0" % a["p"])
    if settle:
        lines += ["tick", "adv ms=%d" % ((UPLOAD["timeout"] + 2) * TICK_MS), "tick"]
    return lines


def deferred_expiry_behaviours(rng):
    """a request deferred behind a saturated limit whose chunk expires while it waits: when the slot frees (acknowledgement, time-out at a tick)
    the request can no longer be served and the peer must get its negative acknowledgement"""
    out = []
    for maxpar, perpeer in ((1, 1), (1, 0), (2, 1), (0, 1)):
        for release in ("ack", "timeout"):
            for ttl, wait in ((2, 2300), (3, 3000), (5, 9000)):
                uto = 0 if release == "ack" else 4
                lines = ["reset mode=up peers=3 chunks=4 maxpar=%d perpeer=%d uto=%d recon=0" % (maxpar, perpeer, uto), "peer p=1", "peer p=2", "peer p=3",
                         "store c=1 ttl=3600", "store c=2 ttl=%d" % ttl, "store c=3 ttl=3600"]
                if perpeer and not maxpar:          # per-peer limit only: the same peer asks for two chunks
                    lines += ["req p=1 c=1", "req p=1 c=2"]
                    holder, waiter = 1, 1
                else:
                    lines += ["req p=1 c=1"] + (["req p=3 c=3"] if maxpar == 2 else []) + ["req p=2 c=2"]
                    holder, waiter = 1, 2
                lines += ["adv ms=%d" % wait, "tick"]
                lines += ["ack p=%d c=1 ok=1" % holder] if release == "ack" else ["adv ms=%d" % (uto * 1000), "tick", "adv ms=1", "tick"]
                if maxpar == 2:
                    lines += ["ack p=3 c=3 ok=1"]
                lines += ["tick", "req p=%d c=3" % waiter, "tick"]
                out.append(lines)
    return out


def stagger_upload_behaviours(rng, n):
    """directed family: one peer keeps several uploads of different ages in flight; the clock stops where only the older ones have reached
    the time-out, the scheduler runs (tick / request / ack), and the peer asks for more -- the per-peer limit must count the younger ones"""
    out = []
    for _ in range(n):
        per, uto, chunks = rng.choice([2, 2, 3]), rng.choice([2, 3, 4]), 8
        lines = ["reset mode=up peers=%d chunks=%d maxpar=%d perpeer=%d uto=%d recon=%d" % (rng.choice([1, 2]), chunks, rng.choice([0, 0, per + 2, 6]), per, uto, rng.choice([0, 0, 1])), "peer p=1"]
        if "peers=2" in lines[0]:
            lines.append("peer p=2")
        lines += ["store c=%d ttl=3600" % c for c in range(1, chunks + 1)]
        free = list(range(1, chunks + 1))
        rng.shuffle(free)
        started = []        # (chunk, start ms)
        now = 0
        for _ in range(per):
            c = free.pop()
            lines.append("req p=1 c=%d" % c)
            started.append((c, now))
            d = rng.choice([300, 700, 1000, 1500])
            now += d
            lines.append("adv ms=%d" % d)
        # stop the clock where the oldest has timed out and the youngest has not
        oldest, youngest = started[0][1], started[-1][1]
        lo, hi = oldest + uto * 1000, youngest + uto * 1000 - 1
        if hi > max(lo, now):
            t = rng.randint(max(lo, now), hi)
            lines.append("adv ms=%d" % (t - now))
            now = t
        lines.append(rng.choice(["tick", "tick", "req p=1 c=%d" % free.pop(), "ack p=1 c=%d ok=1" % started[0][0]]))
        for _ in range(rng.randint(2, 4)):
            if free:
                lines.append("req p=1 c=%d" % free.pop())
            if rng.random() < 0.3:
                lines.append("tick")
        for c, _ in started[1:]:
            if rng.random() < 0.5:
                lines.append("ack p=1 c=%d ok=1" % c)
        lines += ["tick", "adv ms=%d" % ((uto + 1) * 1000 + 1), "tick"]
        out.append(lines)
    return out


UPLOAD_EXT = ["req p=1 c=1", "req p=1 c=2", "req p=2 c=1", "req p=2 c=3", "ack p=1 c=1 ok=1", "ack p=2 c=1 ok=0", "tick", "adv ms=1000", "adv ms=2000", "link p=2 up=0"]


def fetch_script(h, life, settle=True):
    cfg = h[0]
    lines = ["reset mode=fe peers=2 chunks=2 flimit=%d alimit=%d binit=%d bmax=%d succ=%d" % (cfg["flimit"], cfg["alimit"], FETCH["binit"], FETCH["bmax"], FETCH["succ"]),
             "peer p=1", "peer p=2"] + ["src c=%d ttl=%d" % (c, life[c]) for c in sorted(life)]
    now = 0
    last_ann = {}
    for a in h[1:]:
        op = a["op"]
        if op == "ann":
            # the announce handler throttles a sender to one announce per second (C21's business):
            # a second announce of the same provider within that second goes straight to schedule_assigned_fetch
            direct = 1 if now - last_ann.get(a["p"], -10 ** 9) < 1000 else 0
            last_ann[a["p"]] = now
            lines.append("ann p=%d c=%d direct=%d" % (a["p"], a["c"], direct))
        elif op == "chunk":
            lines.append("chunk p=%d c=%d good=%d" % (a["p"], a["c"], 1 if a["good"] else 0))
        elif op == "tick":
            lines.append("tick")
        elif op == "adv":
            now += TICK_MS
            lines.append("adv ms=%d" % TICK_MS)
        elif op == "link":
            lines.append("link p=%d up=%d" % (a["p"], 1 if a["up"] else 0))
    if settle:
        lines += ["tick", "adv ms=%d" % ((FETCH["succ"] + 1) * TICK_MS), "tick"]
    return lines


FETCH_EXT = ["ann p=1 c=1 direct=1", "ann p=2 c=1 direct=1", "ann p=1 c=2 direct=1", "chunk p=1 c=1 good=1", "chunk p=2 c=1 good=0", "chunk p=1 c=2 good=1",
             "tick", "adv ms=1000", "adv ms=2000", "link p=1 up=0", "link p=1 up=1", "store c=1 ttl=3600"]


def random_upload_behaviours(rng, n):
    out = []
    for _ in range(n):
        peers, chunks = rng.randint(1, 4), rng.randint(2, 6)
        uto = rng.choice([0, 1, 2, 2, 3, 5, 30])
        lines = ["reset mode=up peers=%d chunks=%d maxpar=%d perpeer=%d uto=%d recon=%d" % (peers, chunks, rng.choice([0, 1, 1, 2, 2, 3, 5]), rng.choice([0, 1, 1, 2, 2, 3]),
                                                                                    uto, rng.choice([0, 0, 1, 2]))]
        for p in range(1, peers + 1):
            r = rng.random()
            lines.append("peer p=%d key=%d link=%d" % (p, 0 if r < 0.08 else 1, 0 if r < 0.16 else 1))
        stored = []
        for c in range(1, chunks + 1):
            if rng.random() < 0.75:
                lines.append("store c=%d ttl=%d" % (c, rng.choice([1, 2, 3, 5, 3600, 3600])))
                stored.append(c)
        now, marks, sent = 0, [], []
        for _ in range(rng.randint(4, 45)):
            x = rng.random()
            if x < 0.40:
                p = rng.randint(1, peers)
                c = rng.choice(stored) if stored and rng.random() < 0.8 else rng.randint(1, chunks)
                if sent and rng.random() < 0.35:
                    p, c = rng.choice(sent)      # repeated request
                lines.append("req p=%d c=%d" % (p, c))
                sent.append((p, c))
                marks.append(now + uto * 1000)
            elif x < 0.62:
                p, c = rng.choice(sent) if sent and rng.random() < 0.85 else (rng.randint(1, peers), rng.randint(1, chunks))
                lines.append("ack p=%d c=%d ok=%d" % (p, c, rng.randint(0, 1)))
            elif x < 0.78:
                lines.append("tick")
            elif x < 0.83:
                lines.append("link p=%d up=%d" % (rng.randint(1, peers), rng.randint(0, 1)))
            elif x < 0.86:
                c = rng.randint(1, chunks)
                lines.append("store c=%d ttl=%d" % (c, rng.choice([1, 2, 5, 3600])))
                if c not in stored:
                    stored.append(c)
            else:
                future = [m for m in marks if m > now]
                if future and rng.random() < 0.5:
                    d = rng.choice(future) - now + rng.choice([-1, 0, 0, 1])
                else:
                    d = rng.choice([0, 1, 250, 999, 1000, 1001, 2000, 3000, 31000])
                d = max(0, d)
                now += d
                lines.append("adv ms=%d" % d)
                if rng.random() < 0.6:
                    lines.append("tick")
        lines += ["tick", "adv ms=%d" % ((uto + 1) * 1000 + 1), "tick"]
        out.append(lines)
    return out


def random_fetch_behaviours(rng, n):
    out = []
    for _ in range(n):
        peers, chunks = rng.randint(1, 4), rng.randint(1, 5)
        binit, bmax, succ = rng.choice([0, 1, 1, 2, 3]), rng.choice([0, 1, 4, 4, 5, 60]), rng.choice([0, 1, 2, 2, 3, 15])
        alimit = rng.choice([0, 1, 2, 3, 3, 5, 12])
        lines = ["reset mode=fe peers=%d chunks=%d flimit=%d alimit=%d binit=%d bmax=%d succ=%d" % (peers, chunks, rng.choice([0, 1, 1, 2, 2, 3]), alimit, binit, bmax, succ)]
        for p in range(1, peers + 1):
            r = rng.random()
            lines.append("peer p=%d key=%d link=%d" % (p, 0 if r < 0.08 else 1, 0 if r < 0.35 else 1))
        now, marks, last_ann = 0, [], {}
        for c in range(1, chunks + 1):
            ttl = rng.choice([2, 3, 5, 8, 20, 3600, 3600])
            lines.append("src c=%d ttl=%d" % (c, ttl))
            marks.append(ttl * 1000)
        anns = []
        for _ in range(rng.randint(4, 50)):
            x = rng.random()
            if x < 0.30:
                p, c = rng.randint(1, peers), rng.randint(1, chunks)
                if anns and rng.random() < 0.4:
                    p, c = rng.choice(anns)      # re-announce
                direct = 1 if (now - last_ann.get(p, -10 ** 9) < 1000 or rng.random() < 0.15) else 0
                if not direct:
                    last_ann[p] = now
                lines.append("ann p=%d c=%d direct=%d" % (p, c, direct))
                anns.append((p, c))
                marks += [now + succ * 1000] + [now + (binit or 1) * 1000 * (1 << k) for k in range(4)] + ([now + bmax * 1000] if bmax else [])
            elif x < 0.42:
                p, c = rng.choice(anns) if anns and rng.random() < 0.8 else (rng.randint(1, peers), rng.randint(1, chunks))
                lines.append("chunk p=%d c=%d good=%d" % (p, c, 0 if rng.random() < 0.25 else 1))
            elif x < 0.58:
                lines.append("tick")
            elif x < 0.61:
                # the chunk gets stored locally by other means while its fetch may be pending
                lines.append("store c=%d ttl=%d" % (rng.choice(anns)[1] if anns else rng.randint(1, chunks), rng.choice([5, 3600])))
            elif x < 0.72:
                lines.append("link p=%d up=%d" % (rng.randint(1, peers), rng.randint(0, 1)))
            else:
                future = [m for m in marks if m > now]
                if future and rng.random() < 0.6:
                    d = rng.choice(future) - now + rng.choice([-1, 0, 0, 0, 1])
                else:
                    d = rng.choice([0, 1, 500, 999, 1000, 1001, 2000, 4000, 16000])
                d = max(0, d)
                now += d
                lines.append("adv ms=%d" % d)
                lines.append("tick")
                marks += [now + succ * 1000] + [now + (binit or 1) * 1000 * (1 << k) for k in range(4)]
        lines += ["tick", "adv ms=%d" % ((succ + 1) * 1000 + 1), "tick"]
        out.append(lines)
    return out


# ------------------------------------------------------------------------------------------
def events_to_script(events):
    lines = []
    for e in events:
        op = e["op"]
        if op == "reset":
            lines.append("reset mode=%s " % e.get("mode", "all") + " ".join("%s=%d" % (k, e[k]) for k in ("peers", "chunks", "maxpar", "perpeer", "uto", "recon", "flimit", "alimit", "binit", "bmax", "succ")))
        elif op == "peer":
            lines.append("peer p=%d key=%d link=%d" % (e["p"], e.get("key", 1), e.get("link", 1)))
        elif op == "link":
            lines.append("link p=%d up=%d" % (e["p"], e["up"]))
        elif op in ("store", "src"):
            lines.append("%s c=%d ttl=%d" % (op, e["c"], e["ttl"]))
        elif op == "req":
            lines.append("req p=%d c=%d" % (e["p"], e["c"]))
        elif op == "ack":
            lines.append("ack p=%d c=%d ok=%d" % (e["p"], e["c"], e["ok"]))
        elif op == "tick":
            lines.append("tick")
        elif op == "adv":
            lines.append("adv ms=%d" % e["ms"])
        elif op == "ann":
            lines.append("ann p=%d c=%d direct=%d assign=%d" % (e["p"], e["c"], e["direct"], e["assign"]))
        elif op == "chunk":
            lines.append("chunk p=%d c=%d good=%d" % (e["p"], e["c"], e["good"]))
    return lines


def run_and_validate(chk, side, groups, label=None):
    """groups: list of (label, [behaviour script lines]); one driver run and one TLC validation for all of them"""
    if isinstance(groups, list) and groups and not isinstance(groups[0], tuple):
        groups = [(label or "behaviours", groups)]
    groups = [(lb, bs) for lb, bs in groups if bs]
    if not groups:
        return None
    label = "+".join(lb for lb, _ in groups)
    b = vlib.build("sched")["sched"]
    wd = vlib.workdir("sched-%s-%s" % (chk.pid, re.sub(r"[^A-Za-z0-9_-]", "_", label)[:40]))
    script, trace = os.path.join(wd, "script.txt"), os.path.join(wd, "trace.ndjson")
    with open(script, "w") as f:
        for _, bs in groups:
            for lines in bs:
                f.write("\n".join(lines) + "\n")
    vlib.sh([b, script, trace], timeout=1800)
    events = vlib.read_ndjson(trace)
    res = vlib.validate(side["trace"], trace, timeout=1800)
    nb = sum(1 for e in events if e["op"] == "reset")
    if nb != sum(len(bs) for _, bs in groups):
        raise vlib.MachineryError("driver recorded %d behaviours, %d were scripted" % (nb, sum(len(bs) for _, bs in groups)))
    chk.add_traces(nb, len(events), res, ", ".join("%s: %d" % (lb, len(bs)) for lb, bs in groups))
    for e in events:
        if e["op"] in ("req", "ack", "tick", "ann", "chunk"):
            chk.nontrivial([e["op"], [f[1] for f in e.get("fr", [])], len(e.get("act", [])), sorted(x[1] for x in e.get("per", [])), len(e.get("q", [])),
                            sorted((x[2], x[4], x[3] == -1) for x in e.get("pf", [])), sorted(x[1] for x in e.get("apr", []))])
    # one sample per group (its first behaviour)
    starts, k = [], 0
    for lb, bs in groups:
        starts.append((k, lb))
        k += len(bs)
    seen_b = -1
    wanted = dict(starts)
    cur = None
    for e in events:
        if e["op"] == "reset":
            seen_b += 1
            cur = wanted.get(seen_b)
            if cur:
                chk.sample({"source": cur, "first_events": []})
        if cur and chk.cov["samples"] and isinstance(chk.cov["samples"][-1], dict) and chk.cov["samples"][-1].get("source") == cur \
                and len(chk.cov["samples"][-1]["first_events"]) < 10:
            chk.cov["samples"][-1]["first_events"].append(e)
    vlib.report_trace_violations(chk, res, events, label=label)
    log("[trace] %s: %d behaviours, %d events, %d clause failures, stats %s" % (label, nb, len(events), len(res.get("viol", [])), json.dumps(res.get("stats"))))
    return res


def need(stats_list, keys, what):
    """vacuity guard on the recorded executions: every listed situation must have occurred"""
    tot = {}
    for s in stats_list:
        for k, v in (s or {}).items():
            tot[k] = tot.get(k, 0) + v
    missing = [k for k in keys if tot.get(k, 0) == 0]
    if missing:
        raise vlib.MachineryError("vacuity: recorded %s executions never exercised %s (totals %s)" % (what, missing, tot))
    return tot


# ------------------------------------------------------------------------------------------
def model_phase(chk, name, fn):
    """development aid (binding self-tests on mutated trees): SCHED_HIST_CACHE=<dir> re-uses the action histories of an
    earlier model-checking phase instead of running TLC on the (tree-independent) models again"""
    cache = os.environ.get("SCHED_HIST_CACHE")
    path = os.path.join(cache, "%s-%s-%d.json" % (name, chk.tier, chk.seed)) if cache else None
    if path and os.path.exists(path):
        log("[gen] model phase skipped, histories from %s" % path)
        chk.assumptions.append("development run: model-checking phase re-used from cache")
        return json.load(open(path))
    hists = fn()
    if path:
        os.makedirs(cache, exist_ok=True)
        json.dump(hists, open(path, "w"))
    return hists


def run_uploads(chk):
    hists = model_phase(chk, "uploads", lambda: uploads_models(chk))
    uploads_traces(chk, hists)


def uploads_models(chk):
    thorough = chk.tier == "thorough"
    rng = chk.rng
    cfg = "MC_Uploads_full.cfg" if thorough else "MC_Uploads.cfg"
    r, hists, nstates = dump_hists("Uploads", cfg, rng, 10000 if thorough else 1800, workers=8, timeout=1500 if thorough else 400, heap="6g")
    chk.add_model("Uploads design=>contract (%s: 2 peers x 2 chunks, limits {0,1,2}^2, timeout 2, relative clocks)" % cfg, r,
                  "invariants TypeOK C23_Limits C23_Nak C23_SlotsReleased D_CounterIsMapSize")
    for cfgname, inv in (("dev_dupcounts", "C23_SlotsReleased"), ("reach_dupstart", "Reach_DupStartWhileActive"), ("reach_queued", "Reach_QueuedBehindLimit"),
                         ("reach_timeout", "Reach_TimeoutPrune"), ("reach_nakqueue", "Reach_NakFromQueue")):
        vlib.mc("Uploads", "MC_Uploads_%s.cfg" % cfgname, expect_violation=inv, workers=4, timeout=300, heap="4g")
    live(chk, "Uploads", "MC_Uploads_live.cfg")
    if thorough:
        live(chk, "Uploads", "MC_Uploads_dev_dupcounts_live.cfg", expect_violation=True)
    r2, hists2, n2 = dump_hists("Uploads", "MC_Uploads_stagger.cfg", rng, 6000 if thorough else 1200, workers=8, timeout=900, heap="6g")
    chk.add_model("Uploads design=>contract (MC_Uploads_stagger.cfg: one peer, 4 chunks, per-peer limit 2, time-out 3: uploads of different ages)", r2,
                  "invariants TypeOK C23_Limits C23_Nak C23_SlotsReleased D_CounterIsMapSize")
    for h in hists2:
        h[0]["stagger"] = True
    log("[gen] %d TLC states, %d state-cover sequences replayed (+ %d states, %d sequences of the staggered-age model)" % (nstates, len(hists), n2, len(hists2)))
    return hists + hists2


def uploads_traces(chk, hists):
    thorough = chk.tier == "thorough"
    rng = chk.rng
    ext = []
    stag = [h for h in hists if h[0].get("stagger")]
    hists = [h for h in hists if not h[0].get("stagger")]
    stag_scripts = [upload_script(h, stagger=True) for h in stag]
    for h in rng.sample(stag, min(len(stag), 600 if thorough else 150)):     # two further requests after every sampled state
        base = upload_script(h, settle=False, stagger=True)
        a, b = rng.sample([1, 2, 3, 4], 2)
        stag_scripts.append(base + ["req p=1 c=%d" % a, "req p=1 c=%d" % b, "tick", "adv ms=4001", "tick"])
    for h in rng.sample(hists, min(len(hists), 800 if thorough else 150)):
        base = upload_script(h, settle=False)
        for a in UPLOAD_EXT:
            ext.append(base + [a, "tick", "adv ms=%d" % ((UPLOAD["timeout"] + 1) * TICK_MS), "tick"])
    res = run_and_validate(chk, UPLOAD, [("tlc-state-cover", [upload_script(h) for h in hists]), ("tlc-transition-cover", ext),
                                         ("tlc-staggered-ages", stag_scripts), ("directed-partial-timeout", stagger_upload_behaviours(rng, 1500 if thorough else 300)),
                                         ("deferred-request-expires", deferred_expiry_behaviours(rng)),
                                         ("random", random_upload_behaviours(rng, 3000 if thorough else 500))])
    stats = [res["stats"]]
    if not chk.viol:
        need(stats, ["sends", "dupsends", "nakdue", "releasedue", "atlimit"], "upload")
    chk.assumptions += [
        "peers are stub sessions: a socketpair adopted by the node's real SessionManager; the driver reads, decrypts and decodes every frame the node sends",
        "requests / acks are injected through Node::handle_request / handle_acknowledge (friend access), ticks through Node::tick, virtual clock by link-time interposition",
        "limit side counts a re-send of the same chunk to the same peer as the same upload; release side requires one ack per send (or the time-out) before demanding a zero in-use count",
        "the time-out boundary is open: an upload exactly at its time-out is 'timed out' for the limits and 'not yet' for the release clause"]


def run_fetches(chk):
    hists = model_phase(chk, "fetches", lambda: fetches_models(chk))
    fetches_traces(chk, hists)


def fetches_models(chk):
    thorough = chk.tier == "thorough"
    rng = chk.rng
    cfg = "MC_Fetches_full.cfg" if thorough else "MC_Fetches.cfg"
    r, hists, nstates = dump_hists("Fetches", cfg, rng, 10000 if thorough else 1800, workers=8, timeout=1500 if thorough else 400, heap="6g")
    chk.add_model("Fetches design=>contract (%s: 2 chunks x 2 peers, limit {0,1,2}, attempt limit {1,3}, back-off 1..4, relative clocks, bounded depth)" % cfg, r,
                  "invariants TypeOK C24_Limit C24_InflightZero C24_Backoff C24_Dropped D_CounterIsInflight")
    for cfgname, inv in (("dev_reannounceleak", "C24_InflightZero"), ("reach_reannounce", "Reach_ReannounceInFlight"), ("reach_exhausted", "Reach_Exhausted"),
                         ("reach_doubled", "Reach_Doubled"), ("reach_peeratlimit", "Reach_PeerAtLimit")):
        vlib.mc("Fetches", "MC_Fetches_%s.cfg" % cfgname, expect_violation=inv, workers=4, timeout=300, heap="4g")
    live(chk, "Fetches", "MC_Fetches_live_full.cfg" if thorough else "MC_Fetches_live.cfg")
    log("[gen] %d TLC states, %d state-cover sequences replayed" % (nstates, len(hists)))
    return hists


def fetches_traces(chk, hists):
    thorough = chk.tier == "thorough"
    rng = chk.rng
    life = LIFE[chk.tier]
    ext = []
    for h in rng.sample(hists, min(len(hists), 800 if thorough else 150)):
        base = fetch_script(h, life, settle=False)
        for a in FETCH_EXT:
            ext.append(base + [a, "tick", "adv ms=%d" % ((FETCH["succ"] + 1) * TICK_MS), "tick"])
    res = run_and_validate(chk, FETCH, [("tlc-state-cover", [fetch_script(h, life) for h in hists]), ("tlc-transition-cover", ext),
                                        ("random", random_fetch_behaviours(rng, 3000 if thorough else 500))])
    stats = [res["stats"]]
    if not chk.viol:
        need(stats, ["requests", "failedsends", "reannounce_inflight", "arrivals", "dropdue", "zerodue", "atlimit", "doubled", "capped"], "fetch")
    chk.assumptions += [
        "providers are stub sessions (socketpair adopted by the node's real SessionManager); a send fails when the provider has no session; request frames are read and decoded by the driver",
        "announces are injected through Node::handle_announce (or, inside the sender's one-second announce throttle, straight into Node::schedule_assigned_fetch), arrivals through Node::handle_chunk with the real ciphertext of an origin node",
        "limit side: a request stops counting once superseded, answered, re-announced, dropped or older than the success interval; zero side: it counts until dropped or strictly older than the interval; the in-flight count is only examined right after a tick",
        "'attempt limit exhausted' is read as: the limit is positive, reached, and the last send failed (successful sends that go unanswered are retried at the success interval by the code; the statement does not forbid it)",
        "back-off: both 'doubling per attempt' and 'doubling per consecutive failed send' are accepted, and a doubling that stops at factor 256"]


def replay(chk, path):
    events = [json.loads(x) for x in open(path) if x.strip() and not x.startswith("#")]
    side = UPLOAD if chk.pid == "C23" else FETCH
    run_and_validate(chk, side, [("replay", [events_to_script(events)])])
