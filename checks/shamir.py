"""Group "shamir": C10 (Shamir sharing over GF(2^8)) and C12 (DH handshake, shared session key).
Specs: spec/GF256.tla GF256Lemmas.tla Shamir.tla ShamirTrace.tla DH.tla DHTrace.tla ; drivers harness/shamir.cpp, harness/dh.cpp."""
import itertools, json, os, re, threading, time
from concurrent.futures import ThreadPoolExecutor
import vlib
from vlib import log

P31 = 2147483647


# ------------------------------------------------------------------------------------------------
# helpers local to this group (not in vlib)
def mc_parallel(chk, jobs, max_parallel=4):
    """jobs: (module, cfg, expect_violation|None, workers, timeout, description).  Runs the TLC jobs in
    threads (each has its own metadir) and registers every one through chk.add_model; errors are re-raised."""
    results = {}

    def one(j):
        module, cfg, expect, workers, timeout, what = j
        return j, vlib.mc(module, cfg, expect_violation=expect, workers=workers, timeout=timeout, heap="2g")

    if os.environ.get("VERIF_SKIP_MODELS"):      # development aid for the mutation self-test only (models do not depend on the repo tree)
        log("[note] VERIF_SKIP_MODELS set: %d TLC lemma/model runs skipped" % len(jobs))
        return results
    with ThreadPoolExecutor(max_workers=max_parallel) as ex:
        futs = [ex.submit(one, j) for j in jobs]
        errs = []
        for f in futs:
            try:
                j, r = f.result()
                results[j[1]] = r
                chk.add_model("%s/%s: %s" % (j[0], j[1], j[5]), r,
                              ("expected violation of %s found (vacuity/deviation guard)" % j[2]) if j[2] else "all invariants hold, complete")
            except Exception as e:  # noqa
                errs.append(e)
        if errs:
            raise errs[0]
    return results


class Background:
    """run a callable in a thread, join later (exceptions re-raised at join)"""

    def __init__(self, fn):
        self.exc, self.val = None, None

        def run():
            try:
                self.val = fn()
            except BaseException as e:  # noqa
                self.exc = e
        self.t = threading.Thread(target=run)
        self.t.start()

    def join(self):
        self.t.join()
        if self.exc:
            raise self.exc
        return self.val


def validate_in(module, tracefile, wd_name, timeout=900, heap="2g"):
    """vlib.validate with its own TLC metadir, so that several validations of one module can run in parallel threads"""
    r = vlib.tlc(module, module + ".cfg", workers=1, timeout=timeout, env={"TRACE": tracefile}, heap=heap, wd=vlib.workdir(wd_name))
    res = r.results()
    if not res:
        raise vlib.MachineryError("trace validation produced no result (%s on %s):\n%s" % (module, tracefile, r.out[-4000:]))
    out = res[-1]
    out["tlc_states"] = r.distinct
    out["wall"] = r.dt
    return out


def hexbytes(bs):
    return "".join("%02x" % b for b in bs)


# ================================================================================================
# C10
def c10_models(thorough):
    jobs = [
        ("GF256Lemmas", "MC_GF256.cfg", None, 4, 900, "GF(2)[x]/(0x11D): no zero divisors, inverses, commutativity on all 65 536 pairs; distributivity/associativity on 256 x 24 x 24 triples; table = shift-and-add product"),
        ("Shamir", "MC_Shamir.cfg", None, 6, 1200, "GF(2^3): every ordered tuple of distinct indices from 1..7 (all 1<=t<=n<=7, every t-subset in every order) reconstructs every monomial; all polynomials for t<=3; coefficient->share-value bijection for <t shares (t-1<=3); malformed sets rejected"),
        ("GF256Lemmas", "MC_GF8.cfg", None, 2, 600, "GF(2)[x]/(0xB) is a field (the small model's field), all triples"),
        ("GF256Lemmas", "MC_GF256_dev_reducible.cfg", "L_NoZeroDivisors", 2, 600, "reducible polynomial 0x101 must have zero divisors"),
        ("Shamir", "MC_Shamir_dev_skipzero.cfg", "Inv_BadSetsRejected", 2, 600, "interpolate() skipping zero-valued shares without index validation accepts duplicated indices"),
        ("Shamir", "MC_Shamir_dev_narrowcounter.cfg", "Inv_SplitTerminates", 2, 600, "FBits-wide share counter never terminates for n = 2^FBits - 1"),
        ("Shamir", "MC_Shamir_reach_fulltuple.cfg", "Reach_FullTuple", 2, 600, "7-tuples are reachable"),
    ]
    if thorough:
        jobs += [
            ("GF256Lemmas", "MC_GF256_full.cfg", None, 6, 3000, "distributivity and associativity on all 16.7 M triples of GF(2^8)"),
            ("Shamir", "MC_Shamir_thorough.cfg", None, 6, 3000, "GF(2^3): all polynomials for t<=4, bijection for up to 4 observed shares"),
            ("Shamir", "MC_Shamir_gf256.cfg", None, 4, 3000, "GF(2^8): indices {1,2,255}: all polynomials t<=2, bijection for 1 and 2 observed shares (65 536 coefficient pairs)"),
        ]
    return jobs


def c10_script(rng, thorough):
    """script lines for harness/shamir.cpp; one behaviour (reset) per case"""
    lines = ["reset", "gf"]
    cid = [0]

    def secret(kind):
        if kind == "zero":
            return [0] * 32
        if kind == "ff":
            return [255] * 32
        s = [rng.randrange(256) for _ in range(32)]
        if kind == "holes":
            for k in rng.sample(range(32), 10):
                s[k] = 0
        return s

    def perm(xs):
        xs = list(xs)
        rng.shuffle(xs)
        return xs

    def fmt(sets):
        return "/".join(".".join(str(x) for x in st) for st in sets)

    def case(t, n, skind="rand", cmode="rand", exhaustive=False, malformed=True):
        cid[0] += 1
        pos = list(range(1, n + 1))
        good = []
        if exhaustive:
            for comb in itertools.combinations(pos, t):
                good += [list(p) for p in itertools.permutations(comb)]
        elif 1 <= t <= n:
            good.append(pos[:t])
            good.append(list(reversed(pos[:t])))
            good.append(pos[n - t:])
            for _ in range(1 if t > 64 else 3):
                good.append(perm(rng.sample(pos, t)))
        # the spec's own Combine on subsets (cost ~ t^2 each): fewer for large t
        probes = good if t <= 16 else good[-1:] if t > 64 else good[-3:]
        subs = [list(g) for g in good]
        if malformed and 1 <= t <= n:
            a, b = (rng.sample(pos, 2) if n >= 2 else (1, 1))
            rest = [p for p in pos if p not in (a, b)]
            fill = rng.sample(rest, min(len(rest), max(0, t - 2)))
            subs.append(pos[:t - 1])                                    # too few (empty for t = 1)
            if t >= 2:
                subs.append([])                                         # none at all
                enough = len(fill) == t - 2
                if enough:
                    ia = a                                              # index of share a is a (split numbers 1..n); override below uses it
                    subs.append(perm([a, a] + fill))                    # same share twice
                    subs.append(perm([a, "%di%d" % (b, ia)] + fill))    # two different shares, same index
                    subs.append(["%dz" % a, "%di%dz" % (b, ia)] + fill)  # repeated index, both values all zero (first)
                    subs.append(fill + ["%dz" % a, "%di%dz" % (b, ia)])  # ... last
                    subs.append(perm(["%dh" % a, "%di%dh" % (b, ia)] + fill))  # repeated index, half of the bytes zero
                    subs.append(perm(["%dz" % a, "%dz" % a] + fill))    # the same zeroed share twice
                    subs.append(["%di0" % a, b] + fill)                 # index 0 (statement silent: anything but a crash)
                    subs.append(perm(["%dr" % a, b] + fill))            # a corrupted value, distinct indices (silent)
                subs.append([a] * t)                                    # one share t times
            if n > t:
                subs.append(pos[:t] + [pos[0]])                         # duplicate beyond the first t (silent)
                subs.append(pos[:min(n, t + 3)])                        # more than t shares (silent unless value)
        lines.append("reset")
        lines.append("case id=%d t=%d n=%d secret=%s cmode=%s cseed=%d probes=%s subs=%s tc=%d" % (
            cid[0], t, n, hexbytes(secret(skind)), cmode, rng.randrange(1, 10 ** 6), fmt(probes), fmt(subs) + ("/" if subs and subs[-1] == [] else ""), t))

    base = [1, 2, 3, 5, 255]
    kinds = ["rand", "rand", "holes", "zero", "ff"]
    modes = ["rand", "rand", "rand", "topzero", "zero", "ones"]
    for t in base:
        for n in base:
            if t <= n:
                case(t, n, rng.choice(kinds), rng.choice(modes))
    for t, n in [(254, 255), (128, 255), (2, 254), (254, 254), (100, 200), (1, 254), (16, 17)]:
        case(t, n, rng.choice(kinds), "rand")
    case(2, 4, "rand", "rand", exhaustive=True)
    case(3, 5, "holes", "rand", exhaustive=True)
    case(2, 3, "zero", "zero", exhaustive=True)
    for _ in range(14 if not thorough else 150):
        n = rng.choice([rng.randint(1, 12), rng.randint(1, 255), rng.randint(200, 255)])
        t = rng.choice([rng.randint(1, n), rng.randint(1, min(n, 6))])
        case(t, n, rng.choice(kinds), rng.choice(modes))
    if thorough:
        case(4, 6, "rand", "rand", exhaustive=True)
        for t in (253, 255):
            case(t, 255, "rand", "rand")
    # parameters outside 1 <= t <= n (statement silent: only abnormal termination is a failure)
    for t, n in [(0, 0), (0, 3), (3, 2), (1, 0)]:
        case(t, n, "rand", "rand", malformed=False)
    # coefficient -> share value maps through the interposed random_device, at the real GF(2^8)
    for x in ([1, 2, 3, 142, 254] if not thorough else [1, 2, 3, 29, 76, 127, 128, 142, 200, 253, 254]):
        lines += ["reset", "bij t=2 x=%d secret=%s cseed=%d" % (x, hexbytes(secret("rand")), rng.randrange(1, 10 ** 6))]
    for x, y in ([(1, 2), (2, 3)] if not thorough else [(1, 2), (2, 3), (1, 3), (7, 200), (253, 254)]):
        lines += ["reset", "bij t=3 x=%d y=%d secret=%s cseed=%d" % (x, y, hexbytes(secret("rand")), rng.randrange(1, 10 ** 6))]
    # independence of the random coefficients (secrecy for every threshold, not only t = 2, 3): recovered from t shares over 8 splits
    for t in ([2, 3, 5, 9, 10, 17, 33, 64, 129, 255] if not thorough else [2, 3, 4, 5, 8, 9, 10, 11, 16, 17, 32, 33, 34, 64, 65, 100, 128, 129, 200, 254, 255]):
        lines += ["reset", "indep t=%d n=%d runs=8 secret=%s cseed=%d" % (t, min(255, t + rng.choice([0, 1, 3])), hexbytes(secret("rand")), rng.randrange(1, 10 ** 6))]
    return lines


def c10_raw(pid, lines, label, watchdog=3):
    """run the driver on a script and validate the trace (no Check accounting: safe to call from threads)"""
    b = vlib.build("shamir")["shamir"]
    wd = vlib.workdir("shamir-%s-%s" % (pid, label))
    script, trace = os.path.join(wd, "script.txt"), os.path.join(wd, "trace.ndjson")
    with open(script, "w") as f:
        f.write("\n".join(lines) + "\n")
    t0 = time.time()
    vlib.sh([b, script, trace], timeout=1500, env={"VERIF_WATCHDOG_S": str(watchdog)})
    events = vlib.read_ndjson(trace)
    t1 = time.time()
    res = validate_in("ShamirTrace", trace, "tlcv-shamir-%s-%s" % (pid, label), timeout=2400, heap="3g")
    log("[drive] shamir %s: %d script lines -> %d events, driver %.1fs, TLC validation %.1fs" % (label, len(lines), len(events), t1 - t0, time.time() - t1))
    return events, res


def split_behaviours(lines, k):
    """cut a script at its reset lines into k scripts of roughly equal estimated cost (TLC cost ~ t^2 per probe)"""
    behs = []
    for ln in lines:
        if ln == "reset" or not behs:
            behs.append([])
        behs[-1].append(ln)

    def cost(b):
        c = 1.0
        for ln in b:
            m = re.search(r" t=(\d+) .*probes=(\S*)", ln)
            if m and ln.startswith("case"):
                c += (int(m.group(1)) ** 2) * (1 + m.group(2).count("/")) / 400.0 + 2
            elif ln.startswith("bij t=3"):
                c += 40
            elif ln.startswith("gf"):
                c += 30
        return c
    bins = [[0.0, []] for _ in range(k)]
    for b in sorted(behs, key=cost, reverse=True):
        tgt = min(bins, key=lambda x: x[0])
        tgt[0] += cost(b)
        tgt[1] += b
    return [b[1] for b in bins if b[1]]


def c10_drive(chk, lines, label, watchdog=3, parts=3):
    vlib.build("shamir")
    scripts = split_behaviours(lines, parts)
    with ThreadPoolExecutor(max_workers=parts) as ex:
        outs = list(ex.map(lambda a: c10_raw(chk.pid, a[1], "%s-%d" % (label, a[0]), watchdog), enumerate(scripts)))
    events = [e for o in outs for e in o[0]]
    stats = {}
    for o in outs:
        for k_, v_ in (o[1].get("stats") or {}).items():
            stats[k_] = stats.get(k_, 0) + v_
    res = {"stats": stats, "viol": []}
    for (ev_, r_), sc in zip(outs, scripts):
        vlib.report_trace_violations(chk, r_, ev_, label=label)
        res["viol"] += r_.get("viol", [])
    nb = sum(1 for e in events if e["op"] == "reset")
    chk.add_traces(nb, len(events), res, label)
    ncls = lambda v: "1" if v == 1 else "2-3" if v <= 3 else "4-16" if v <= 16 else "17-254" if v < 255 else "255"
    for e in events:
        if e["op"] == "split":
            chk.nontrivial(["split", ncls(e["t"]) if e["t"] else "0", ncls(e["n"]) if e["n"] else "0", e["outcome"], len(e["probes"]) > 0])
        elif e["op"] == "combine":
            idx = [s[0] for s in e["shares"]][: e["tc"]]
            chk.nontrivial(["combine", ncls(e["tc"]), "short" if len(e["shares"]) < e["tc"] else "dup" if len(set(idx)) < len(idx) else "idx0" if 0 in idx else "ok",
                            "extra" if len(e["shares"]) > e["tc"] else "", e["pristine"], any(all(v == 0 for v in s[1]) for s in e["shares"]), e["outcome"],
                            idx == sorted(idx)])
        elif e["op"] == "bij":
            chk.nontrivial(["bij", e["t"], e["x"], e["y"]])
        elif e["op"] == "abnormal":
            chk.nontrivial(["abnormal", e["how"]])
    chk.nontrivial(["gf", sum(1 for e in events if e["op"] == "gfrow")])
    smp = [e for e in events if e["op"] == "combine"][:2]
    chk.sample({"source": label, "stats": res.get("stats"),
                "combine_events": [{k: (v if k not in ("shares",) else [s[0] for s in v]) for k, v in e.items()} for e in smp]})
    st = res.get("stats", {})
    log("[trace] shamir %s: %d behaviours, %d events, %d clause failures; stats %s" % (label, nb, len(events), len(res.get("viol", [])), json.dumps(st)))
    if st.get("design_checked", 0) != st.get("design_equal", 0):
        log("[note] design drift (not a violation): %d of %d splits differ from Split(secret, injected coefficients) -- the coefficient source is consumed differently from spec/Shamir.tla"
            % (st["design_checked"] - st["design_equal"], st["design_checked"]))
    if st.get("bij_inconclusive", 0):
        log("[note] %d coefficient-bijection probes inconclusive (injected coefficient not local to one secret byte)" % st["bij_inconclusive"])
    # vacuity: the trace must contain what the clauses talk about
    if st.get("gfrows") != 256 or st.get("splits", 0) < 10 or st.get("combines", 0) < 50:
        raise vlib.MachineryError("shamir trace is vacuous: %s" % st)
    return res


def run_c10(chk):
    thorough = chk.tier == "thorough"
    chk.level = "exploration"
    chk.cov["rule"] = ("cases = (t,n) over {1,2,3,5,255}^2 plus boundary and seeded random pairs x secret shapes x coefficient modes (chosen through the interposed "
                       "std::random_device); per case real split, then real combine on t-subsets in several orders (all subsets x all orders for (2,3),(2,4),(3,5)) and on "
                       "malformed sets (too few, repeated index incl. zero-valued, index 0, extras); all 65 536 gf_mul/gf_div pairs; coefficient->value maps for t=2 (256) "
                       "and t=3 (65 536). A case is distinct/non-trivial by (operation, size class of t and n, kind of share set, zero-valued shares, order, outcome); every "
                       "recorded event is decided by TLC evaluating spec/Shamir.tla at GF(2^8).")
    bg = Background(lambda: mc_parallel(chk, c10_models(thorough), max_parallel=3 if not thorough else 4))
    try:
        c10_drive(chk, c10_script(chk.rng, thorough), "generated-cases")
    finally:
        bg.join()
    chk.assumptions += ["std::random_device interposed at link time (harness/common/vrng): coefficients are chosen by the script",
                        "gf_mul/gf_div/gf_add reached by including $(REPO)/src/crypto/Shamir.cpp in the driver's translation unit",
                        "every driver command runs in a forked child under RLIMIT_CPU (%d CPU-seconds; 10x for the enumerations), a wall-clock alarm and RLIMIT_AS: a hang is an observed outcome" % 3,
                        "perfect secrecy is a property of Split over a field with uniform coefficients: proved by TLC in GF(2^3) for all t<=n<=7 (bijection), field axioms "
                        "checked exhaustively at GF(2^8), and the real split's coefficient->value map enumerated for t=2,3"]


def replay_c10(chk, path):
    cmds = []
    for ln in open(path):
        if ln.startswith("#") or not ln.strip():
            continue
        e = json.loads(ln)
        if e.get("op") == "cmd":
            cmds += ["reset", e["text"]]
    if not cmds:
        raise vlib.MachineryError("no cmd events in %s" % path)
    chk.level = "exploration"
    b = vlib.build("shamir")["shamir"]
    wd = vlib.workdir("shamir-replay")
    script, trace = os.path.join(wd, "script.txt"), os.path.join(wd, "trace.ndjson")
    open(script, "w").write("\n".join(cmds) + "\n")
    vlib.sh([b, script, trace], timeout=600, env={"VERIF_WATCHDOG_S": "3"})
    events = vlib.read_ndjson(trace)
    res = vlib.validate("ShamirTrace", trace, timeout=900, heap="2g")
    chk.add_traces(1, len(events), res, "replay")
    chk.nontrivial("replay-a"); chk.nontrivial("replay-b")
    vlib.report_trace_violations(chk, res, events, label="replay")


# ================================================================================================
# C12
def c12_models(thorough):
    return [
        ("DHLemmas", "MC_DH_p31.cfg", None, 2, 900, "p = 31, g = 3, all exponents 0..30: (g^a)^b = (g^b)^a = g^(ab mod (p-1)); add/double ModExp = native arithmetic"),
        ("DHLemmas", "MC_DH_p46337.cfg", None, 2, 900, "largest prime whose products fit TLC integers: overflow-free MulMod/AddMod = native, agreement, Fermat"),
        ("DHLemmas", "MC_DH_p.cfg", None, 2, 900, "p = 2^31 - 1, g = 5, boundary and spread exponents: agreement, exponent-product law, Fermat (plus Python-computed vectors as ASSUMEs in DH.tla)"),
        ("DHLemmas", "MC_DH_dev_composite.cfg", "L_Fermat", 1, 600, "composite modulus 33 must violate Fermat (the lemma invariants are not vacuous)"),
    ]


def c12_script(rng, thorough):
    p = P31
    lines = ["reset"]
    cands = [0, 1, 2, 3, 65535, 65536, p - 2, p - 1, p, p + 1, 2 ** 31, 2 ** 31 + 1, 2 ** 32 - 2, 2 ** 32 - 1]
    cands += [rng.randrange(2, p) for _ in range(12)] + [rng.randrange(p, 2 ** 32) for _ in range(12)]
    for c in cands:
        lines.append("validate c=%d" % c)
    edge = [2, 3, p - 3, p - 2]
    pairs = [(a, b) for a in edge for b in edge]
    # scalars whose public key lies in a small subgroup (p - 1 = 2 * 3^2 * 7 * 11 * 31 * 151 * 331): 5^((p-1)/d) has order d, so the
    # repeated squarings of the modular exponentiation run into short cycles (order 2: the public key p - 1, whose square is 1)
    small = [(p - 1) // d for d in (2, 3, 6, 7, 9, 11, 31, 62, 151, 331)]
    half = (p - 1) // 2
    for s_ in small + [half - 1, half + 1]:
        for other in (rng.randrange(2, p - 1) | 1, rng.randrange(2, p - 2) & ~1 or 2, rng.choice(edge), rng.choice(small)):
            pairs.append((s_, other) if rng.random() < 0.5 else (other, s_))
    pairs += [(half, 3), (3, half), (half, p - 2), (half, half)]
    for _ in range(40 if not thorough else 500):
        pairs.append((rng.choice([rng.randrange(2, p - 1), rng.randrange(2, 70000), rng.choice(edge)]), rng.randrange(2, p - 1)))
    # structured scalars: single bits, runs of ones, neighbours of powers of two (bit-position / carry slips in modexp)
    for k in range(1, 31):
        v = rng.choice([2 ** k, 2 ** k + 1, max(2, 2 ** k - 1)]) if k > 1 else 2
        v = min(max(v, 2), p - 2)
        pairs.append((v, rng.randrange(2, p - 1)) if k % 2 else (rng.randrange(2, p - 1), v))
    for a, b in pairs:
        lines.append("kx a=%d b=%d" % (a, b))
    nh = 36 if not thorough else 400
    fixed_a = (rng.randrange(2 ** 32), rng.randrange(4, 10 ** 6))
    for k in range(nh):
        if k % 12 == 0:
            lines.append("reset")
        sa, ia = fixed_a if k % 3 == 0 else (rng.choice([0, 1, 2 ** 32 - 1, rng.randrange(2 ** 32)]), rng.choice([0, 1, 2, 3, rng.randrange(4, 10 ** 6)]))
        sb, ib = rng.randrange(2 ** 32), rng.randrange(4, 10 ** 6)
        if ib == ia:
            ib += 1
        powd = rng.choice([0, 4, 4, 8])
        for order in ("ab", "ba"):
            lines.append("hs seeda=%d seedb=%d ida=%d idb=%d order=%s pow=%d adv=%d%s" % (sa, sb, ia, ib, order, powd, rng.choice([0, 1, 999, 5000]),
                                                                                               " rehs=1 rotwait=%d%s" % (rng.choice([0, 1, 301, 600, 3601]), " seedb2=%d" % rng.randrange(2 ** 32) if rng.random() < 0.5 else "")
                                                                                               if rng.random() < 0.4 else ""))
    lines.append("reset")
    bad = [0, 1, p, p + 1, 2 ** 31, 2 ** 32 - 1] + [rng.randrange(p, 2 ** 32) for _ in range(6)]
    good = [2, p - 1, p - 2] + [rng.randrange(2, p) for _ in range(5)]
    for c in bad + good:
        lines.append("hsbad seed=%d id=%d c=%d pow=0" % (rng.randrange(2 ** 32), rng.randrange(4, 10 ** 6), c))
    for c in bad[:6]:
        lines.append("hsbad seed=%d id=%d c=%d pow=4 nonce=%d" % (rng.randrange(2 ** 32), rng.randrange(4, 10 ** 6), c, rng.randrange(2 ** 31)))
    return lines


def _val(limbs):
    return limbs[0] * 65536 + limbs[1]


def _cls(v):
    p = P31
    return "0" if v == 0 else "1" if v == 1 else "2" if v == 2 else "p-1" if v == p - 1 else "p" if v == p else ">p" if v > p else "low" if v < 65536 else "interior"


def c12_drive(chk, lines, label):
    b = vlib.build("dh")["dh"]
    wd = vlib.workdir("dh-%s-%s" % (chk.pid, label))
    script, trace = os.path.join(wd, "script.txt"), os.path.join(wd, "trace.ndjson")
    open(script, "w").write("\n".join(lines) + "\n")
    vlib.sh([b, script, trace], timeout=900)
    events = vlib.read_ndjson(trace)
    res = vlib.validate("DHTrace", trace, timeout=2400, heap="2g")
    nb = sum(1 for e in events if e["op"] == "reset")
    chk.add_traces(nb, len(events), res, label)
    for e in events:
        if e["op"] == "validate":
            chk.nontrivial(["validate", _cls(_val(e["c"])), e["res"]])
        elif e["op"] == "kx":
            chk.nontrivial(["kx", _cls(_val(e["a"])), _cls(_val(e["b"])), _val(e["a"]) < _val(e["b"])])
        elif e["op"] == "hs":
            chk.nontrivial(["hs", e["order"], e["pow"], e["oka"], e["okb"], e["ida"] < 4, _val(e["puba"]) < _val(e["pubb"])])
        elif e["op"] == "hsbad":
            chk.nontrivial(["hsbad", _cls(_val(e["c"])), e["pow"], e["ok"]])
    hs = [e for e in events if e["op"] == "hs"][:2]
    chk.sample({"source": label, "stats": res.get("stats"), "handshakes": hs})
    vlib.report_trace_violations(chk, res, events, label=label)
    st = res.get("stats", {})
    log("[trace] dh %s: %d behaviours, %d events, %d clause failures; stats %s" % (label, nb, len(events), len(res.get("viol", [])), json.dumps(st)))
    if st.get("kdf_checked", 0) != st.get("kdf_equal", 0):
        log("[note] design drift (not a violation): %d of %d keys differ from HMAC(SHA256(BE32(g^ab)), BE32(min pub) . BE32(max pub)) -- the key derivation changed; "
            "equality between the two nodes and the DH arithmetic are still checked" % (st["kdf_checked"] - st["kdf_equal"], st["kdf_checked"]))
    if st.get("handshakes_mutual", 0) * 2 < st.get("handshakes", 1) or st.get("candidates_accepted", 0) < 1 or st.get("validate_accepted", 0) < 1 or st.get("kx", 0) < 10:
        raise vlib.MachineryError("dh trace is vacuous (few mutual handshakes / no in-range candidate accepted): %s" % st)
    return res


def run_c12(chk):
    thorough = chk.tier == "thorough"
    chk.level = "exploration"
    chk.cov["rule"] = ("cases = candidate public values {0,1,2,3,p-2,p-1,p,p+1,2^31,2^32-1,...} plus seeded random ones on both sides of p; scalar pairs {2,3,p-3,p-2}^2, scalars (p-1)/d whose public key has small order d (d=2: public key p-1) against odd/even partners, plus "
                       "seeded random pairs in [2,p-2]; pairs of real Nodes with random identity seeds and peer ids (incl. all-00/all-FF ids, seeds 0 and 2^32-1), PoW "
                       "difficulty {0,4,8}, both handshake orders, a second handshake after a rotation with the peer restarted under the same or under a NEW identity seed (same peer id, other public key); candidates offered to Node::perform_handshake with and without PoW. A case is distinct/non-trivial by "
                       "(operation, class of the value w.r.t. 1/p, order, PoW difficulty, outcome); every event is decided by TLC evaluating spec/DH.tla (+ Sha256/Hmac for the KDF count).")
    bg = Background(lambda: mc_parallel(chk, c12_models(thorough), max_parallel=3))
    try:
        c12_drive(chk, c12_script(chk.rng, thorough), "generated-cases")
    finally:
        bg.join()
    chk.assumptions += ["KeyExchange::modexp (private static) is read through an explicit-instantiation accessor in the driver; no repo change",
                        "Node private scalar read through the harness-defined friend test::NodeTestAccess",
                        "the exact key-derivation (SHA-256 / HMAC-SHA-256 over sorted publics) is recomputed by TLC but only counted: the statement fixes equality, dependence on both publics and the DH arithmetic, not the KDF",
                        "virtual clock (link-time interposition); each handshake uses fresh Node objects so the cooldown short-cut (C20) is not involved"]


def replay_c12(chk, path):
    cmds = ["reset"]
    for ln in open(path):
        if ln.startswith("#") or not ln.strip():
            continue
        e = json.loads(ln)
        if e.get("op") == "cmd":
            cmds.append(e["text"])
    if len(cmds) < 2:
        raise vlib.MachineryError("no cmd events in %s" % path)
    chk.level = "exploration"
    b = vlib.build("dh")["dh"]
    wd = vlib.workdir("dh-replay")
    script, trace = os.path.join(wd, "script.txt"), os.path.join(wd, "trace.ndjson")
    open(script, "w").write("\n".join(cmds) + "\n")
    vlib.sh([b, script, trace], timeout=600)
    events = vlib.read_ndjson(trace)
    res = vlib.validate("DHTrace", trace, timeout=900, heap="2g")
    chk.add_traces(1, len(events), res, "replay")
    chk.nontrivial("replay-a"); chk.nontrivial("replay-b")
    vlib.report_trace_violations(chk, res, events, label="replay")
