"""Swarm distribution plans (C22): spec/Swarm*.tla, harness/swarm.cpp.

run(chk):  TLC checks design => contract (MC_Swarm_formula: candidates 0..6 x shards 0..7 x target/min/threshold 0..5;
MC_Swarm: table layouts with expired / edge / own-id contacts, sample caps, clock 0..2; thorough adds MC_Swarm_full),
the deviation and reachability configs, then every TLC case (hist via VIEW + -dump) is replayed on the real
SwarmCoordinator::compute_plan + KademliaTable under the virtual clock, plus seeded random behaviours (store level and
real Node: register_peer_contact / store_chunk / tick -> swarm_plan), and TLC validates every recorded plan against the
contract (spec/SwarmTrace.tla)."""
import os, json, concurrent.futures
import vlib
from vlib import log

TICK_MS = 1000
LONG, SHORT = 9, 1
HEAP = "2g"

DEVS = (("dev_keepself", "C22_ProvidersEligible"), ("dev_keepexpired", "C22_ProvidersEligible"), ("dev_blockassign", "C22_EvenShare"))
REACH = ("ZeroCandidates", "MoreProvidersThanShards", "ThresholdAboveCandidates", "ExpiredAndSelfPresent")
REACH_MORE = ("SampleCaps", "SelfUsesSlot", "UnevenShare", "EdgeContact")      # thorough tier only


def mc_retry(*a, **kw):
    """a TLC run that dies (loaded machine, JVM killed) is retried once before it counts as a machinery error"""
    try:
        return vlib.mc(*a, **kw)
    except vlib.MachineryError as e:
        log("[tlc] retrying after: %s" % str(e)[:200])
        return vlib.mc(*a, **kw)


def model_check(chk, thorough):
    """returns the TLC case histories of the two dumped models"""
    # deviations must violate the contract in the model; corner cases must be reachable (vacuity guards)
    jobs = [("MC_Swarm_%s.cfg" % c, inv) for c, inv in DEVS] + [("MC_Swarm_reach_%s.cfg" % n.lower(), "Reach_" + n) for n in REACH + (REACH_MORE if thorough else ())]
    ex = concurrent.futures.ThreadPoolExecutor(max_workers=4)
    futs = [ex.submit(mc_retry, "Swarm", cfg, expect_violation=inv, workers=1, timeout=300, heap="1g") for cfg, inv in jobs]
    r1, h1 = vlib.dump_hists("Swarm", "MC_Swarm_formula.cfg", workers=8, timeout=600, heap=HEAP)
    chk.add_model("Swarm design=>contract, formula sweep: candidates 0..6 x shards 0..7 x target/min/threshold 0..5", r1,
                  "invariants C22_EveryShardOnce C22_ProvidersEligible C22_EvenShare C22_ProviderCount C22_PlanOk")
    r2, h2 = vlib.dump_hists("Swarm", "MC_Swarm.cfg", workers=8, timeout=900, heap=HEAP)
    chk.add_model("Swarm design=>contract, table layouts: 0..6 long-lived + 0/2 short-lived contacts (near/far), own-id contact "
                  "none/near/far, sample 0/1/3/8, flat/busy loads, clock 0..2, shards 0/1/3/7, thr/target 0/2/5, min 0/2", r2)
    if thorough:
        r3 = vlib.mc("Swarm", "MC_Swarm_full.cfg", workers=12, timeout=1000, heap="6g")
        chk.add_model("Swarm design=>contract, the table layouts of MC_Swarm (plus sample 1) x shards 0..7 x target/min/threshold 0..5", r3)

    try:
        for f in futs:
            f.result()
    finally:
        ex.shutdown(wait=True)
    return h1, h2


# ---------------------------------------------------------------------------------------------
# TLC case -> script
def table_of(nl, ns, sm, near):
    """mirror of Swarm!MkTable: list of (exp_ticks, is_self) in distance order"""
    shorts = [(SHORT, False)] * ns
    longs = [(LONG, False)] * nl
    body = shorts + longs if near else longs + shorts
    me = [(LONG, True)]
    return body if sm == "none" else me + body if sm == "near" else body + me


def group_cases(hists):
    """TLC histories (table [adv]* plan) grouped by their prefix (same table, same clock): {prefix-json: [plan actions]}"""
    groups = {}
    for h in hists:
        if h[-1]["op"] != "plan":
            continue
        groups.setdefault(json.dumps(h[:-1], sort_keys=True), []).append(h[-1])
    for g in groups.values():
        g.sort(key=lambda a: (a["s"], a["thr"], a["tg"], a["mn"]))
    return groups


def group_to_scripts(prefix, plans, k, pack):
    """one table/clock prefix + its TLC plan cases -> behaviours of <= pack plans each.  The first plan of a behaviour takes
    target/min from the Config the coordinator was constructed with, the others through the live Config reference."""
    h = json.loads(prefix)
    t = h[0]
    tab = table_of(t["nl"], t["ns"], t["sm"], t["near"])
    selfnum = next((i for i, c in enumerate(tab) if c[1]), 250)
    out = []
    for j in range(0, len(plans), pack):
        part = plans[j:j + pack]
        k += 1
        lines = ["reset self=%d tself=%s sample=%d target=%d minp=%d seed=%d base=%d" % (
            selfnum, "far" if k % 3 else "base", t["sample"], part[0]["tg"], part[0]["mn"], k % 9973 + 1, k % 5 + 1)]
        for i, (exp, _me) in enumerate(tab):
            lines.append("contact id=%d exp=%d" % (i, exp * TICK_MS))
            if t["order"] == "busy":
                rank = i + 1
                lines.append("load id=%d au=%d pu=0 ad=0 pd=0 sd=0 le=0 rep=%d choked=0" % (i, rank % 3, 10 * (rank % 2)))
        for a in h[1:]:
            if a["op"] == "adv":
                lines.append("adv ms=%d" % TICK_MS)
        for n, a in enumerate(part):
            if n:
                lines.append("cfg target=%d minp=%d" % (a["tg"], a["mn"]))
            lines.append("plan shards=%d thr=%d" % (a["s"], a["thr"]))
        out.append(lines)
    return out


def extend(lines, rng):
    """transition cover: keep going after the TLC case (time passes, sweep, refresh, other manifests / chunk ids)"""
    plan_at = [i for i, ln in enumerate(lines) if ln.startswith("plan ")]
    keep = rng.choice(plan_at[:6])                      # one of the TLC cases of this behaviour, then on from there
    out = [ln for i, ln in enumerate(lines[:keep + 1]) if i >= keep - 1 or not (ln.startswith("plan ") or ln.startswith("cfg "))]
    out.append("adv ms=%d" % rng.choice([1, 999, 1000, 1001, 8000]))
    if rng.random() < 0.5:
        out.append("sweep")
    if rng.random() < 0.5:
        out.append("contact id=%d exp=%d" % (rng.randrange(8), rng.choice([2000, 9000, 20000])))
    if rng.random() < 0.3:
        out.append("contact id=%d via=%s ttl=%d" % (rng.randrange(8), rng.choice(["zero", "add"]), rng.choice([1, 8])))
    out.append("plan shards=%s thr=%d x=%d" % (rng.choice(["5", "2", "L7,3,9", "8"]), rng.randrange(4), rng.choice([0, 0, 3, 6])))
    out.append("adv ms=%d" % rng.choice([1000, 7000, 10000]))
    out.append("plan shards=%d thr=%d" % (rng.randrange(9), rng.randrange(6)))
    return out


# ---------------------------------------------------------------------------------------------
# seeded random behaviours
BIG = [0, 1, 2, 3, 5, 8, 16, 64, 65535]


def rand_labels(rng):
    x = rng.random()
    n = 0 if x < 0.06 else rng.randint(1, 12) if x < 0.85 else rng.choice([16, 40, 100, 255])
    if rng.random() < 0.5 or n == 255:
        labels = list(range(1, n + 1)) if n < 255 else list(range(0, 255))
        return str(len(labels)) if labels and labels[0] == 1 else "L" + ",".join(map(str, labels))
    return "L" + ",".join(map(str, rng.sample(range(256), n)))


def random_store(rng, n, maxlen=14):
    out = []
    for _ in range(n):
        wide = rng.random() < 0.25                    # many contacts (bucket eviction possible)
        ids = list(range(rng.choice([3, 8, 20]) if not wide else rng.choice([30, 60, 120])))
        rng.shuffle(ids)
        selfnum = rng.choice(ids) if rng.random() < 0.4 else 250
        lines = ["reset self=%d tself=%s sample=%d target=%d minp=%d seed=%d base=%d" % (
            selfnum, rng.choice(["far", "base"]), rng.choice(BIG), rng.choice(range(8)) if rng.random() < 0.9 else 65535,
            rng.choice(range(8)) if rng.random() < 0.9 else 65535, rng.randrange(1 << 30), rng.randrange(1, 50))]
        now = 0
        exps = []
        nplans = 0

        def add_contact():
            i = rng.choice(ids)
            x = rng.random()
            if x < 0.75:
                e = now + rng.choice([0, 1, 500, 1000, 1000, 2000, 3000, 5000, 60000, 1000000])
                exps.append(e)
                lines.append("contact id=%d exp=%d" % (i, e))
            elif x < 0.85:
                lines.append("contact id=%d via=zero" % i)
            else:
                ttl = rng.choice([1, 2, 5, 600, 2000])
                exps.append(now + ttl * 1000)
                lines.append("contact id=%d via=add ttl=%d" % (i, ttl))

        for _ in range(rng.randint(0, len(ids) + 3)):
            add_contact()
        for _ in range(rng.randint(2, maxlen)):
            x = rng.random()
            if x < 0.30:
                lines.append("plan shards=%s thr=%d x=%d" % (rand_labels(rng), rng.choice([0, 1, 2, 3, 5, 8, 255]), rng.choice([0, 0, 1, 7, 33, 1000])))
                nplans += 1
            elif x < 0.45:
                add_contact()
            elif x < 0.60:
                lines.append("load id=%d au=%d pu=%d ad=%d pd=%d sd=%d le=%d rep=%d hasrep=%d choked=%d" % (
                    rng.choice(ids), rng.choice([0, 0, 1, 2, 9]), rng.randrange(3), rng.randrange(3), rng.randrange(3), rng.randrange(4),
                    rng.randrange(4), rng.choice([-100, -5, 0, 3, 10, 1000]), rng.randrange(2), rng.random() < 0.2))
            elif x < 0.65:
                lines.append("clearloads")
            elif x < 0.72:
                lines.append("sweep")
            elif x < 0.80:
                lines.append("cfg sample=%d target=%d minp=%d" % (rng.choice(BIG), rng.randrange(7), rng.randrange(7)))
            else:
                future = [e for e in exps if e > now]
                d = (rng.choice(future) - now + rng.choice([-1, 0, 0, 0, 1])) if future and rng.random() < 0.7 else rng.choice([0, 1, 999, 1000, 5000])
                d = max(0, d)
                now += d
                lines.append("adv ms=%d" % d)
        if not nplans:
            lines.append("plan shards=%s thr=%d" % (rand_labels(rng), rng.randrange(5)))
        out.append(lines)
    return out


def random_node(rng, n):
    out = []
    for _ in range(n):
        thr = rng.choice([1, 1, 2, 3, 5, 0])
        total = rng.choice([1, 2, 3, 5, 8, 13, 0])
        rebalance = rng.choice([5, 10, 60])
        lines = ["nreset sample=%d target=%d minp=%d seed=%d total=%d thr=%d rebalance=%d base=%d" % (
            rng.choice([0, 1, 2, 3, 8, 64]), rng.randrange(7), rng.randrange(7), rng.randrange(1 << 30), total, thr, rebalance, rng.randrange(1, 50))]
        ids = list(range(rng.choice([0, 1, 3, 6, 12, 25])))
        now = 0
        for i in ids:
            if rng.random() < 0.9:
                lines.append("ncontact id=%d exp=%d" % (i, rng.choice([0, 1000, rebalance * 1000, rebalance * 1000 + 1, 30000, 10 ** 6])))
        if rng.random() < 0.4:
            lines.append("ncontact id=255 exp=%d" % 10 ** 6)     # the node's own id offered as a contact
        c = 0
        for _ in range(rng.randint(1, 8)):
            x = rng.random()
            if x < 0.35:
                c += 1
                lines.append("nstore c=%d size=%d ttl=%d" % (c if rng.random() < 0.8 else 1, rng.choice([1, 64, 4096]), rng.choice([0, 60, 3600])))
            elif x < 0.55:
                d = rng.choice([1000, rebalance * 1000 - 1, rebalance * 1000, rebalance * 1000 + 1, 29000])
                now += d
                lines.append("adv ms=%d" % d)
                lines.append("ntick")
            elif x < 0.7 and ids:
                lines.append("ncontact id=%d exp=%d" % (rng.choice(ids), now + rng.choice([0, 1, 5000, 10 ** 6])))
            elif x < 0.8:
                lines.append("ncfg sample=%d target=%d minp=%d" % (rng.choice([0, 1, 3, 8]), rng.randrange(7), rng.randrange(7)))
            else:
                lines.append("ntick")
        if c == 0:
            lines.append("nstore c=1 size=64 ttl=60")
        out.append(lines)
    return out


# ---------------------------------------------------------------------------------------------
def classify(chk, events):
    """register distinct non-trivial cases (measured from the recorded events)"""
    exp, selfn, cfg = {}, None, {}
    for e in events:
        op = e["op"]
        if op == "reset":
            exp, selfn, cfg = {}, e["self"], {"sample": e["sample"], "target": e["target"], "minp": e["minp"]}
        elif op == "cfg":
            cfg = {"sample": e["sample"], "target": e["target"], "minp": e["minp"]}
        elif op == "contact":
            exp[e["id"]] = e["exp"]
        elif op == "plan":
            t = e["t"]
            live = sum(1 for i, x in exp.items() if x > t and i != selfn)
            key = [e["level"], min(live, 8), min(len(e["shards"]), 9), len(e["plan"]),
                   any(x < t for x in exp.values()), any(x == t for x in exp.values()), selfn in exp and exp[selfn] > t,
                   0 < cfg["sample"] < live, e["thr"] > live, min(cfg["target"], 8), e.get("evict", 0)]
            if e["shards"] or exp:
                chk.nontrivial(key)


def run_and_validate(chk, sets, max_lines=300000):
    """sets = [(label, [behaviour script lines])]: replay everything on the real code (one driver run and one TLC trace
    validation per piece of <= max_lines script lines), attribute the results to the labels"""
    flat = [(label, b) for label, bs in sets for b in bs]
    if not flat:
        return
    pieces, cur, n = [], [], 0
    for item in flat:
        if cur and n + len(item[1]) > max_lines:
            pieces.append(cur)
            cur, n = [], 0
        cur.append(item)
        n += len(item[1])
    pieces.append(cur)
    b = vlib.build("swarm")["swarm"]
    for k, piece in enumerate(pieces):
        _run_piece(chk, b, piece, "piece%d" % (k + 1))


def _run_piece(chk, binary, piece, name):
    wd = vlib.workdir("swarm-%s-%s" % (chk.pid, name))
    script = os.path.join(wd, "script.txt")
    trace = os.path.join(wd, "trace.ndjson")
    with open(script, "w") as f:
        for _label, lines in piece:
            f.write("\n".join(lines) + "\n")
    vlib.sh([binary, script, trace], timeout=600)
    events = vlib.read_ndjson(trace)
    res = vlib.validate("SwarmTrace", trace, heap="4g" if len(events) > 150000 else HEAP)
    behs = vlib.behaviours_of(events)
    if len(behs) != len(piece):
        raise vlib.MachineryError("swarm driver: %d behaviours in, %d reset events out (%s)" % (len(piece), len(behs), name))
    if res["stats"]["checked"] == 0:
        raise vlib.MachineryError("swarm trace without any judged plan (%s)" % name)
    # per-label accounting
    per = {}
    for (label, _lines), (_start, evs) in zip(piece, behs):
        d = per.setdefault(label, {"behaviours": 0, "events": 0, "plans": 0, "nonempty": 0, "sample": None})
        d["behaviours"] += 1
        d["events"] += len(evs)
        for e in evs:
            if e["op"] == "plan":
                d["plans"] += 1
                if e["plan"]:
                    d["nonempty"] += 1
                    if d["sample"] is None and d["plans"] > 3:
                        d["sample"] = e
    for label, d in per.items():
        chk.add_traces(d["behaviours"], d["events"], {"stats": {"plans": d["plans"], "nonempty": d["nonempty"]}}, label)
        if d["sample"]:
            chk.sample({"source": label, "plan_event": d["sample"]})
        log("[trace] %s/%s: %d behaviours, %d events, %d plans (%d non-empty)" % (name, label, d["behaviours"], d["events"], d["plans"], d["nonempty"]))
    classify(chk, events)
    report(chk, res, behs, piece)
    log("[trace] %s: %d events validated by TLC in %.1fs: %d plans judged, %d failing, %d clause failures kept" % (
        name, len(events), res["wall"], res["stats"]["checked"], res["stats"]["failed"], len(res.get("viol", []))))


def report(chk, res, behs, piece):
    """violations -> reports; the replay file is the SCRIPT of the failing behaviour (runnable by the driver / --replay),
    followed by the recorded events as comments"""
    for v in res.get("viol", []):
        l = v["l"]
        k = max(i for i, bh in enumerate(behs) if bh[0] <= l)
        label, script = piece[k]
        ev = behs[k][1][: l - behs[k][0] + 1]
        lines = list(script) + ["# failing plan event (trace line %d): %s" % (l, json.dumps(v.get("detail")))]
        lines += ["# " + json.dumps(e) for e in ev]
        clauses = v["clause"] if isinstance(v["clause"], list) else [v["clause"]]
        for cl in clauses:
            chk.report(cl, "%s contract clause %s fails on a plan made by the real code (%s)" % (chk.pid, cl, label), lines, replay_name=cl)


def replay(chk, path):
    lines = [x.rstrip("\n") for x in open(path) if x.strip() and not x.startswith("#")]
    if not lines:
        raise vlib.MachineryError("replay file holds no script: " + path)
    run_and_validate(chk, [("replay", [lines])])


def run(chk):
    thorough = chk.tier == "thorough"
    rng = chk.rng
    h1, h2 = model_check(chk, thorough)
    g1, g2 = group_cases(h1), group_cases(h2)
    n1, n2 = sum(map(len, g1.values())), sum(map(len, g2.values()))
    log("[gen] TLC cases with a plan: %d (formula sweep, %d tables) + %d (layouts, %d table/clock prefixes)" % (n1, len(g1), n2, len(g2)))
    if n1 < 10000 or n2 < 10000:
        raise vlib.MachineryError("TLC case export too small: %d + %d" % (n1, n2))
    # the formula sweep is replayed completely; of the layouts a sample of table/clock prefixes with all their plans
    formula, layouts = [], []
    for k, pre in enumerate(sorted(g1)):
        formula += group_to_scripts(pre, g1[pre], 100 * k, 24)
    pres = sorted(g2)                                           # TLC's dump order depends on worker scheduling
    if not thorough:
        pres = rng.sample(pres, min(len(pres), 260))
    for k, pre in enumerate(pres):
        layouts += group_to_scripts(pre, g2[pre], 100 * k + 7, 18)
    pool = formula + layouts
    ext = [extend(c, rng) for c in rng.sample(pool, min(len(pool), 1200 if not thorough else 12000))]
    run_and_validate(chk, [("tlc-cases-formula", formula), ("tlc-cases-layouts", layouts), ("tlc-cases-extended", ext),
                           ("random-store", random_store(rng, 2000 if not thorough else 12000)),
                           ("random-node", random_node(rng, 300 if not thorough else 4000))])
    chk.cov["exhaustive"] = False
    chk.assumptions += [
        "\"candidates\" read as: live non-self contacts of the routing table, capped by swarm_candidate_sample when smaller; "
        "open points (contact exactly at expiry, own-id contact using a sample slot, sample 0 meaning 0 or 1) accepted either way",
        "liveness of a contact is judged from the expiry instant the driver handed to the table, at plan.created_at; with more than "
        "16 contacts inserted into one bucket, membership is the table's own closest_peers(.., huge) answer",
        "a plan with zero providers assigns nothing; whether zero is right is decided by the provider-count clause",
        "manifests with distinct shard labels (<= 255 shards); virtual clock by link-time interposition of steady_clock::now",
    ]
