"""End-to-end composition: spec/System.tla schedules (stores, message deliveries in any order and arbitrarily late,
losses, ticks) replayed on 2-3 real Nodes connected over loopback (harness/system.cpp); every node's stream is
validated against spec/NodeTtlTrace.tla (C01 negative side, C03, C05 clauses)."""
import json, os
import vlib
from vlib import log


def model_check(chk, thorough):
    r = vlib.mc("System", "MC_System.cfg", workers=8, timeout=1800)
    chk.add_model("System (2 nodes, 1 chunk id, messages delivered in any order / late / lost, min 2 max 3, now<=4, <=8 actions): E2E_NothingOutlivesManifest, E2E_ServedOnlyWhileLive, E2E_GoneAfterExpiry", r)
    vlib.mc("System", "MC_System_dev_nocheck.cfg", expect_violation="E2E_NothingOutlivesManifest", workers=4, timeout=600)
    vlib.mc("System", "MC_System_reach_replicated.cfg", expect_violation="Reach_Replicated", workers=4, timeout=600)
    vlib.mc("System", "MC_System_reach_late.cfg", expect_violation="Reach_LateAnnounce", workers=4, timeout=600)
    if thorough:
        r3 = vlib.mc("System", "MC_System_3.cfg", workers=8, timeout=1800)
        chk.add_model("System with 3 nodes (gossip through a third node), <=6 actions", r3)


def to_script(h, n):
    lines = ["reset n=%d min=2 max=3 default=2 cleanup=1" % n]
    for a in h:
        op = a["op"]
        if op == "store":
            lines.append("store n=%d c=1 b=%d ttl=%d" % (a["n"], a["n"], a["ttl"]))
        elif op in ("ann", "req", "chunk"):
            lines.append("%s from=%d to=%d" % (op, a["from"], a["to"]))
        elif op == "lose":
            lines.append("lose type=%s from=%d to=%d" % (a["type"], a["from"], a["to"]))
        elif op == "tick":
            lines.append("tick n=%d" % a["n"])
        elif op == "adv":
            lines.append("adv ms=1000")
    # close every behaviour: let everything expire, clean up everywhere, then deliver whatever is still in flight (late)
    lines += ["adv ms=4000"] + ["tick n=%d" % i for i in range(1, n + 1)]
    for f in range(1, n + 1):
        for t in range(1, n + 1):
            if f != t:
                lines += ["ann from=%d to=%d" % (f, t), "chunk from=%d to=%d" % (f, t)]
    lines += ["tick n=%d" % i for i in range(1, n + 1)]
    return lines


def run(chk, nseq):
    thorough = chk.tier == "thorough"
    model_check(chk, thorough)
    beh = []
    for cfg, n in (("MC_System.cfg", 2),) + ((("MC_System_3.cfg", 3),) if thorough else ()):
        r, hists = vlib.dump_hists("System", cfg, workers=8, timeout=1800)
        hists = [h for h in hists if h and any(a["op"] == "store" for a in h)]
        # prefer schedules that move messages
        hists.sort(key=lambda h: -sum(1 for a in h if a["op"] in ("ann", "req", "chunk")))
        pick = hists[: nseq // 2] + chk.rng.sample(hists[nseq // 2:], min(len(hists) - nseq // 2, nseq // 2)) if len(hists) > nseq else hists
        beh += [to_script(h, n) for h in pick]
    return execute(chk, beh, 3 if thorough else 2)


def execute(chk, beh, nmax=2):
    b = vlib.build("system")["system"]
    wd = vlib.workdir("system-%s" % chk.pid)
    script, trace = os.path.join(wd, "script.txt"), os.path.join(wd, "trace.ndjson")
    open(script, "w").write("\n".join("\n".join(x) for x in beh) + "\n")
    vlib.sh([b, script, trace, os.path.join(wd, "dir")], timeout=2400)
    events = vlib.read_ndjson(trace)
    # split into per-node streams, behaviour by behaviour
    streams, cur = [], {}
    for e in events:
        if e["op"] == "reset":
            if e["node"] == 1 and cur:
                streams += list(cur.values())
                cur = {}
            cur[e["node"]] = [e]
        else:
            cur.setdefault(e["node"], []).append(e)
    streams += list(cur.values())
    flat = [e for s in streams for e in s]
    per_node = os.path.join(wd, "per-node.ndjson")
    with open(per_node, "w") as f:
        for e in flat:
            f.write(json.dumps(e) + "\n")
    res = vlib.validate("NodeTtlTrace", per_node, timeout=1800)
    nomatch = sum(1 for e in events if e["op"] == "nomatch")
    chk.add_traces(len(streams), len(flat), res, "System.tla schedules on %d-node clusters (per-node streams)" % nmax)
    chk.cov["system_schedule_steps_without_matching_message"] = nomatch
    for e in flat:
        chk.nontrivial(["sys", e["op"], e.get("via"), e.get("res"), e.get("ok"), e.get("cleaned"), len(e["proj"]["chunks"]), len(e["proj"]["pend"])])
    vlib.report_trace_violations(chk, res, flat, label="System.tla schedules on real nodes", behaviours=beh, harness="system")
    log("[system] %d behaviours, %d node streams, %d events, %d clause failures, %d schedule steps without a matching message in flight" % (
        len(beh), len(streams), len(flat), len(res["viol"]), nomatch))
    return res
