"""Transport group (C14): spec/Transport*.tla, harness/transport.cpp.

Pipeline: TLC checks design => contract on the scaled model (MAX = 2 and 3; deviation and reachability cfgs) ->
TLC's state cover (one action path per distinct abstract state) is mapped to driver scripts (size classes of the model ->
0 / {1,63,64,65} / {2^20-1, 2^20} / {2^20+1, 2^31, 2^32-1}) -> plus fixed boundary, burst, oversized-prefix, timing and
concurrent-sender scripts and seeded random behaviours -> harness/transport.cpp runs them on REAL SessionManager objects
over loopback (pair / outbound-to-raw-endpoint / inbound-from-raw-endpoint) -> TLC validates the recorded trace against
the contract (TransportTrace.tla), recomputing the frame cipher of small frames with the executable ChaCha20 reference.
No verdict is computed in python: python only builds scripts, bounds the number of reference cipher blocks handed to TLC
(by removing the byte arrays of some small frames; their hashes stay) and decides whether to repeat a racy scenario."""
import json, os, re, time
from concurrent.futures import ThreadPoolExecutor
import vlib
from vlib import log, MachineryError

MAXB = 1 << 20
SMALL = [1, 63, 64, 65]
ALL_INVS = "C14_InOrderExactlyOnce C14_NothingLost C14_FreshNonce C14_Encrypted C14_OversizedNotSent C14_OversizedNotAccepted C14_OversizedCloses C14_NotBuffered + action property C14_RefusedSendNoEffect"
DEV = (("dev_buffered", "C14_NotBuffered"), ("dev_staysopen", "C14_OversizedCloses"), ("dev_noncereuse", "C14_FreshNonce"), ("dev_sessionnonce", "C14_FreshNonce"),
       ("dev_duplicate", "C14_InOrderExactlyOnce"),
       ("reach_oversizedclosed", "Reach_OversizedClosed"), ("reach_limitdelivered", "Reach_LimitDelivered"), ("reach_sendrefused", "Reach_SendRefused"),
       ("reach_backlog", "Reach_Backlog"), ("reach_validbehindoversized", "Reach_ValidBehindOversized"))
ASSUME = ["schedules are those loopback TCP produces, varied by: eager / gated / slow consumer, writes cut into 1..7-byte pieces, pauses between sends, "
          "bursts, full-duplex and several concurrent sender threads per session (each thread's own order is demanded, not an order between threads)",
          "payload identity through an independent SHA-256 in the harness; frames of at most 256 bytes are logged byte for byte and their cipher is recomputed by TLC "
          "(ChaCha20.tla) for a seeded sample bounded by a block budget; larger frames are decrypted by the harness with the repo's ChaCha20 (bound to RFC 8439 by C09)",
          "'not buffered' is observed as: no single allocation above 1 MiB + 4 KiB on a SessionManager thread after an oversized announcement (operator new is "
          "interposed in the driver; requests above 64 MiB are refused) and the session closing whether or not the announced body is sent",
          "'session ends' is observed as is_connected() == false on the real side and EOF/RST on the harness' socket within VERIF_TRANSPORT_TIMEOUT_MS (10 s; after a first time-out in a driver run the remaining waits of that run use 0.3 s)",
          "std::random_device is interposed (deterministic stream, seeded per behaviour), so nonce freshness is checked on the real nonce derivation, not on the OS entropy source"]


# ------------------------------------------------------------------------------------------- TLC side
def model_check(chk):
    jobs = [("MC_Transport.cfg", None), ("MC_Transport_max3.cfg", None), ("MC_Transport_reconnect.cfg", None)] + [("MC_Transport_%s.cfg" % c, inv) for c, inv in DEV]
    with ThreadPoolExecutor(max_workers=6) as ex:
        futs = [(cfg, inv, ex.submit(vlib.mc, "Transport", cfg, expect_violation=inv, workers=2, timeout=600, heap="1g")) for cfg, inv in jobs]
        res = [(cfg, inv, f.result()) for cfg, inv, f in futs]
    for cfg, inv, r in res:
        if inv is None:
            chk.add_model("Transport design=>contract %s" % ("(MAX=2, 6 payloads, 3 valid + 4 oversized hand-written frames, <=3 frames)" if cfg == "MC_Transport.cfg"
                                                             else "(as MC_Transport.cfg with the session dropping and being re-established under the same key, <=4 frames: nonces stay fresh across sessions)" if "reconnect" in cfg
                                                             else "(MAX=3, all 31 bit-string payloads of length 0..4, <=2 frames)"), r, "invariants " + ALL_INVS)
    return res


def size_of(ln, bit, pos):
    if ln == 0:
        return 0
    if ln == 1:
        return SMALL[(bit * 2 + pos) % 4]
    if ln == 2:
        return [MAXB - 1, MAXB][bit]
    return [MAXB + 1, 2 * MAXB][(bit + pos) % 2]


def hist_to_script(h, idx):
    """one TLC action path -> driver lines.  Returns (lines, number of frames of ~1 MiB it moves)"""
    has_raw = any(a["op"] in ("rawok", "rawbig") for a in h)
    sizes = []
    for pos, a in enumerate(h):
        if a["op"] == "send":
            p = a["p"]
            sizes.append(size_of(len(p), p[0] if p else 0, pos))
        elif a["op"] == "rawok":
            b = a["body"]
            sizes.append(size_of(len(b), b[0] if b else 0, pos))
    big = sum(1 for s in sizes if s >= MAXB - 1)
    seed = 1000 + idx
    lines = []
    if not has_raw:
        mode = "pair" if idx % 2 == 0 else "out"
        frm = "B" if (mode == "pair" and idx % 4 == 2) else "A"
        gate = 1 if (mode == "pair" and all(s <= 65 for s in sizes)) else 0
        lines.append("reset mode=%s seed=%d gate=%d hs=%d ack=%d" % (mode, seed, gate, 0 if (mode == "out" and idx % 3 == 0) else 1, 1 if idx % 5 == 0 else 0))
        k = 0
        for pos, a in enumerate(h):
            if a["op"] == "send":
                lines.append("send from=%s n=%d seed=%d" % (frm, sizes[k], seed * 10 + pos))
                k += 1
            elif a["op"] == "recv":
                lines.append("recv" if gate else "sync")
    else:
        mode = "in" if idx % 2 == 0 else "out"
        real = "B" if mode == "in" else "A"
        lines.append("reset mode=%s seed=%d hs=1 ack=%d" % (mode, seed, 1 if idx % 5 == 0 else 0))
        k = 0
        for pos, a in enumerate(h):
            if a["op"] in ("send", "rawok"):
                n = sizes[k]
                k += 1
                if n > MAXB:      # the honest sender refuses: exercise the real refusal in the reverse direction
                    lines.append("send from=%s n=%d seed=%d" % (real, n, seed * 10 + pos))
                else:
                    lines.append("raw L=%d valid=1 seed=%d chunk=%d" % (n, seed * 10 + pos, [0, 0, 1, 7][(idx + pos) % 4] if n <= 65 else 0))
            elif a["op"] == "rawbig":
                L = MAXB + 1 if a["len"] == 3 else [1 << 31, (1 << 32) - 1][(idx + pos) % 2]
                body = 0 if not a["body"] else min(L, MAXB + 1 if a["len"] == 3 else 3 * MAXB)
                big += 1 if body else 0
                lines.append("raw L=%d body=%d seed=%d chunk=%d" % (L, body, seed * 10 + pos, [0, 5][(idx + pos) % 2] if body == 0 else 0))
            elif a["op"] == "recv":
                lines.append("sync")
    lines.append("close")
    return lines, big


def model_scripts(chk, hists, n_behaviours, big_budget):
    rng = chk.rng
    idxs = list(range(len(hists)))
    rng.shuffle(idxs)
    out, big_used = [], 0
    for i in idxs:
        if len(out) >= n_behaviours:
            break
        if not hists[i]:
            continue
        lines, big = hist_to_script(hists[i], i)
        if big_used + big > big_budget:
            continue
        big_used += big
        out.append(lines)
    return out


# ------------------------------------------------------------------------------------------- fixed scripts
SIZES = [0, 1, 63, 64, 65, MAXB - 1, MAXB]


def boundary_scripts():
    out = []
    seq = [0, 1, 63, MAXB + 1, 64, 65, MAXB - 1, MAXB, MAXB + 1, 2 * MAXB, 0, 1, MAXB]     # refused sends in the middle: the stream must go on unharmed
    for seed, (mode, frm, extra) in enumerate((("pair", "A", "hs=1 ack=0"), ("pair", "B", "hs=1 ack=1"), ("out", "A", "hs=0"), ("out", "A", "hs=1 ack=1"), ("in", "B", "hs=1 ack=1")), 1):
        lines = ["reset mode=%s seed=%d %s" % (mode, 100 + seed, extra)]
        for k, n in enumerate(seq):
            lines.append("send from=%s n=%d seed=%d" % (frm, n, (seed * 100 + k) if k % 5 else 0))     # seed 0: all-zero payload (body = bare keystream)
        lines += ["sync", "close"]
        out.append(lines)
    for seed, mode in enumerate(("in", "out"), 1):
        lines = ["reset mode=%s seed=%d hs=1" % (mode, 200 + seed)]
        for k, n in enumerate(SIZES + SIZES):
            lines.append("raw L=%d valid=1 seed=%d chunk=%d" % (n, (seed * 100 + k) if k % 4 else 0, [0, 1, 3, 7][k % 4] if n <= 65 else [0, 65536][k % 2]))
        lines += ["sync", "close"]
        out.append(lines)
    return out


def burst_scripts():
    out = []
    out.append(["reset mode=pair seed=301", "send from=A n=0 count=50 vary=7 seed=3", "sync", "close"])
    out.append(["reset mode=pair seed=302 gate=1", "send from=A n=3 count=50 vary=5 seed=4"] + ["recv"] * 50 + ["sync", "close"])
    out.append(["reset mode=pair seed=303", "send from=B n=60 count=50 vary=1 seed=5", "send from=A n=64 count=50 seed=6", "sync", "close"])      # 50 identical sizes, distinct contents
    out.append(["reset mode=out seed=304", "send from=A n=1 count=50 vary=3 seed=7", "sync", "close"])
    out.append(["reset mode=out seed=305 hs=0", "send from=A n=1000 count=50 vary=20011 seed=8", "sync", "close"])          # sizes across the whole range
    out.append(["reset mode=pair seed=306 slow=300", "send from=A n=70000 count=50 vary=19001 seed=9", "sync", "close"])
    lines = ["reset mode=in seed=307"]
    for k in range(50):
        lines.append("raw L=%d valid=1 seed=%d chunk=%d" % ((k * 5) % 131, 900 + k, [1, 0, 2, 7, 0][k % 5]))
    out.append(lines + ["sync", "close"])
    lines = ["reset mode=out seed=308 hs=1 ack=1"]
    for k in range(50):
        lines.append("raw L=%d valid=1 seed=%d" % (max(0, 64 * (k % 4) + (k % 3) - 1), 950 + k))
        if k % 10 == 9:
            lines.append("send from=A n=%d seed=%d" % (k, k))
    out.append(lines + ["sync", "close"])
    # two identical payloads in a row are two deliveries
    out.append(["reset mode=pair seed=309", "send from=A n=0", "send from=A n=0", "send from=A n=5 seed=0", "send from=A n=5 seed=0", "sync", "close"])
    return out


def reconnect_scripts():
    """one real manager, several sessions to the same peer under the same key (peer drops, manager connects again): 'a fresh nonce'
    is a statement about everything sent under that key, not about one session"""
    out = []
    for seed, hs, n, cnt in ((701, 1, 40, 4), (702, 0, 1, 6), (703, 1, 1000, 3)):
        lines = []
        for k in range(3):
            lines += ["reset mode=out seed=%d hs=%d%s" % (seed, hs, " keep=1" if k else ""), "send from=A n=%d count=%d vary=3 seed=%d" % (n, cnt, 11 + k), "sync"]
        out.append(lines + ["close"])
    return out


def oversized_scripts(huge):
    """length prefixes above the limit, with and without body, followed by a valid frame that must not be delivered"""
    out = []
    seed = 400
    prefixes = [(1 << 31), (1 << 32) - 1, MAXB + 4097, 16 * MAXB] if huge else [MAXB + 1, MAXB + 2, 2 * MAXB]
    for mode in ("in", "out"):
        for L in prefixes:
            for body in (0, 1):
                for chunk in ((0, 5) if body == 0 else (0,)):
                    seed += 1
                    b = 0 if not body else min(L, 3 * MAXB)
                    out.append(["reset mode=%s seed=%d hs=1" % (mode, seed), "raw L=10 valid=1 seed=1", "raw L=%d valid=1 seed=2" % (MAXB if seed % 3 == 0 else 64),
                                "raw L=%d body=%d seed=3 chunk=%d" % (L, b, chunk), "raw L=20 valid=1 seed=4", "sync",
                                "send from=%s n=5 seed=5" % ("B" if mode == "in" else "A"), "close"])
    return out


def timing_scripts():
    out = []
    out.append(["reset mode=pair seed=501", "send from=A n=100 count=10 vary=77 seed=1 us=500", "pause us=3000", "send from=A n=65 count=5 seed=2 us=2000", "sync", "close"])
    out.append(["reset mode=pair seed=502", "csend from=AB threads=2 count=10 n=200000 vary=30011 seed=3", "sync", "close"])        # full duplex, one thread each way
    out.append(["reset mode=pair seed=503", "csend from=AB threads=4 count=25 n=10 vary=37 seed=4", "sync", "close"])
    out.append(["reset mode=out seed=504 slow=200", "send from=A n=300000 count=12 vary=55001 seed=5", "sync", "send from=A n=64 seed=6", "sync", "close"])
    return out


def concurrent_script(attempt):
    # many threads, frames larger than the socket buffer, a slow consumer: sender threads block inside a frame
    return [["reset mode=pair seed=%d slow=15000" % (600 + attempt), "csend from=A threads=16 count=4 n=1000000 vary=1237 seed=%d" % (7 + attempt), "sync", "close"],
            ["reset mode=out seed=%d slow=4000 rcvbuf=65536" % (650 + attempt), "csend from=A threads=8 count=4 n=500000 vary=1237 seed=%d" % (9 + attempt), "sync", "close"]]


def random_scripts(rng, n):
    out = []

    def rsize():
        x = rng.random()
        if x < 0.25:
            return rng.choice([0, 1, 2, 15, 16, 17, 63, 64, 65, 127, 128, 129, 255, 256, 257])
        if x < 0.6:
            return rng.randrange(0, 4096)
        if x < 0.85:
            return rng.choice([65535, 65536, 65537, 131071, 131072, rng.randrange(4096, 300000)])
        if x < 0.95:
            return rng.choice([MAXB - 1, MAXB, MAXB - rng.randrange(2, 70000)])
        return rng.choice([MAXB + 1, MAXB + rng.randrange(2, 500000), 2 * MAXB])

    for b in range(n):
        mode = rng.choice(["pair", "pair", "out", "in"])
        real = {"pair": "A", "out": "A", "in": "B"}[mode]
        lines = ["reset mode=%s seed=%d hs=%d ack=%d slow=%d" % (mode, rng.randrange(1, 10 ** 6), 1 if mode != "out" else rng.randrange(2), rng.randrange(2),
                                                                rng.choice([0, 0, 0, 100, 1000]))]
        closed = False
        for _ in range(rng.randint(2, 14)):
            x = rng.random()
            if mode == "pair":
                frm = rng.choice(["A", "A", "B"])
                if x < 0.8:
                    lines.append("send from=%s n=%d seed=%d%s" % (frm, rsize(), rng.randrange(0, 10 ** 6), (" us=%d" % rng.choice([50, 500, 2000])) if rng.random() < 0.2 else ""))
                elif x < 0.9:
                    lines.append("send from=%s n=%d count=%d vary=%d seed=%d" % (frm, rng.randrange(0, 300), rng.randint(2, 20), rng.randrange(0, 50), rng.randrange(1, 10 ** 6)))
                else:
                    lines.append("sync")
            else:
                if x < 0.4:
                    lines.append("send from=%s n=%d seed=%d" % (real, rsize(), rng.randrange(0, 10 ** 6)))
                elif x < 0.85 or closed:
                    n_ = rsize()
                    if n_ > MAXB:
                        n_ = MAXB
                    lines.append("raw L=%d valid=1 seed=%d chunk=%d" % (n_, rng.randrange(0, 10 ** 6), rng.choice([0, 0, 1, 2, 7, 64]) if n_ < 2000 else rng.choice([0, 0, 4096, 65536])))
                elif x < 0.92:
                    lines.append("sync")
                else:
                    L = rng.choice([MAXB + 1, MAXB + rng.randrange(2, 10 ** 6), 1 << 24, 1 << 31, (1 << 32) - 1, (1 << 31) + rng.randrange(1 << 20)])
                    lines.append("raw L=%d body=%d seed=%d chunk=%d" % (L, rng.choice([0, 0, 1, 15, 16, 17, 5000, min(L, MAXB + 1)]), rng.randrange(1, 10 ** 6), rng.choice([0, 3])))
                    closed = True
        lines += ["sync", "close"]
        out.append(lines)
    return out


# ------------------------------------------------------------------------------------------- driver + validation
SAN_RE = re.compile(r"ERROR: (AddressSanitizer|LeakSanitizer): ([A-Za-z0-9_-]+)|runtime error: ([^\n]{0,80})")


def run_driver(chk, behaviours, label, flavour="plain", timeout=900):
    """returns (events, script_lines_per_behaviour); a driver that dies is a sanitizer finding (asan flavour), a refused giant
    allocation (the alloc event is in the trace, validated like everything else) or a machinery error"""
    b = vlib.build("transport", flavour)["transport"]
    wd = vlib.workdir("transport-%s-%s-%s" % (chk.pid, label, flavour))
    script, trace = os.path.join(wd, "script.txt"), os.path.join(wd, "trace.ndjson")
    with open(script, "w") as f:
        for lines in behaviours:
            f.write("\n".join(lines) + "\n")
    t0 = time.time()
    env = {"ASAN_OPTIONS": "detect_leaks=0:abort_on_error=0:exitcode=77:alloc_dealloc_mismatch=0", "UBSAN_OPTIONS": "print_stacktrace=1:halt_on_error=1:exitcode=78"}
    rc, outp = vlib.sh([b, script, trace], timeout=timeout, check=False, env=env)
    events = read_tolerant(trace)
    log("[driver] %s (%s): %d behaviours, %d events, rc=%d, %.1fs" % (label, flavour, len(behaviours), len(events), rc, time.time() - t0))
    if rc != 0:
        m = SAN_RE.search(outp)
        if m:
            kind = m.group(2) or "undefined-behaviour"
            chk.report("C14.sanitizer/" + kind, "the sanitizer (monitor) stopped the transport driver in '%s': %s" % (label, (m.group(0) or "")[:160]),
                       ["# driver output (tail)"] + outp[-3000:].splitlines() + ["# script"] + [ln for b_ in behaviours for ln in b_][:400], replay_name="sanitizer-" + kind)
        elif any(e.get("op") == "alloc" for e in events):
            log("[driver] %s: the driver was stopped by a refused allocation (> 64 MiB) on a SessionManager thread; the recorded prefix is validated" % label)
        else:
            raise MachineryError("transport driver failed rc=%d in '%s':\n%s" % (rc, label, outp[-3000:]))
    for e in events:
        if e.get("op") == "reset" and not e.get("connected"):
            raise MachineryError("a session did not come up in '%s' (mode %s, seed %s): nothing to check" % (label, e.get("mode"), e.get("seed")))
    return events


def read_tolerant(path):
    out = []
    if not os.path.exists(path):
        return out
    for ln in open(path):
        ln = ln.strip()
        if not ln:
            continue
        try:
            out.append(json.loads(ln))
        except ValueError:
            break          # a line cut short by a dying driver
    return out


def bound_cipher(chk, events, block_budget):
    """keep the byte arrays (ct/pt) of small frames for a seeded sample worth at most block_budget reference blocks"""
    idx = [i for i, e in enumerate(events) if e.get("op") in ("wire", "raw") and "ct" in e]
    chk.rng.shuffle(idx)
    seen_sizes = set()
    idx.sort(key=lambda i: 0 if events[i]["n"] not in seen_sizes and not seen_sizes.add(events[i]["n"]) else 1)   # one of every size first
    used = 0
    for i in idx:
        e = events[i]
        cost = (e["n"] + 63) // 64
        if used + cost <= block_budget:
            used += cost
        else:
            e.pop("ct", None)
            e.pop("pt", None)
    return used


def validate_all(chk, groups, block_budget, label):
    """groups: list of (label, events).  One TLC run over the concatenation."""
    allev, spans, scripts = [], [], []      # scripts[k] = driver lines of the k-th behaviour (k-th reset event) of the concatenation
    for lab, evs, behs in groups:
        spans.append((len(allev) + 1, lab))
        allev += evs
        nres = sum(1 for e in evs if e["op"] == "reset")
        per_reset = [b_ for b_ in behs for _ in range(max(1, sum(1 for ln in b_ if ln.startswith("reset"))))]   # a scenario may span several sessions
        scripts += (per_reset + [[]] * nres)[:nres]
    if not allev:
        return None
    blocks = bound_cipher(chk, allev, block_budget)
    wd = vlib.workdir("transport-validate-%s-%s" % (chk.pid, label))
    trace = os.path.join(wd, "trace.ndjson")
    with open(trace, "w") as f:
        for e in allev:
            f.write(json.dumps(e, separators=(",", ":")) + "\n")
    res = vlib.validate("TransportTrace", trace, timeout=1500, heap="3g")
    nb = sum(1 for e in allev if e["op"] == "reset")
    chk.add_traces(nb, len(allev), res, label + ": " + ", ".join("%s" % lab for _, lab in spans))
    for e in allev:
        op = e["op"]
        if op in ("send", "deliver", "wire"):
            n = e["n"]
            cls = "0" if n == 0 else "small" if n <= 65 else "mid" if n < MAXB - 1 else "limit" if n <= MAXB else "over"
            chk.nontrivial([op, e.get("dir"), cls, e.get("ok"), "ct" in e])
        elif op == "raw":
            L = e["L"][0] * 65536 + e["L"][1]
            chk.nontrivial(["raw", e["dir"], "over" if L > MAXB else "limit" if L >= MAXB - 1 else "small", e["k"] > 0, e["chunk"] > 0])
        elif op == "state":
            chk.nontrivial(["state", e["ca"], e["cb"], e["hc"]])
    # replay file = the driver script of the failing behaviour (re-runnable: tools/check C14 --replay <file>), preceded by
    # the recorded events up to the failing one as comments
    starts = [i + 1 for i, e in enumerate(allev) if e["op"] == "reset"]
    for v in res.get("viol", []):
        lab = next((lb for start, lb in reversed(spans) if start <= v["l"]), "?")
        k = max([j for j, st in enumerate(starts) if st <= v["l"]] or [0])
        lines = ["# scenario %s, failing event at trace line %d: %s" % (lab, v["l"], json.dumps(v.get("detail")))]
        for e in allev[starts[k] - 1: v["l"]][-60:]:
            lines.append("# recorded: " + json.dumps({kk: vv for kk, vv in e.items() if kk not in ("key", "ct", "pt")}))
        lines += scripts[k] if k < len(scripts) else []
        for cl in (v["clause"] if isinstance(v["clause"], list) else [v["clause"]]):
            chk.report(cl, "%s contract clause %s fails on a recorded execution of real SessionManager sessions (scenario %s)" % (chk.pid, cl, lab), lines, replay_name=cl)
    log("[trace] %s: %d behaviours, %d events, %d reference cipher blocks, %d clause failures, stats %s" % (
        label, nb, len(allev), blocks, len(res.get("viol", [])), json.dumps(res.get("stats"))))
    return res


def looks_broken(events):
    """cheap look (NOT a verdict) used only to decide whether a racy scenario needs another attempt"""
    sends = sum(1 for e in events if e["op"] == "send" and e["ok"])
    got = sum(1 for e in events if e["op"] in ("deliver", "wire"))
    return sends != got or any(e["op"] == "send" and not e["ok"] and e["n"] <= MAXB for e in events)


def replay(chk, path):
    """re-run the driver script of a replay file on the real code and validate the trace (a racy scenario is repeated up to 3 times)"""
    cmds = [x.rstrip("\n") for x in open(path) if x.strip() and not x.startswith("#")]
    if not cmds or not cmds[0].startswith("reset"):
        raise MachineryError("replay file has no script (must start with reset): %s" % path)
    groups = []
    for attempt in range(3 if any(c.startswith("csend") for c in cmds) else 1):
        evs = run_driver(chk, [cmds], "replay-%d" % attempt)
        groups.append(("replay-%d" % attempt, evs, [cmds]))
        if looks_broken(evs):
            break
    validate_all(chk, groups, 400, "replay")


def run(chk):
    thorough = chk.tier == "thorough"
    model_check(chk)
    r, hists = vlib.dump_hists("Transport", "MC_Transport.cfg", workers=4, timeout=900, heap="2g")
    groups = []
    ms = model_scripts(chk, hists, 2000 if thorough else 220, 1200 if thorough else 100)
    log("[gen] %d TLC state-cover paths, %d replayed" % (len(hists), len(ms)))
    for lab, sc in (("tlc-state-cover", ms), ("boundary-sizes", boundary_scripts()), ("bursts", burst_scripts()), ("oversized-prefix", oversized_scripts(False)),
                    ("oversized-prefix-huge", oversized_scripts(True)), ("timing", timing_scripts()), ("random", random_scripts(chk.rng, 1500 if thorough else 120)), ("reconnect-same-key", reconnect_scripts())):
        groups.append((lab, run_driver(chk, sc, lab), sc))
    # concurrent senders on one session: a race, so the scenario is repeated until it shows a problem (at most 3 / 6 times)
    for attempt in range(6 if thorough else 3):
        evs = run_driver(chk, concurrent_script(attempt), "concurrent-senders-%d" % attempt)
        groups.append(("concurrent-senders-%d" % attempt, evs, concurrent_script(attempt)))
        if looks_broken(evs):
            break
    validate_all(chk, groups, 2000 if thorough else 320, "real-sessions")
    if thorough:
        # the same driver under ASan + UBSan (the sanitizer is a monitor: its report is the violation)
        g2 = []
        for lab, sc in (("boundary-sizes", boundary_scripts()), ("bursts", burst_scripts()), ("oversized-prefix", oversized_scripts(False) + oversized_scripts(True)),
                        ("random", random_scripts(chk.rng, 300)), ("concurrent-senders", concurrent_script(0))):
            g2.append((lab + "-asan", run_driver(chk, sc, lab, flavour="asan", timeout=1500), sc))
        validate_all(chk, g2, 600, "real-sessions-asan")
        chk.assumptions.append("thorough tier: the same scripts also run with the driver built -fsanitize=address,undefined (monitor; a report is clause C14.sanitizer/<kind>)")
    chk.sample({"scenario": "tlc-state-cover", "tlc_action_path": hists[len(hists) // 2], "driver_script": hist_to_script(hists[len(hists) // 2], len(hists) // 2)[0]})
    chk.sample({"scenario": "oversized-prefix-huge", "driver_script": oversized_scripts(True)[1],
                "recorded": [{k: v for k, v in e.items() if k not in ("key", "ct", "pt")} for e in groups[4][1][11:22]]})
    chk.sample({"scenario": "boundary-sizes", "first_events": [{k: v for k, v in e.items() if k not in ("key", "ct", "pt")} for e in groups[1][1][:6]]})
    chk.assumptions += ASSUME
