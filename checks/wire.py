"""Message wire codec machinery shared by C15 and C16 (spec/Wire.tla, spec/MC_Wire.tla, spec/WireTrace.tla,
harness/wire.cpp).

C15  TLC checks the round-trip / version-clamp lemmas of the executable reference on the small domain and
     exports every message of it; the real encode/decode/encode_signed/decode_signed run on those plus seeded
     random large messages; TLC (WireTrace) decides decode(encode(m)) = Norm(m) on the logged values.
C16  TLC checks "accepted => re-encoding is a prefix" on every structural mutation of the reference encodings
     and exports the mutated buffers; the real decoders run on those, on layout-agnostic mutations of real
     encodings (harness) and on seeded random buffers, plain and signed; TLC decides the prefix clause on the
     logged (input, result, re-encoding); the same script is replayed on the ASan+UBSan build (monitor).
"""
import json, os, re, shutil, concurrent.futures
import vlib
from vlib import log

FIELDS = {
    1: ["chunk_id", "peer_id", "endpoint", "ttl", "manifest_uri", "assigned_shards", "work_nonce"],
    2: ["chunk_id", "requester"],
    3: ["chunk_id", "data", "ttl"],
    4: ["chunk_id", "peer_id", "accepted"],
    5: ["public_identity", "work_nonce", "requested_version"],
    6: ["accepted", "negotiated_version", "responder_public"],
}
TYPE_NAMES = {1: "announce", 2: "request", 3: "chunk", 4: "acknowledge", 5: "handshake", 6: "handshake-ack"}
SCALARS = {"accepted", "requested_version", "negotiated_version"}
KEYS = ["", "00", "6b", "00112233445566778899aabbccddeeff00112233445566778899aabbccddeeff",
        "aa" * 64, "5c" * 65, "36" * 200]


# ----------------------------------------------------------------------------------------------------
# spec side: lemma models, vacuity guards, case export
def tla_to_json(text):
    """a TLA+ value made of tuples, records, strings, integers and booleans -> python (via json)"""
    t = text.replace("[", "{").replace("]", "}").replace("<<", "[").replace(">>", "]")
    t = re.sub(r"([A-Za-z_][A-Za-z0-9_]*) \|->", r'"\1":', t)
    t = re.sub(r"\bTRUE\b", "true", t)
    t = re.sub(r"\bFALSE\b", "false", t)
    return json.loads(t)


def model_check_and_export(chk, cfg="MC_Wire.cfg", timeout=900):
    """model-check the lemma model with -dump; returns (TlcOut, messages, mutated buffers)"""
    wd = vlib.workdir("wire-dump-%s-%d" % (chk.pid, os.getpid()))
    dumpf = os.path.join(wd, "dump")
    r = vlib.mc("MC_Wire", cfg, extra=["-dump", dumpf], wd=wd, workers=8, timeout=timeout)
    path = dumpf + ".dump" if os.path.exists(dumpf + ".dump") else dumpf
    text = open(path).read()
    msgs, muts = [], []
    for block in re.split(r"^State \d+:\s*$", text, flags=re.M)[1:]:
        m = re.search(r"case = (.*)", block, flags=re.S)
        if not m:
            continue
        val = tla_to_json(m.group(1).strip())
        if val[0] == "msg":
            msgs.append(val[1])
        elif val[0] == "mut":
            muts.append((val[1], bytes(val[2])))
    shutil.rmtree(wd, ignore_errors=True)
    if not msgs or not muts:
        raise vlib.MachineryError("case export from %s produced %d messages / %d mutations" % (cfg, len(msgs), len(muts)))
    return r, msgs, muts


def side_models(chk, which):
    """deviation models must violate the named lemma, scenarios must be reachable (vacuity guards)"""
    def one(item):
        cfg, inv = item
        return cfg, vlib.mc("MC_Wire", "MC_Wire_%s.cfg" % cfg, expect_violation=inv, workers=2, timeout=300, heap="2g")
    with concurrent.futures.ThreadPoolExecutor(max_workers=4) as ex:
        for cfg, r in ex.map(one, which):
            pass


# ----------------------------------------------------------------------------------------------------
# scripts
def hx(v):
    if isinstance(v, bool):
        return "01" if v else "00"
    if isinstance(v, int):
        return "%02x" % v
    return bytes(v).hex()


def msg_line(i, m, key, mut=False):
    parts = ["msg id=%d v=%d ty=%d" % (i, m["v"], m["ty"])]
    for f in FIELDS[m["ty"]]:
        parts.append("%s=%s" % (f, hx(m[f])))
    parts.append("key=%s" % key)
    if mut:
        parts.append("mut=1")
    return " ".join(parts)


def random_message(rng, big=False):
    ty = rng.choice([1, 1, 1, 2, 3, 3, 4, 5, 6])
    v = rng.choice([0, 1, 2, 3, 3, 4, 4, 5, 6, 7, 100, 254, 255])
    rb = lambda n: bytes(rng.getrandbits(8) for _ in range(n))
    def rlen():
        x = rng.random()
        if big and x < 0.25:
            return rng.choice([255, 256, 257, 65535, 65536, 65537, 70001])
        if x < 0.2:
            return 0
        if x < 0.7:
            return rng.randint(1, 40)
        return rng.randint(41, 600)
    u32 = lambda: rng.choice([0, 1, 3600, 0x7FFFFFFF, 0x80000000, 0xFFFFFFFF, rng.getrandbits(32)]).to_bytes(4, "big")
    u64 = lambda: rng.choice([0, 1, 0xFFFFFFFF, 0x100000000, 0x8000000000000000, 0xFFFFFFFFFFFFFFFF, rng.getrandbits(64)]).to_bytes(8, "big")
    m = {"v": v, "ty": ty}
    for f in FIELDS[ty]:
        if f in ("chunk_id", "peer_id", "requester"):
            m[f] = rb(32)
        elif f in ("endpoint", "manifest_uri", "assigned_shards", "data"):
            m[f] = rb(rlen())
        elif f in ("ttl", "public_identity", "responder_public"):
            m[f] = u32()
        elif f == "work_nonce":
            m[f] = u64()
        elif f == "accepted":
            m[f] = rng.random() < 0.5
        else:
            m[f] = rng.choice([0, 1, 2, 3, 4, 5, 255, rng.getrandbits(8)])
    return m


# ----------------------------------------------------------------------------------------------------
# real code + trace validation
def split_events(trace, wd, max_bytes=48 << 20):
    """split an ndjson trace into pieces TLC can hold comfortably; returns [(path, first_line)]"""
    pieces, cur, size, first, n = [], None, 0, 1, 0
    with open(trace) as f:
        for line in f:
            if cur is None or size + len(line) > max_bytes:
                if cur:
                    cur.close()
                path = os.path.join(wd, "trace-%03d.ndjson" % len(pieces))
                pieces.append((path, n + 1))
                cur = open(path, "w")
                size = 0
            cur.write(line)
            size += len(line)
            n += 1
    if cur:
        cur.close()
    return pieces


def classify(e):
    """coverage key of one event (distinct non-trivial case classes)"""
    if e["op"] == "rt":
        m = e["m"]
        shape = tuple(min(len(m[f]), 3) if isinstance(m.get(f), list) else -1 for f in ("endpoint", "manifest_uri", "assigned_shards", "data"))
        return ["rt", m["ty"], m["v"], shape, e["dec"]["ok"]]
    if e["op"] == "dec":
        ty = e["res"]["m"]["ty"] if e["res"]["ok"] else (e["in"][1] if e.get("in") and len(e["in"]) > 1 else -1)
        return ["dec", e["src"], e["kind"], e["signed"], e["res"]["ok"], ty if ty in range(1, 7) else -1,
                (len(e.get("reenc", [])) < e["n"]) if e["res"]["ok"] else None]
    return None


def run_real(chk, lines, label, flavour="plain", keep_trace=True, timeout=900):
    b = vlib.build("wire", flavour)["wire"]
    wd = vlib.workdir("wire-%s-%s-%s" % (chk.pid, label, flavour))
    script = os.path.join(wd, "script.txt")
    trace = os.path.join(wd, "trace.ndjson")
    with open(script, "w") as f:
        f.write("\n".join(lines) + "\n")
    env = {"ASAN_OPTIONS": "detect_leaks=0:abort_on_error=0:halt_on_error=1", "UBSAN_OPTIONS": "print_stacktrace=1:halt_on_error=1"}
    rc, out = vlib.sh([b, script, trace if keep_trace else "/dev/null"], timeout=timeout, env=env, check=False)
    return wd, script, trace, rc, out


def tlc_validate(path, tag):
    """one TLC run of WireTrace on one ndjson piece (thread-safe: private metadir)"""
    wd = vlib.workdir("wire-validate-%s-%d" % (tag, os.getpid()))
    r = vlib.tlc("WireTrace", "WireTrace.cfg", workers=1, timeout=900, env={"TRACE": path}, heap="8g", wd=wd)
    shutil.rmtree(wd, ignore_errors=True)
    res = r.results()
    if not res:
        raise vlib.MachineryError("trace validation produced no result (WireTrace on %s):\n%s" % (path, r.out[-4000:]))
    out = res[-1]
    out["wall"] = r.dt
    return out


def validate_traces(chk, jobs, prop_prefix, extra=None):
    """jobs: [(label, trace, wd)].  All TLC validations (and the optional extra callable, e.g. the sanitizer
    replay) run concurrently; accounting and reporting happen afterwards in this thread.  Returns {label: stats}."""
    pieces = []
    for label, trace, wd in jobs:
        for k, (path, first) in enumerate(split_events(trace, wd)):
            pieces.append((label, trace, path, first, "%s-%s-%d" % (chk.pid, re.sub(r"[^A-Za-z0-9]", "", label), k)))
    with concurrent.futures.ThreadPoolExecutor(max_workers=6) as ex:
        fx = ex.submit(extra) if extra else None
        results = list(ex.map(lambda p: tlc_validate(p[2], p[4]), pieces))
        if fx:
            fx.result()
    per_label = {}
    for (label, trace, path, first, tag), res in zip(pieces, results):
        acc = per_label.setdefault(label, {"events": 0, "nviol": 0, "t": 0.0, "stats": {}})
        acc["t"] += res.get("wall", 0)
        events = vlib.read_ndjson(path)
        acc["events"] += len(events)
        for k, v in (res.get("stats", {}).get("s") or {}).items():
            acc["stats"][k] = acc["stats"].get(k, 0) + v
        for e in events:
            k = classify(e)
            if k and k[0] == ("rt" if prop_prefix == "C15" else "dec"):
                chk.nontrivial(k)
        for v in res.get("viol", []):
            clauses = v["clause"] if isinstance(v["clause"], list) else [v["clause"]]
            e = events[v["l"] - 1]
            for cl in clauses:
                acc["nviol"] += 1
                chk.report(cl, describe(cl, e), ["# %s, trace line %d of %s" % (label, first + v["l"] - 1, os.path.basename(trace)), replay_line(e),
                                                 "# recorded event:", json.dumps(shrink(e, 4096))], replay_name=cl)
        if events and len(chk.cov["samples"]) < 6 and "sampled" not in acc:
            acc["sampled"] = True
            ex1 = next((e for e in events if e["op"] == ("rt" if prop_prefix == "C15" else "dec") and (e.get("dec") or e.get("res"))["ok"]), events[0])
            chk.sample({"source": label, "event": shrink(ex1)})
    out = {}
    for label, acc in per_label.items():
        st = acc["stats"]
        n_cases = st.get("rt", 0) if prop_prefix == "C15" else st.get("dec", 0) + st.get("rt", 0)
        chk.add_traces(n_cases, acc["events"], {"stats": st}, label)
        log("[trace] %s: %d events (%s), %d clause failures reported, TLC %.1fs" % (label, acc["events"], " ".join("%s=%d" % kv for kv in sorted(st.items())),
                                                                                    acc["nviol"], acc["t"]))
        out[label] = st
    return out


def shrink(e, limit=48):
    def cut(x):
        if isinstance(x, list) and len(x) > limit:
            return x[:limit] + ["... %d bytes" % len(x)]
        if isinstance(x, dict):
            return {k: cut(v) for k, v in x.items()}
        return x
    return cut(e)


def replay_line(e):
    """a script line for harness/wire.cpp that reproduces the event"""
    if e["op"] == "rt":
        m = dict(e["m"])
        return msg_line(e.get("id", 0), m, bytes(e.get("key", [])).hex())
    if e.get("in") is None:
        return "# (input not logged)"
    return "buf id=%d src=replay kind=%s hex=%s key=%s mode=%s" % (e.get("id", 0), e.get("kind", "-"), bytes(e["in"]).hex(), bytes(e.get("key", [])).hex(),
                                                                  "signed" if e.get("signed") else "plain")


def describe(cl, e):
    if e["op"] == "rt":
        m = e["m"]
        head = "%s v=%d: " % (TYPE_NAMES.get(m["ty"], m["ty"]), m["v"])
        if cl.startswith("C15.version-clamp"):
            return head + "a version outside 1..4 is not encoded as the nearest supported version"
        if cl.startswith("C15.roundtrip-mismatch"):
            return head + ("decode(encode(m)) rejects the encoding" if not e["dec"]["ok"] else "decode(encode(m)) differs from m") + \
                (" (signed round trip)" if cl.endswith("/signed") else "")
    if cl == "C16.accepted-not-prefix":
        return "an accepted input whose re-encoding is not a prefix of it (%s, %s)" % (e.get("kind", e["op"]), "signed" if e.get("signed") else "plain")
    if cl == "C16.threw":
        return "a decoder let an exception escape: %s" % e.get("threw")
    return "%s contract clause %s fails on a recorded execution" % (cl[:3], cl)


def sanitizer_kind(out):
    m = re.search(r"ERROR: AddressSanitizer: ([A-Za-z0-9_-]+)", out)
    if m:
        return m.group(1)
    m = re.search(r"runtime error: ([^\n]*)", out)
    if m:
        t = m.group(1)
        for key, name in (("overflow", "integer-overflow"), ("out of bounds", "index-out-of-bounds"), ("null pointer", "null-pointer"),
                          ("misaligned", "misaligned"), ("shift", "shift"), ("load of value", "invalid-value"), ("not a valid value", "invalid-value")):
            if key in t:
                return name
        return "undefined-behaviour"
    if "LeakSanitizer" in out:
        return "leak"
    return None


def locate_failing_line(lines, script, flavour):
    """echo mode prints each command before running it: the last one echoed is the one that killed the driver"""
    b = vlib.build("wire", flavour)["wire"]
    rc2, out2 = vlib.sh([b, script, "/dev/null"], timeout=1500, check=False,
                        env={"WIRE_ECHO": "1", "ASAN_OPTIONS": "detect_leaks=0:halt_on_error=1", "UBSAN_OPTIONS": "print_stacktrace=1:halt_on_error=1"})
    last = re.findall(r"WIRE_CMD (\d+) ", out2)
    return lines[int(last[-1]) - 1] if last else "# (could not locate the command)"


def run_sanitized(chk, lines, label):
    """monitor: the same script on the ASan+UBSan build; an abort is C16.sanitizer/<kind>"""
    wd, script, trace, rc, out = run_real(chk, lines, label, "asan", keep_trace=False, timeout=1500)
    if rc == 0:
        log("[asan] %s: %d script lines, clean" % (label, len(lines)))
        return False
    kind = sanitizer_kind(out)
    if kind is None:
        raise vlib.MachineryError("asan driver failed rc=%d without a sanitizer report:\n%s" % (rc, out[-3000:]))
    failing = locate_failing_line(lines, script, "asan")
    report = out[out.find("ERROR: AddressSanitizer") if "ERROR: AddressSanitizer" in out else max(0, out.find("runtime error") - 200):][:3000]
    chk.report("C16.sanitizer/" + kind, "the decoders trip the sanitizer (%s) on a generated input" % kind,
               ["# %s; failing script line for harness/wire.cpp (asan build):" % label, failing] + ["# " + x for x in report.splitlines()],
               replay_name="C16.sanitizer-" + kind)
    log("[asan] %s: sanitizer report %s" % (label, kind))
    return True


# ----------------------------------------------------------------------------------------------------
def run(chk):
    thorough = chk.tier == "thorough"
    rng = chk.rng
    chk.level = "exploration"
    c15 = chk.pid == "C15"
    # 1. the reference and its lemmas; cases exported from TLC's state graph.  The deviation models must violate the
    #    named lemma and the scenarios must be reachable (vacuity guards); all run concurrently.
    full = thorough and not c15
    side = [("dev_nonce4", "C15_RoundTrip"), ("reach_V3Announce", "Reach_V3Announce")] if c15 else \
           [("dev_laxbool", "C16_AcceptedPrefix"), ("reach_ShiftedAccepted", "Reach_ShiftedAccepted"), ("reach_HugeLenRejected", "Reach_HugeLenRejected"),
            ("reach_TrailingAccepted", "Reach_TrailingAccepted"), ("reach_TypeConfusionAccepted", "Reach_TypeConfusionAccepted")]
    with concurrent.futures.ThreadPoolExecutor(max_workers=2) as ex:
        f1 = ex.submit(model_check_and_export, chk, "MC_Wire_full.cfg" if full else "MC_Wire.cfg", 1500)
        f2 = ex.submit(side_models, chk, side)
        r, msgs, muts = f1.result()
        f2.result()
    chk.add_model("Wire reference lemmas: round trip, version clamp, accepted=>prefix (6 types x versions {0..6,255} x strings<=2 bytes x shards<=2 x flags; "
                  "structural mutations of %s)" % ("every message" if full else "the mutation bases"), r,
                  "invariants C15_WellFormed C15_RoundTrip C15_VersionClamp C16_AcceptedPrefix C16_LayoutCovers; %d messages, %d mutated buffers exported; "
                  "deviation/reachability configurations checked: %s" % (len(msgs), len(muts), " ".join(c for c, _ in side)))
    log("[gen] TLC exported %d messages and %d mutated buffers" % (len(msgs), len(muts)))
    key = lambda: rng.choice(KEYS)
    def real(lines, label):
        wd, script, trace, rc, out = run_real(chk, lines, label)
        if rc != 0:
            raise vlib.MachineryError("wire driver failed rc=%d:\n%s" % (rc, out[-2000:]))
        return (label, trace, wd)
    if c15:
        # every message of the small domain
        lines = [msg_line(i + 1, m, key()) for i, m in enumerate(msgs)]
        nrand = 1000 if not thorough else 20000
        every = nrand // (15 if not thorough else 60)      # a few messages with strings around 2^8 / 2^16 bytes
        rl = [msg_line(100000 + i, random_message(rng, big=(i % every == 0)), key()) for i in range(nrand)]
        st = validate_traces(chk, [real(lines, "tlc-messages"), real(rl, "random-messages")], "C15")
        agree = sum(x.get("enc_ref_agree", 0) for x in st.values())
        differ = sum(x.get("enc_ref_differ", 0) for x in st.values())
        chk.cov["reference_layout_agreement"] = {"encodings_equal_to_reference": agree, "different": differ}
        chk.cov["rule"] = ("cases = messages of the TLA+ small domain exported from TLC's state graph (-dump) + seeded random messages (strings up to 70001 bytes, "
                           "TTL/identity/nonce boundary values); a case class = (type, version, string-length shape (0,1,2,3+ per string), accepted by decode); "
                           "distinct_nontrivial counts the classes actually executed on the real codec and decided by TLC")
    else:
        cap = 5000 if not thorough else 250000
        muts_run = muts if len(muts) <= cap else rng.sample(muts, cap)
        lines = []
        for i, (kind, b) in enumerate(muts_run):
            lines.append("buf id=%d src=tlc kind=%s hex=%s key=%s mode=plain" % (i + 1, kind, b.hex(), ""))
            lines.append("buf id=%d src=tlc kind=%s hex=%s key=%s mode=wrap" % (i + 1, kind, b.hex(), key()))
        # layout-agnostic mutations of REAL encodings (bases from the spec domain + random messages)
        bases = [m for m in msgs if (m["ty"] != 1 and m["v"] in (1, 4)) or (m["ty"] == 1 and m["v"] in (2, 3, 4) and len(m["endpoint"]) == 1 and len(m["manifest_uri"]) == 2
                                                                       and len(m["assigned_shards"]) == 1)]
        picked = []
        for ty in range(1, 7):   # one base of every type, announces of the three nonce-relevant versions
            cand = [m for m in bases if m["ty"] == ty]
            picked += rng.sample(cand, min(len(cand), (2 if ty == 1 else 1) if not thorough else 4))
        hm = [msg_line(200000 + i, m, key(), mut=True) for i, m in enumerate(picked)]
        hm += [msg_line(300000 + i, random_message(rng), key(), mut=True) for i in range(4 if not thorough else 24)]
        rnd = ["rand n=%d seed=%d maxlen=%d key=%s" % ((6000 if not thorough else 100000) // 4, rng.getrandbits(31), ml, key()) for ml in (40, 120, 300, 1200)]
        all_lines = lines + hm + rnd
        jobs = []
        for part, label in ((lines, "tlc-mutations"), (hm, "harness-mutations"), (rnd, "random-buffers")):
            wd, script, trace, rc, out = run_real(chk, part, label)
            if rc < 0:
                # the plain driver was killed by a signal inside the codec: a memory-safety failure; classify it with the
                # sanitizer build, fall back to the signal number
                if not run_sanitized(chk, part, "%s (the plain driver died with signal %d)" % (label, -rc)):
                    chk.report("C16.sanitizer/signal-%d" % -rc, "the decoders crash (signal %d) on a generated input" % -rc,
                               ["# %s; failing script line for harness/wire.cpp:" % label, locate_failing_line(part, script, "plain")],
                               replay_name="C16.sanitizer-signal-%d" % -rc)
                continue
            if rc != 0:
                raise vlib.MachineryError("wire driver failed rc=%d:\n%s" % (rc, out[-2000:]))
            jobs.append((label, trace, wd))
        if len(jobs) < 3:
            all_lines = []      # already replayed under the sanitizer above
        st = validate_traces(chk, jobs, "C16", extra=(lambda: run_sanitized(chk, all_lines, "asan+ubsan replay of all C16 inputs")) if all_lines else None)
        t = st.get("tlc-mutations", {})
        chk.cov["reference_layout_agreement"] = {"decodes_equal_to_reference": t.get("dec_ref_agree", 0), "different": t.get("dec_ref_differ", 0)}
        for label, x in st.items():
            if x.get("accepted", 0) == 0 or x.get("rejected", 0) == 0:
                raise vlib.MachineryError("vacuity: %s produced %d accepted / %d rejected inputs" % (label, x.get("accepted", 0), x.get("rejected", 0)))
        chk.cov["rule"] = ("cases = structural mutations of reference encodings exported from TLC's state graph (each length field 0/-1/+1/2^24/2^31/2^32-1, "
                           "truncation at field boundaries +-1, trailing bytes, non-canonical booleans, other versions/types), layout-agnostic mutations of real encodings "
                           "(every truncation / 4-byte window / byte), seeded random buffers; each plain and signed (valid MAC, flipped MAC, other key); a case class = "
                           "(source, mutation kind, signed, accepted, message type, re-encoding shorter than input); distinct_nontrivial counts classes executed and decided by TLC")
    chk.assumptions += ["inputs shorter than 2^24 bytes (the reference evaluates length fields only below that; larger ones cannot fit)",
                        "the byte layout is not fixed by the statements: raw bytes are not compared with the reference, only round trip / prefix relations of the real codec's own outputs",
                        "HMAC validity is not re-computed by TLC here (C16 demands nothing of rejected inputs); signed inputs with a valid MAC are produced with the real HMAC",
                        "memory safety / UB: observed by ASan+UBSan on the generated executions (monitor), not decided by TLC; 64-bit size_t build"]


def replay(chk, path):
    """re-run the script lines of a replay file on the real codec and validate the trace"""
    chk.level = "exploration"
    lines = [l.strip() for l in open(path) if l.strip() and not l.startswith("#") and l.split()[0] in ("msg", "buf", "rand")]
    if not lines:
        raise vlib.MachineryError("no script line in %s" % path)
    wd, script, trace, rc, out = run_real(chk, lines, "replay")
    if rc != 0:
        raise vlib.MachineryError("wire driver failed rc=%d:\n%s" % (rc, out[-2000:]))
    validate_traces(chk, [("replay", trace, wd)], chk.pid,
                    extra=(lambda: run_sanitized(chk, lines, "replay (asan+ubsan)")) if chk.pid == "C16" else None)
