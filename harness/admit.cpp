// Driver for C20 / C21: inbound transport handshakes and ANNOUNCE admission on a REAL Node under
// the virtual clock.   admit <script> <trace-out>
//
// Script (see common/ev.hpp):
//   reset mode=hs cooldown=<s> diff=<bits> npeers=<n>
//   hs p=<peer 1..n> k=<1|2 valid key of p | 0 invalid key> bad=<variant of the invalid key>
//      nonce=solved|bad|alt|other|rand
//   reset mode=ann interval=<s> window=<s> burst=<n> powdiff=<bits> npeers=<n>
//   ann p=<sender> c=<chunk 0..2> self=<0|1> uri=ok|empty|garbage|trunc mchunk=<0|1> exp=<s from now>
//       nsh=<shares> thr=<threshold> asg=none|i,j,.. pow=<0|1> ver=<n> ttl=<s>
//   adv ms=<n>
// Node.cpp is compiled into this translation unit so that the node's own PoW solver / verifier
// (anonymous namespace) can be called directly: "valid PoW" = what the solver finds, "invalid" =
// a nonce the verifier rejects at the configured difficulty (the digests themselves are C19).
#include "core/Node.cpp"

#include "common/ev.hpp"
#include "common/vclock.hpp"
#include "common/vrng.hpp"

#include <memory>
#include <set>

using namespace ephemeralnet;

namespace ephemeralnet::test {
class NodeTestAccess {
public:
    static std::optional<network::SessionManager::HandshakeAcceptance> handshake(Node& n, const PeerId& p,
                                                                                 const protocol::TransportHandshakePayload& pl) {
        return n.handle_transport_handshake(p, pl);
    }
    static void announce(Node& n, const protocol::AnnouncePayload& pl, const PeerId& sender, std::uint8_t ver) {
        n.handle_announce(pl, sender, ver);
    }
    static std::optional<std::uint64_t> work(const Node& initiator, const PeerId& responder) {
        return initiator.generate_handshake_work(responder);
    }
    static bool apply_pow(const Node& n, protocol::AnnouncePayload& pl) { return n.apply_announce_pow(pl); }
    static const Config& cfg(const Node& n) { return n.config_; }
    static auto lock(const Node& n) { return std::unique_lock<std::recursive_mutex>(n.scheduler_mutex_); }
    static const auto& manifests(const Node& n) { return n.manifest_cache_; }
    static const auto& pending(const Node& n) { return n.pending_chunk_fetches_; }
    static const KademliaTable& dht(const Node& n) { return n.dht_; }
    static const auto& ann_hist(const Node& n) { return n.peer_announce_history_; }
    static const auto& fail_hist(const Node& n) { return n.peer_announce_failure_history_; }
    static const auto& lockouts(const Node& n) { return n.peer_announce_lockouts_; }
    // handshake_state_[p] as [success (-1: no record), last_attempt ms, recorded public key == pub]
    static std::vector<long long> hs_record(const Node& n, const PeerId& p, std::uint32_t pub) {
        const auto it = n.handshake_state_.find(peer_id_to_string(p));
        if (it == n.handshake_state_.end()) return {-1, 0, 0};
        return {it->second.success ? 1 : 0, vclock::steady_to_ns(it->second.last_attempt) / 1'000'000LL, it->second.remote_public == pub ? 1 : 0};
    }
};
}  // namespace ephemeralnet::test
using TA = ephemeralnet::test::NodeTestAccess;

[[noreturn]] static void die(const std::string& m) {
    std::fprintf(stderr, "admit: %s\n", m.c_str());
    std::exit(2);
}

static const PeerId kSelf = ev::id32(1, 0xA0);
static PeerId peer_id(long p) { return ev::id32(10 + p, 0xB0); }
static ChunkId chunk_id(long c) { return ev::id32(c, 0xC0); }   // c >= 100: "another chunk"
static constexpr int kMaxPeers = 8;
static constexpr int kChunks = 3;

static long peer_index(const PeerId& id) {
    if (id == kSelf) return 0;
    for (long p = 1; p <= kMaxPeers; ++p) if (id == peer_id(p)) return p;
    return -1;
}
static long chunk_index_of_key(const std::string& key) {
    for (long c = 0; c < kChunks; ++c) {
        if (key == chunk_id_to_string(chunk_id(c))) return c;
        if (key == chunk_id_to_string(chunk_id(100 + c))) return 100 + c;
    }
    return -1;
}
static long long ms_of(std::chrono::steady_clock::time_point tp) { return vclock::steady_to_ns(tp) / 1'000'000LL; }
static long long s_of(std::chrono::steady_clock::time_point tp) { return vclock::steady_to_s(tp); }
static long long clip(long long v) { return std::max(-2'000'000'000LL, std::min(2'000'000'000LL, v)); }

// ---------------------------------------------------------------------------------------------
// handshakes
struct PeerKey {
    std::uint32_t pub{0};
    std::unique_ptr<Node> node;   // a peer node that owns this key (same PeerId, another identity seed)
};
static std::map<std::pair<long, long>, PeerKey> g_peer_keys;          // (p, k) -> key
static std::map<std::tuple<long, std::uint32_t, int>, std::uint64_t> g_solved;  // (p, pub, diff) -> nonce

static const std::uint32_t kBadPubs[] = {0u, 1u, 2147483647u, 0xFFFFFFFFu, 0x80000005u, 2147483648u};

static PeerKey& peer_key(long p, long k, int diff) {
    auto it = g_peer_keys.find({p, k});
    if (it == g_peer_keys.end()) {
        Config c{};
        c.identity_seed = static_cast<std::uint32_t>(1000 + 10 * p + k);
        c.handshake_pow_difficulty = static_cast<std::uint8_t>(diff);
        PeerKey pk;
        pk.node = std::make_unique<Node>(peer_id(p), c);
        pk.pub = pk.node->public_identity();
        it = g_peer_keys.emplace(std::make_pair(p, k), std::move(pk)).first;
    }
    it->second.node->config().handshake_pow_difficulty = static_cast<std::uint8_t>(diff);
    return it->second;
}

static bool hs_verify(long p, std::uint32_t pub, std::uint64_t nonce, int diff) {
    return handshake_pow_valid(peer_id(p), kSelf, pub, nonce, static_cast<std::uint8_t>(diff));
}

// nonce found by the node's own solver for (peer p, this node, pub)
static std::uint64_t hs_solved(long p, long k, std::uint32_t pub, int diff) {
    auto key = std::make_tuple(p, pub, diff);
    auto it = g_solved.find(key);
    if (it != g_solved.end()) return it->second;
    std::uint64_t nonce = 0;
    if (k >= 1) {
        // the real path: the peer node solves for its own identity
        const auto w = TA::work(*peer_key(p, k, diff).node, kSelf);
        if (!w.has_value()) die("peer solver found no nonce");
        nonce = *w;
    } else if (!compute_handshake_pow(peer_id(p), kSelf, pub, static_cast<std::uint8_t>(diff), nonce)) {
        die("solver found no nonce");
    }
    if (!hs_verify(p, pub, nonce, diff)) die("solved handshake nonce rejected by the verifier");
    g_solved[key] = nonce;
    return nonce;
}

struct World {
    std::string mode;
    std::unique_ptr<Node> node;
    long npeers{2};
    int diff{8};
    long seq{0};
    std::map<std::string, long> endpoints;   // endpoint string -> sequence number
};
static World W;

static std::string keys_json(long npeers) {
    std::vector<std::string> items;
    for (long q = 1; q <= npeers; ++q) {
        const auto k = W.node->session_key(peer_id(q));
        std::string a = "[";
        if (k.has_value()) for (size_t i = 0; i < k->size(); ++i) { if (i) a += ","; a += std::to_string((*k)[i]); }
        items.push_back(a + "]");
    }
    return ev::jlist(items);
}
static std::vector<long long> reps(long npeers) {
    std::vector<long long> r;
    for (long q = 1; q <= npeers; ++q) r.push_back(W.node->reputation_score(peer_id(q)));
    return r;
}

static void do_hs(const ev::Cmd& c) {
    const long p = c.i("p", 1), k = c.i("k", 1);
    const int diff = W.diff;
    std::uint32_t pub = 0;
    if (k >= 1) pub = peer_key(p, k, diff).pub;
    else pub = kBadPubs[c.i("bad", 0) % (sizeof kBadPubs / sizeof kBadPubs[0])];
    const std::string src = c.s("nonce", "solved");
    std::uint64_t nonce = 0;
    if (src == "solved") nonce = hs_solved(p, k, pub, diff);
    else if (src == "bad") {
        nonce = hs_solved(p, k, pub, diff);
        int guard = 0;
        if (diff == 0) ++nonce;   // PoW switched off: every nonce is valid, "pow" below says so
        else do { ++nonce; if (++guard > 100000) die("no invalid nonce found"); } while (hs_verify(p, pub, nonce, diff));
    } else if (src == "alt") {
        nonce = hs_solved(p, k, pub, diff);
        int guard = 0;
        do { ++nonce; if (++guard > 5000000) die("no second valid nonce found"); } while (!hs_verify(p, pub, nonce, diff));
    } else if (src == "other") {
        // a nonce that is valid for ANOTHER key of the same claimed peer
        const long k2 = (k == 1) ? 2 : 1;
        nonce = hs_solved(p, k2, peer_key(p, k2, diff).pub, diff);
    } else if (src == "rand") nonce = vrng::next64();
    else die("unknown nonce kind " + src);
    const bool pow = hs_verify(p, pub, nonce, diff);

    protocol::TransportHandshakePayload pl{};
    pl.public_identity = pub;
    pl.work_nonce = nonce;
    pl.requested_version = static_cast<std::uint8_t>(c.i("ver", protocol::kCurrentMessageVersion));

    const auto keyB = keys_json(W.npeers);
    const auto repB = reps(W.npeers);
    const auto recB = TA::hs_record(*W.node, peer_id(p), pub);
    const auto acc = TA::handshake(*W.node, peer_id(p), pl);
    const bool accepted = acc.has_value() && acc->accepted;
    const auto keyA = keys_json(W.npeers);
    const auto repA = reps(W.npeers);
    const std::array<std::uint8_t, 4> pubb{static_cast<std::uint8_t>(pub >> 24), static_cast<std::uint8_t>(pub >> 16),
                                           static_cast<std::uint8_t>(pub >> 8), static_cast<std::uint8_t>(pub)};
    ev::Ev e("hs");
    e.i("t", vclock::now_ns() / 1'000'000LL).i("p", p).i("k", k).bytes("pub", pubb).b("pow", pow).s("src", src)
        .b("acc", accepted).raw("keyB", keyB).raw("keyA", keyA).ints("repB", repB).ints("repA", repA);
    if (accepted) e.bytes("acckey", acc->session_key).i("acklen", static_cast<long long>(acc->ack_payload.size()));
    e.ints("recB", recB).ints("recA", TA::hs_record(*W.node, peer_id(p), pub));
    e.emit();
}

// ---------------------------------------------------------------------------------------------
// announces
static std::string projection() {
    auto guard = TA::lock(*W.node);
    std::vector<std::array<long long, 5>> rows;
    for (const auto& [key, m] : TA::manifests(*W.node)) {
        long long v = -1;
        const auto it = m.metadata.find("v");
        if (it != m.metadata.end()) v = std::atoll(it->second.c_str());
        rows.push_back({1, chunk_index_of_key(key), v, clip(vclock::system_to_s(m.expires_at)), static_cast<long long>(m.shards.size())});
    }
    for (const auto& loc : TA::dht(*W.node).snapshot_locators()) {
        const long c = chunk_index_of_key(chunk_id_to_string(loc.id));
        for (const auto& h : loc.holders) {
            const auto it = W.endpoints.find(h.address);
            rows.push_back({2, c, peer_index(h.id), it == W.endpoints.end() ? -1 : it->second, clip(s_of(h.expires_at))});
        }
    }
    for (long c = 0; c < kChunks; ++c) for (long cc : {c, 100 + c}) {
        if (const auto rec = TA::dht(*W.node).shard_record(chunk_id(cc))) {
            rows.push_back({3, cc, static_cast<long long>(rec->shards.size()), rec->threshold, clip(s_of(rec->expires_at))});
        }
    }
    for (const auto& [key, st] : TA::pending(*W.node)) {
        const auto it = W.endpoints.find(st.endpoint);
        rows.push_back({4, chunk_index_of_key(key), peer_index(st.peer_id), it == W.endpoints.end() ? -1 : it->second,
                        static_cast<long long>(st.attempts)});
    }
    std::sort(rows.begin(), rows.end());
    std::vector<std::string> items;
    for (const auto& r : rows) {
        std::string a = "[";
        for (size_t i = 0; i < r.size(); ++i) { if (i) a += ","; a += std::to_string(r[i]); }
        items.push_back(a + "]");
    }
    return ev::jlist(items);
}

static std::vector<long long> times_of(const std::unordered_map<std::string, std::deque<std::chrono::steady_clock::time_point>>& m, const PeerId& p) {
    std::vector<long long> v;
    const auto it = m.find(peer_id_to_string(p));
    if (it != m.end()) for (const auto& tp : it->second) v.push_back(clip(ms_of(tp)));
    return v;
}

static void do_ann(const ev::Cmd& c) {
    const long p = c.i("p", 1), ch = c.i("c", 0);
    const long seq = ++W.seq;
    const bool self = c.i("self", 1) != 0;
    const std::string uri_kind = c.s("uri", "ok");
    const bool mchunk = c.i("mchunk", 1) != 0;
    const long long exp_rel = c.i("exp", 3600);
    const long nsh = c.i("nsh", 3), thr = c.i("thr", 2);
    const int ver = static_cast<int>(c.i("ver", protocol::kCurrentMessageVersion));
    const bool want_pow = c.i("pow", 1) != 0;

    protocol::Manifest m{};
    m.chunk_id = chunk_id(mchunk ? ch : 100 + ch);
    for (size_t i = 0; i < m.chunk_hash.size(); ++i) m.chunk_hash[i] = static_cast<std::uint8_t>(seq + i);
    m.threshold = static_cast<std::uint8_t>(thr);
    m.total_shares = static_cast<std::uint8_t>(c.i("tot", std::max(nsh, thr)));
    const long long now_s = vclock::now_ns() / 1'000'000'000LL;   // manifests expire on whole seconds
    const long long exp_s = now_s + exp_rel;
    m.expires_at = vclock::system_at_s(exp_s);
    std::vector<long long> idx;
    // idx=a,b,c : the manifest carries exactly these share indices (a subset of 1..tot) instead of 1..nsh
    std::vector<long> carried;
    if (c.s("idx", "") != "") { std::istringstream ss(c.s("idx", "")); std::string tok; while (std::getline(ss, tok, ',')) carried.push_back(std::atol(tok.c_str())); }
    else for (long i = 1; i <= nsh; ++i) carried.push_back(i);
    for (long i : carried) {
        protocol::KeyShard s{};
        s.index = static_cast<std::uint8_t>(i);
        s.value.fill(static_cast<std::uint8_t>(0x30 + i));
        m.shards.push_back(s);
        idx.push_back(i);
    }
    m.metadata["v"] = std::to_string(seq);

    protocol::AnnouncePayload pl{};
    pl.chunk_id = chunk_id(ch);
    pl.peer_id = self ? peer_id(p) : peer_id(p == 1 ? 2 : 1);
    pl.endpoint = "10.7." + std::to_string(p) + "." + std::to_string(seq % 250) + ":" + std::to_string(10000 + seq % 50000);
    W.endpoints[pl.endpoint] = seq;
    pl.ttl = std::chrono::seconds(c.i("ttl", 45));
    bool dec = true;
    if (uri_kind == "ok") pl.manifest_uri = protocol::encode_manifest(m);
    else if (uri_kind == "empty") { pl.manifest_uri.clear(); dec = false; }
    else if (uri_kind == "garbage") { pl.manifest_uri = "eph://!!not-a-manifest-" + std::to_string(seq); dec = false; }
    else if (uri_kind == "trunc") { const auto u = protocol::encode_manifest(m); pl.manifest_uri = u.substr(0, 8 + u.size() / 3); dec = false; }
    else die("unknown uri kind " + uri_kind);
    if (dec) {
        // machinery self-check: what the driver calls decodable really round-trips
        try { const auto back = protocol::decode_manifest(pl.manifest_uri); if (back.chunk_id != m.chunk_id || back.shards.size() != m.shards.size()) die("manifest round trip differs"); }
        catch (const std::exception& ex) { die(std::string("driver manifest does not decode: ") + ex.what()); }
    } else {
        bool threw = false;
        try { (void)protocol::decode_manifest(pl.manifest_uri); } catch (const std::exception&) { threw = true; }
        if (!threw) die("driver's undecodable manifest decodes");
    }
    std::vector<long long> asg;
    const std::string asg_s = c.s("asg", "none");
    if (asg_s != "none") {
        std::istringstream ss(asg_s);
        std::string tok;
        while (std::getline(ss, tok, ',')) { asg.push_back(std::atoll(tok.c_str())); pl.assigned_shards.push_back(static_cast<std::uint8_t>(asg.back())); }
    }
    // PoW last: it binds every other field
    const auto diff = TA::cfg(*W.node).announce_pow_difficulty;
    if (!TA::apply_pow(*W.node, pl)) die("announce solver found no nonce");
    if (!announce_pow_valid(pl, diff)) die("solved announce nonce rejected by the verifier");
    if (!want_pow && diff > 0) {
        int guard = 0;
        do { ++pl.work_nonce; if (++guard > 100000) die("no invalid announce nonce found"); } while (announce_pow_valid(pl, diff));
    }
    const bool pow = announce_pow_valid(pl, diff);

    const auto pre = projection();
    const auto repB = reps(W.npeers);
    TA::announce(*W.node, pl, peer_id(p), static_cast<std::uint8_t>(ver));
    const auto post = projection();
    const auto repA = reps(W.npeers);

    ev::Ev e("ann");
    e.i("t", vclock::now_ns() / 1'000'000LL).i("p", p).i("c", ch).i("seq", seq).b("self", self).b("dec", dec).s("uri", uri_kind);
    if (dec) e.b("chunk", mchunk).i("exp", clip(exp_s * 1000)).i("nsh", static_cast<long long>(carried.size())).i("thr", thr).ints("idx", idx);
    e.ints("asg", asg).b("pow", pow).i("ver", ver).raw("pre", pre).raw("post", post).ints("repB", repB).ints("repA", repA);
    {
        auto guard = TA::lock(*W.node);
        e.ints("ah", times_of(TA::ann_hist(*W.node), peer_id(p))).ints("fh", times_of(TA::fail_hist(*W.node), peer_id(p)));
        const auto it = TA::lockouts(*W.node).find(peer_id_to_string(peer_id(p)));
        e.i("lk", it == TA::lockouts(*W.node).end() ? -1 : clip(ms_of(it->second)));
    }
    e.emit();
}

int main(int argc, char** argv) {
    if (argc < 3) die("usage: admit <script> <trace-out>");
    std::ifstream in(argv[1]);
    if (!in) die("cannot read script");
    ev::open(argv[2]);
    vrng::seed(7);
    vrng::seed_harness(11);
    ev::Cmd c;
    while (ev::read_cmd(in, c)) {
        if (c.op == "reset") {
            W.node.reset();
            W = World{};
            vclock::set_ns(0);
            W.mode = c.s("mode", "hs");
            W.npeers = std::min<long>(kMaxPeers, c.i("npeers", 2));
            Config cfg{};
            cfg.identity_seed = 77u;
            ev::Ev e("reset");
            e.s("mode", W.mode).i("t", 0).i("npeers", W.npeers);
            if (W.mode == "hs") {
                W.diff = static_cast<int>(c.i("diff", 8));
                cfg.handshake_pow_difficulty = static_cast<std::uint8_t>(W.diff);
                cfg.handshake_cooldown = std::chrono::seconds(c.i("cooldown", 5));
                if (c.i("boot", 0)) {
                    // the peers are configured bootstrap nodes with a pinned (public) identity: the node itself mines and records a
                    // handshake for each at start-up.  Being on that list, or offering the pinned key, does not replace valid work
                    for (long q = 1; q <= W.npeers; ++q) {
                        Config::BootstrapNode b{};
                        b.id = peer_id(q); b.host = "127.0.0.1"; b.port = 9;
                        b.public_identity = peer_key(q, 1, static_cast<int>(c.i("diff", 8))).pub;
                        cfg.bootstrap_nodes.push_back(b);
                    }
                }
                W.node = std::make_unique<Node>(kSelf, cfg);
                W.diff = TA::cfg(*W.node).handshake_pow_difficulty;
                e.i("cooldown", TA::cfg(*W.node).handshake_cooldown.count()).i("diff", W.diff);
            } else {
                cfg.announce_min_interval = std::chrono::seconds(c.i("interval", 15));
                cfg.announce_burst_window = std::chrono::seconds(c.i("window", 120));
                cfg.announce_burst_limit = static_cast<std::size_t>(c.i("burst", 4));
                cfg.announce_pow_difficulty = static_cast<std::uint8_t>(c.i("powdiff", 8));
                cfg.cleanup_interval = std::chrono::seconds(c.i("cleanup", 1));
                W.node = std::make_unique<Node>(kSelf, cfg);
                const auto& eff = TA::cfg(*W.node);   // what the node really runs with
                e.i("interval", eff.announce_min_interval.count()).i("window", eff.announce_burst_window.count())
                    .i("burst", static_cast<long long>(eff.announce_burst_limit)).i("powdiff", eff.announce_pow_difficulty)
                    .i("minttl", eff.min_manifest_ttl.count());
            }
            e.emit();
        } else if (c.op == "adv") {
            vclock::advance_ms(c.i("ms", 0));
            ev::Ev("adv").i("t", vclock::now_ns() / 1'000'000LL).emit();
        } else if (c.op == "tick") {
            // the serve loop's periodic tick (cleanup, schedulers): must not disturb admission state
            if (!W.node) die("tick before reset");
            W.node->tick();
            ev::Ev("tick").i("t", vclock::now_ns() / 1'000'000LL).emit();
        } else if (c.op == "hs") {
            if (!W.node || W.mode != "hs") die("hs outside a handshake behaviour");
            do_hs(c);
        } else if (c.op == "ann") {
            if (!W.node || W.mode != "ann") die("ann outside an announce behaviour");
            do_ann(c);
        } else die("unknown op " + c.op);
    }
    W.node.reset();
    g_peer_keys.clear();
    std::fflush(ev::out());
    return 0;
}
