EXCL_admit := core/Node.o
CXXFLAGS_admit := -I$(REPO)/src
