// Driver for C34.  Script commands (addresses are given as raw bytes; the canonical text is produced
// by inet_ntop, as the real STUN parser does):
//   classify a=<4|6>:<hex bytes>
//        -> the real is_private_or_reserved_host (anonymous namespace of AdvertiseDiscovery.cpp, TU inclusion)
//   publish mode=on|warn|off allow=0|1 ctl=<4|6>:<hex>|name:<text> stun=<4|6>:<hex>|none
//        -> a real Node (control_host = ctl, auto mode, allow_private), STUN answered through
//           NatTraversalManager::TestHooks, Node::start_transport(0); then config().advertised_endpoints /
//           auto_advertise_candidates are read and a chunk is stored: the manifest's discovery hints are logged.
//   advertise <script> <trace-out>
#include "network/AdvertiseDiscovery.cpp"   // $(REPO)/src/... (advertise.mk adds -I$(REPO)/src)

#include "common/ev.hpp"
#include "common/vclock.hpp"
#include "parsers_sup.hpp"
#include "ephemeralnet/core/Node.hpp"

#include <arpa/inet.h>

using namespace ephemeralnet;

struct Addr { int fam = 0; std::string text; std::vector<long long> parts; };

// "4:0a000001" / "6:<32 hex>" / "name:host" -> canonical text + numeric parts (octets / hextets)
static Addr from_spec(const std::string& spec) {
    Addr a;
    auto p = spec.find(':');
    std::string kind = spec.substr(0, p), rest = p == std::string::npos ? "" : spec.substr(p + 1);
    if (kind == "name") { a.text = rest; return a; }
    std::string raw = sup::unhex(rest);
    char buf[INET6_ADDRSTRLEN]{};
    if (kind == "4" && raw.size() == 4) {
        inet_ntop(AF_INET, raw.data(), buf, sizeof buf); a.fam = 4; a.text = buf;
        for (unsigned char c : raw) a.parts.push_back(c);
    } else if (kind == "6" && raw.size() == 16) {
        inet_ntop(AF_INET6, raw.data(), buf, sizeof buf); a.fam = 6; a.text = buf;
        for (int i = 0; i < 8; ++i) a.parts.push_back((static_cast<unsigned char>(raw[2 * i]) << 8) | static_cast<unsigned char>(raw[2 * i + 1]));
    } else { std::fprintf(stderr, "bad address spec %s\n", spec.c_str()); std::exit(2); }
    return a;
}
// a published host text -> numeric form (fam 0: not an IP literal)
static Addr from_text(const std::string& as_published) {
    Addr a; a.text = as_published;
    // an IPv6 literal may be written in brackets and may carry a zone id ("[fe80::1%eth0]"): it is still that address
    std::string text = as_published;
    // (the standard notations only: brackets around the whole literal, the zone inside them)
    if (text.size() >= 2 && text.front() == '[' && text.back() == ']') text = text.substr(1, text.size() - 2);
    if (const auto pct = text.find('%'); pct != std::string::npos && pct > 0 && text.find_first_of("[]") == std::string::npos) text = text.substr(0, pct);
    unsigned char b[16];
    if (inet_pton(AF_INET, text.c_str(), b) == 1) { a.fam = 4; for (int i = 0; i < 4; ++i) a.parts.push_back(b[i]); }
    else if (inet_pton(AF_INET6, text.c_str(), b) == 1) { a.fam = 6; for (int i = 0; i < 8; ++i) a.parts.push_back((b[2 * i] << 8) | b[2 * i + 1]); }
    return a;
}
static std::string jaddr(const Addr& a, const std::string& extra = "") {
    std::string s = "{\"host\":" + ev::jstr(a.text) + ",\"fam\":" + std::to_string(a.fam) + ",\"a\":[";
    for (size_t i = 0; i < a.parts.size(); ++i) { if (i) s += ","; s += std::to_string(a.parts[i]); }
    return s + "]" + extra + "}";
}

int main(int argc, char** argv) {
    if (argc < 3) { std::fprintf(stderr, "usage: advertise <script> <trace>\n"); return 2; }
    std::ifstream in(argv[1]);
    ev::open(argv[2]);
    vclock::use_real(true);
    ev::Cmd c;
    PeerId node_id{}; for (size_t i = 0; i < node_id.size(); ++i) node_id[i] = static_cast<std::uint8_t>(0x42 + i);
    ChunkId chunk_id{}; for (size_t i = 0; i < chunk_id.size(); ++i) chunk_id[i] = static_cast<std::uint8_t>(0x10 + i);
    while (ev::read_cmd(in, c)) {
        if (c.op == "classify") {
            const Addr a = from_spec(c.s("a"));
            const bool blocked = network::is_private_or_reserved_host(a.text);
            ev::Ev("classify").s("host", a.text).i("fam", a.fam).ints("a", a.parts).b("blocked", blocked).emit();
        } else if (c.op == "publish") {
            const std::string mode = c.s("mode", "on");
            const bool allow = c.i("allow") != 0;
            const Addr ctl = from_spec(c.s("ctl", "4:7f000001"));
            const bool stun_ok = c.s("stun", "none") != "none";
            const Addr stun = stun_ok ? from_spec(c.s("stun")) : Addr{};

            // prev=pub|priv: the same node was started before with auto mode on and private advertising allowed, STUN answering a routable /
            // a private address; it is then stopped, reconfigured (mode, allow) and started again -- the judged start
            const std::string prev = c.s("prev", "none");
            bool first_phase = prev != "none";
            const std::string prev_addr = prev == "pub" ? "45.64.61.85" : "192.168.1.23";
            network::NatTraversalManager::TestHooks hooks{};
            hooks.stun_override = [&]() -> std::optional<network::NatTraversalManager::StunQueryResult> {
                network::NatTraversalManager::StunQueryResult r{};
                r.reported_port = 47001; r.server = "verif-stun";
                if (first_phase) { r.address = prev_addr; return r; }
                if (!stun_ok) return std::nullopt;
                r.address = stun.text;
                return r;
            };
            network::NatTraversalManager::set_test_hooks(&hooks);

            Config cfg{};
            cfg.identity_seed = 0xC34C34u;
            cfg.nat_stun_enabled = true;
            cfg.relay_enabled = false;
            cfg.control_host = ctl.text;
            cfg.control_port = 47777;
            cfg.advertise_allow_private = allow;
            cfg.advertise_auto_mode = mode == "off" ? Config::AdvertiseAutoMode::Off : mode == "warn" ? Config::AdvertiseAutoMode::Warn : Config::AdvertiseAutoMode::On;
            cfg.announce_pow_difficulty = 0; cfg.store_pow_difficulty = 0; cfg.handshake_pow_difficulty = 0;

            std::vector<std::string> cands, adv, hints;
            bool conflict_flag = false;
            long long port = 0;
            std::string threw;
            try {
                Config first = cfg;
                if (first_phase) { first.advertise_auto_mode = Config::AdvertiseAutoMode::On; first.advertise_allow_private = true; }
                Node node(node_id, first_phase ? first : cfg);
                if (first_phase) {
                    node.start_transport(0);
                    node.stop_transport();
                    first_phase = false;
                    node.config().advertise_auto_mode = cfg.advertise_auto_mode;
                    node.config().advertise_allow_private = cfg.advertise_allow_private;
                }
                node.start_transport(0);
                port = node.transport_port();
                const Config& now = node.config();
                conflict_flag = now.auto_advertise_conflict;
                for (const auto& cand : now.auto_advertise_candidates)
                    cands.push_back(jaddr(from_text(cand.host), ",\"port\":" + std::to_string(cand.port) + ",\"via\":" + ev::jstr(cand.via)));
                for (const auto& e : now.advertised_endpoints)
                    adv.push_back(jaddr(from_text(e.host), ",\"port\":" + std::to_string(e.port) + ",\"manual\":" + (e.manual ? "true" : "false") +
                                                               ",\"source\":" + ev::jstr(e.source)));
                ChunkData data(48); for (size_t i = 0; i < data.size(); ++i) data[i] = static_cast<std::uint8_t>(i * 7 + 1);
                const auto manifest = node.store_chunk(chunk_id, data, std::chrono::seconds(120));
                for (const auto& h : manifest.discovery_hints) {
                    const auto colon = h.endpoint.rfind(':');
                    const std::string host = colon == std::string::npos ? h.endpoint : h.endpoint.substr(0, colon);
                    hints.push_back(jaddr(from_text(host), ",\"scheme\":" + ev::jstr(h.scheme) + ",\"transport\":" + ev::jstr(h.transport) +
                                                               ",\"endpoint\":" + ev::jstr(h.endpoint)));
                }
                node.stop_transport();
            } catch (const std::exception& ex) { threw = ex.what(); }
            network::NatTraversalManager::set_test_hooks(nullptr);
            ev::Ev e("publish");
            e.s("mode", mode).b("allow", allow).raw("ctl", jaddr(ctl)).b("stun_ok", stun_ok).s("prev", prev);
            if (stun_ok) e.raw("stun", jaddr(stun));
            e.i("tport", port).b("conflict_flag", conflict_flag).raw("cands", ev::jlist(cands)).raw("advertised", ev::jlist(adv)).raw("hints", ev::jlist(hints));
            if (!threw.empty()) e.s("threw", threw);
            e.emit();
        }
    }
    std::fflush(ev::out());
    return 0;
}
