# C34: the harness TU includes src/network/AdvertiseDiscovery.cpp itself (anonymous-namespace classifier)
EXCL_advertise := network/AdvertiseDiscovery.o
CXXFLAGS_advertise := -I$(REPO)/src
