// Driver for C32 (configuration layering).  Binds to the REAL CLI loader of src/main.cpp:
// the whole translation unit is included (main renamed), and every case runs
//     eph [--config F] [--profile P] [--env E] [flags...] serve
// through the real main(): flag parsing -> load_configuration (load_document / YAML or JSON parser,
// resolve_profile, collect_environment_overrides, merge_objects, apply_profile_to_options) ->
// validate_global_options -> build_config -> Node(config).  The only substituted piece is
// daemon::ControlServer (pimpl class, defined here instead of linking ControlServer.o): its
// constructor records node.config() -- exactly what the DEFAULTS command of a daemon started with
// this configuration reports -- and stops the run, so no socket is ever opened.
//
//   cfglayers <script> <trace-out> <workdir> [timeout_s]
// script: one case per line
//   case id=N config=0|1 fmt=yaml|json envform=direct|overrides profflag=P|- envflag=E|-
//        envs=e1:p0;e9:other|-  profiles=a,b,c|-  ext=child:parent,...|-
//        fv=setting:code,...|-  ev=env.setting:code,...|-  pv=profile.setting:code,...|-
// A value code c stands for: ttl 3600+c s, minttl 10+c s, maxttl 30000+c s, port 41000+c, token "tok<c>", pow 6+c, dir <workdir>/sd<c>,
// persistent 1=true 2=false.  Observed values are mapped back (built-in default -> 0, boolean
// false -> 2, anything that belongs to no layer -> -1).
// Cases run in-process under a watchdog (alarm + fatal-signal handlers on an alternate stack): a
// load that does not return is logged as outcome "hang", one that dies as "crash"; the driver then
// exits with status 3 and is restarted by the python side on the remaining cases.
#include "common/ev.hpp"

#include <signal.h>
#include <sys/mman.h>

#define main eph_cli_main
#include EPH_MAIN_CPP
#undef main

namespace {
struct HarnessStop : std::exception {
    const char* what() const noexcept override { return "verif: configuration captured"; }
};
bool g_have_config = false;
ephemeralnet::Config g_config;
}  // namespace

namespace ephemeralnet::daemon {
class ControlServer::Impl {};
ControlServer::ControlServer(Node& node, std::mutex&, StopCallback) {
    g_config = node.config();
    g_have_config = true;
    throw HarnessStop{};
}
ControlServer::~ControlServer() = default;
void ControlServer::start(const std::string&, std::uint16_t) {}
void ControlServer::stop() {}
bool ControlServer::running() const noexcept { return false; }
}  // namespace ephemeralnet::daemon

namespace fs = std::filesystem;

namespace cfgh {
static std::string g_wd;

static std::vector<std::string> split(const std::string& s, char sep) {
    std::vector<std::string> out;
    if (s.empty() || s == "-") return out;
    std::string cur;
    for (char c : s) { if (c == sep) { out.push_back(cur); cur.clear(); } else cur += c; }
    out.push_back(cur);
    return out;
}

static const char* kSettings[] = {"ttl", "port", "token", "pow", "dir", "persistent", "aap", "minttl", "maxttl"};
static std::pair<std::string, std::string> path_of(const std::string& s) {
    if (s == "ttl") return {"node", "default_ttl_seconds"};
    if (s == "port") return {"control", "port"};
    if (s == "token") return {"control", "token"};
    if (s == "pow") return {"announce", "pow_difficulty"};
    if (s == "dir") return {"storage", "directory"};
    if (s == "persistent") return {"storage", "persistent"};
    if (s == "aap") return {"control", "advertise_allow_private"};
    if (s == "minttl") return {"node", "min_ttl_seconds"};
    if (s == "maxttl") return {"node", "max_ttl_seconds"};
    std::fprintf(stderr, "cfglayers: unknown setting %s\n", s.c_str());
    std::exit(2);
}
static std::string dir_of(long c) { return g_wd + "/sd" + std::to_string(c); }
// scalar as it appears in a document (quoted = JSON / quoted YAML string)
static std::string doc_value(const std::string& s, long c, bool json) {
    if (s == "ttl") return std::to_string(3600 + c);
    if (s == "minttl") return std::to_string(10 + c);       // below the built-in 30 s and below every default-TTL value used here
    if (s == "maxttl") return std::to_string(30000 + c);    // above the built-in 6 h: the window never clamps the other settings
    if (s == "port") return std::to_string(41000 + c);
    if (s == "pow") return std::to_string(6 + c);
    if (s == "persistent" || s == "aap") return c == 1 ? "true" : "false";
    std::string v = s == "token" ? "tok" + std::to_string(c) : dir_of(c);
    return json ? "\"" + v + "\"" : v;
}

struct Triple { std::string owner, setting; long code; };
static std::vector<Triple> parse_triples(const std::string& s, bool with_owner) {
    std::vector<Triple> out;
    for (const auto& item : split(s, ',')) {
        Triple t;
        auto colon = item.rfind(':');
        std::string lhs = item.substr(0, colon);
        t.code = std::atol(item.substr(colon + 1).c_str());
        if (with_owner) { auto dot = lhs.find('.'); t.owner = lhs.substr(0, dot); t.setting = lhs.substr(dot + 1); }
        else t.setting = lhs;
        out.push_back(t);
    }
    return out;
}

// section -> key -> rendered scalar
using Doc = std::map<std::string, std::map<std::string, std::string>>;
static Doc doc_of(const std::vector<Triple>& all, const std::string& owner, bool json) {
    Doc d;
    for (const auto& t : all) if (t.owner == owner) { auto p = path_of(t.setting); d[p.first][p.second] = doc_value(t.setting, t.code, json); }
    return d;
}
static void yaml_sections(std::string& o, const Doc& d, int indent) {
    for (const auto& [sec, keys] : d) {
        o += std::string(indent, ' ') + sec + ":\n";
        for (const auto& [k, v] : keys) o += std::string(indent + 2, ' ') + k + ": " + v + "\n";
    }
}
static std::string json_sections(const Doc& d) {
    std::vector<std::string> secs;
    for (const auto& [sec, keys] : d) {
        std::vector<std::string> kv;
        for (const auto& [k, v] : keys) kv.push_back("\"" + k + "\": " + v);
        std::string body;
        for (size_t i = 0; i < kv.size(); ++i) body += (i ? ", " : "") + kv[i];
        secs.push_back("\"" + sec + "\": {" + body + "}");
    }
    std::string out;
    for (size_t i = 0; i < secs.size(); ++i) out += (i ? ", " : "") + secs[i];
    return out;
}

struct Case {
    long id; bool config; bool json; bool env_overrides_form;
    std::string profflag, envflag;
    std::vector<std::pair<std::string, std::string>> envs;   // name, profile key ("" = none)
    std::vector<std::string> profiles;
    std::vector<std::pair<std::string, std::string>> ext;
    std::vector<Triple> fv, ev, pv;
};

static std::string render(const Case& c) {
    std::string o;
    auto parent_of = [&](const std::string& n) -> std::string { for (auto& e : c.ext) if (e.first == n) return e.second; return ""; };
    if (!c.json) {
        o += "# case " + std::to_string(c.id) + "\nprofiles:\n";
        for (const auto& p : c.profiles) {
            o += "  " + p + ":\n";
            auto par = parent_of(p);
            if (!par.empty()) o += "    extends: " + par + "\n";
            yaml_sections(o, doc_of(c.pv, p, false), 4);
        }
        if (!c.envs.empty()) {
            o += "environments:\n";
            for (const auto& [name, prof] : c.envs) {
                o += "  " + name + ":\n";
                if (!prof.empty()) o += "    profile: " + prof + "\n";
                Doc d = doc_of(c.ev, name, false);
                if (c.env_overrides_form) { if (!d.empty()) { o += "    overrides:\n"; yaml_sections(o, d, 6); } }
                else yaml_sections(o, d, 4);
            }
        }
        return o;
    }
    o += "{\n  \"profiles\": {";
    bool first = true;
    for (const auto& p : c.profiles) {
        o += first ? "\n" : ",\n"; first = false;
        o += "    \"" + p + "\": {";
        auto par = parent_of(p);
        std::string body = json_sections(doc_of(c.pv, p, true));
        if (!par.empty()) body = "\"extends\": \"" + par + "\"" + (body.empty() ? "" : ", " + body);
        o += body + "}";
    }
    o += "\n  }";
    if (!c.envs.empty()) {
        o += ",\n  \"environments\": {";
        first = true;
        for (const auto& [name, prof] : c.envs) {
            o += first ? "\n" : ",\n"; first = false;
            std::string body = json_sections(doc_of(c.ev, name, true));
            if (c.env_overrides_form && !body.empty()) body = "\"overrides\": {" + body + "}";
            if (!prof.empty()) body = "\"profile\": \"" + prof + "\"" + (body.empty() ? "" : ", " + body);
            o += "    \"" + name + "\": {" + body + "}";
        }
        o += "\n  }";
    }
    o += "\n}\n";
    return o;
}

static long code_of_effective(const std::string& s, const ephemeralnet::Config& cfg, std::string& raw) {
    if (s == "ttl") { long v = static_cast<long>(cfg.default_chunk_ttl.count()); raw = std::to_string(v); return v == 21600 ? 0 : (v > 3600 && v < 3700 ? v - 3600 : -1); }
    if (s == "port") { long v = cfg.control_port; raw = std::to_string(v); return v == 47777 ? 0 : (v > 41000 && v < 41100 ? v - 41000 : -1); }
    if (s == "pow") { long v = cfg.announce_pow_difficulty; raw = std::to_string(v); return v == 6 ? 0 : (v > 6 && v <= 24 ? v - 6 : -1); }
    if (s == "persistent") { raw = cfg.storage_persistent_enabled ? "true" : "false"; return cfg.storage_persistent_enabled ? 1 : 2; }
    if (s == "aap") { raw = cfg.advertise_allow_private ? "true" : "false"; return cfg.advertise_allow_private ? 1 : 2; }
    if (s == "minttl") { long v = static_cast<long>(cfg.min_manifest_ttl.count()); raw = std::to_string(v); return v == 30 ? 0 : (v > 10 && v < 30 ? v - 10 : -1); }
    if (s == "maxttl") { long v = static_cast<long>(cfg.max_manifest_ttl.count()); raw = std::to_string(v); return v == 21600 ? 0 : (v > 30000 && v < 30100 ? v - 30000 : -1); }
    if (s == "token") {
        if (!cfg.control_token) { raw = "<unset>"; return 0; }
        raw = *cfg.control_token;
        if (raw.rfind("tok", 0) == 0 && raw.size() > 3 && raw.size() < 7 && std::all_of(raw.begin() + 3, raw.end(), [](unsigned char ch) { return std::isdigit(ch); })) return std::atol(raw.c_str() + 3);
        return -1;
    }
    raw = cfg.storage_directory;
    if (raw == "storage") return 0;
    const std::string prefix = g_wd + "/sd";
    if (raw.rfind(prefix, 0) == 0 && raw.size() > prefix.size() && raw.size() < prefix.size() + 4 &&
        std::all_of(raw.begin() + static_cast<long>(prefix.size()), raw.end(), [](unsigned char ch) { return std::isdigit(ch); }))
        return std::atol(raw.c_str() + prefix.size());
    return -1;
}


// ---- watchdog: the case runs in-process; a hang (SIGALRM), a fatal signal or an exit() inside the
// loader writes the event with outcome hang / crash straight to the trace fd and ends the driver
// with status 3; checks/cfglayers.py restarts it on the remaining cases.
static std::string g_pending_prefix;   // event text up to (not including) the observation
static volatile sig_atomic_t g_in_case = 0;
static int g_trace_fd = -1;
static void emit_abnormal(const char* outcome, const char* msg) {
    const char* a = "\"outcome\":\"";
    const char* b = "\",\"rc\":-1,\"err\":\"\",\"msg\":\"";
    const char* c = "\",\"eff\":{},\"raw\":{}}\n";
    (void)!::write(g_trace_fd, g_pending_prefix.data(), g_pending_prefix.size());
    (void)!::write(g_trace_fd, a, std::strlen(a)); (void)!::write(g_trace_fd, outcome, std::strlen(outcome));
    (void)!::write(g_trace_fd, b, std::strlen(b)); (void)!::write(g_trace_fd, msg, std::strlen(msg));
    (void)!::write(g_trace_fd, c, std::strlen(c));
}
static void on_signal(int sig) {
    if (!g_in_case) ::_exit(2);
    g_in_case = 0;
    if (sig == SIGALRM) emit_abnormal("hang", "no result within the watchdog time");
    else emit_abnormal("crash", sig == SIGSEGV ? "SIGSEGV" : sig == SIGABRT ? "SIGABRT" : sig == SIGBUS ? "SIGBUS" : "fatal signal");
    ::_exit(3);
}
static void on_exit_hook() {
    if (g_in_case) { g_in_case = 0; emit_abnormal("crash", "exit() called inside the loader"); ::_exit(3); }
}
}  // namespace cfgh

int main(int argc, char** argv) {
    using namespace cfgh;
    if (argc < 4) { std::fprintf(stderr, "usage: cfglayers <script> <trace-out> <workdir> [timeout_s]\n"); return 2; }
    std::ifstream script(argv[1]);
    if (!script) { std::perror(argv[1]); return 2; }
    ev::open(argv[2]);
    g_trace_fd = ::fileno(ev::out());
    g_wd = fs::absolute(argv[3]).lexically_normal().string();
    while (g_wd.size() > 1 && g_wd.back() == '/') g_wd.pop_back();
    fs::create_directories(g_wd);
    const int timeout_s = argc > 4 ? std::max(1, std::atoi(argv[4])) : 5;
    const bool keep = std::getenv("CFGLAYERS_KEEP") != nullptr;
    const std::string casedir = g_wd + "/case";
    fs::remove_all(casedir);
    fs::create_directories(casedir);
    (void)!::chdir(casedir.c_str());                      // the default storage directory is relative

    // everything the CLI prints goes to a capture file that is rewound before every case
    // (memory files: the scratch file system is slow, and nothing here needs to survive the run)
    const int cap_fd = ::memfd_create("cfglayers-output", 0);
    const int cfg_fd = ::memfd_create("cfglayers-config", 0);
    const std::string cfg_path = "/proc/self/fd/" + std::to_string(cfg_fd);
    const int diag_fd = ::dup(2);
    if (cap_fd < 0 || cfg_fd < 0 || diag_fd < 0) { std::perror("capture"); return 2; }
    ::dup2(cap_fd, 1); ::dup2(cap_fd, 2);

    static char altstack[1 << 16];
    stack_t ss{}; ss.ss_sp = altstack; ss.ss_size = sizeof altstack; ::sigaltstack(&ss, nullptr);
    struct sigaction sa{}; sa.sa_handler = on_signal; sa.sa_flags = SA_ONSTACK; ::sigemptyset(&sa.sa_mask);
    for (int sig : {SIGALRM, SIGSEGV, SIGBUS, SIGABRT, SIGFPE, SIGILL}) ::sigaction(sig, &sa, nullptr);
    ::signal(SIGPIPE, SIG_IGN);
    std::atexit(on_exit_hook);

    ev::Cmd cmd;
    while (ev::read_cmd(script, cmd)) {
        if (cmd.op != "case") continue;
        Case c;
        c.id = cmd.i("id");
        c.config = cmd.i("config", 1) != 0;
        c.json = cmd.s("fmt", "yaml") == "json";
        c.env_overrides_form = cmd.s("envform", "direct") == "overrides";
        c.profflag = cmd.s("profflag", "-"); if (c.profflag == "-") c.profflag.clear();
        c.envflag = cmd.s("envflag", "-"); if (c.envflag == "-") c.envflag.clear();
        for (const auto& e : split(cmd.s("envs", "-"), ';')) { auto p = e.find(':'); c.envs.emplace_back(e.substr(0, p), p == std::string::npos ? "" : e.substr(p + 1)); }
        c.profiles = split(cmd.s("profiles", "-"), ',');
        for (const auto& e : split(cmd.s("ext", "-"), ',')) { auto p = e.find(':'); c.ext.emplace_back(e.substr(0, p), e.substr(p + 1)); }
        c.fv = parse_triples(cmd.s("fv", "-"), false);
        c.ev = parse_triples(cmd.s("ev", "-"), true);
        c.pv = parse_triples(cmd.s("pv", "-"), true);

        // the configuration file (a memory file reached through /proc/self/fd; the loader tells JSON
        // from YAML by the first character when the extension is not .json)
        const std::string rendered = c.config ? render(c) : std::string();
        std::vector<std::string> args{"eph"};
        if (c.config) {
            (void)!::ftruncate(cfg_fd, 0);
            (void)!::pwrite(cfg_fd, rendered.data(), rendered.size(), 0);
            args.push_back("--config"); args.push_back(cfg_path);
        }
        if (!c.profflag.empty()) { args.push_back("--profile"); args.push_back(c.profflag); }
        if (!c.envflag.empty()) { args.push_back("--env"); args.push_back(c.envflag); }
        for (const auto& t : c.fv) {
            if (t.setting == "ttl") { args.push_back("--default-ttl"); args.push_back(std::to_string(3600 + t.code)); }
            else if (t.setting == "minttl") { args.push_back("--min-ttl"); args.push_back(std::to_string(10 + t.code)); }
            else if (t.setting == "maxttl") { args.push_back("--max-ttl"); args.push_back(std::to_string(30000 + t.code)); }
            else if (t.setting == "port") { args.push_back("--control-port"); args.push_back(std::to_string(41000 + t.code)); }
            else if (t.setting == "token") { args.push_back("--control-token"); args.push_back("tok" + std::to_string(t.code)); }
            else if (t.setting == "pow") { args.push_back("--announce-pow"); args.push_back(std::to_string(6 + t.code)); }
            else if (t.setting == "dir") { args.push_back("--storage-dir"); args.push_back(dir_of(t.code)); }
            else if (t.setting == "persistent") args.push_back(t.code == 1 ? "--persistent" : "--no-persistent");
            else if (t.setting == "aap") { if (t.code == 1) args.push_back("--advertise-allow-private"); else { std::fprintf(stderr, "cfglayers: the command line cannot switch aap off\n"); std::exit(2); } }
        }
        args.push_back("serve");

        // the event: the concrete case as the trace specification reads it (+ the observation below)
        std::string selected_envprof;
        for (const auto& [name, prof] : c.envs) if (name == c.envflag) selected_envprof = prof;
        std::vector<std::string> defined, ext, fv, evs, pv;
        for (const auto& p : c.profiles) defined.push_back(ev::jstr(p));
        for (const auto& e : c.ext) ext.push_back("[" + ev::jstr(e.first) + "," + ev::jstr(e.second) + "]");
        for (const auto& t : c.fv) fv.push_back("[" + ev::jstr(t.setting) + "," + std::to_string(t.code) + "]");
        for (const auto& t : c.ev) if (t.owner == c.envflag) evs.push_back("[" + ev::jstr(t.setting) + "," + std::to_string(t.code) + "]");
        for (const auto& t : c.pv) pv.push_back("[" + ev::jstr(t.owner) + "," + ev::jstr(t.setting) + "," + std::to_string(t.code) + "]");
        g_pending_prefix = "{\"op\":\"case\",\"id\":" + std::to_string(c.id) + ",\"config\":" + (c.config ? "1" : "0") +
                           ",\"fmt\":" + ev::jstr(c.json ? "json" : "yaml") + ",\"envform\":" + ev::jstr(c.env_overrides_form ? "overrides" : "direct") +
                           ",\"profflag\":" + ev::jstr(c.profflag) + ",\"envflag\":" + ev::jstr(c.envflag) + ",\"envprof\":" + ev::jstr(selected_envprof) +
                           ",\"defined\":" + ev::jlist(defined) + ",\"ext\":" + ev::jlist(ext) + ",\"fv\":" + ev::jlist(fv) + ",\"ev\":" + ev::jlist(evs) +
                           ",\"pv\":" + ev::jlist(pv) + ",";
        if (keep) {   // the command line too (the end-to-end runs of the thorough tier reuse it)
            std::vector<std::string> quoted;
            for (const auto& a : args) quoted.push_back(ev::jstr(a));
            g_pending_prefix += "\"argv\":" + ev::jlist(quoted) + ",";
        }
        if (keep) {   // keep the rendered file for replay reports
            if (c.config) { std::ofstream f(g_wd + "/kept-" + std::to_string(c.id) + (c.json ? ".json" : ".yaml"), std::ios::binary | std::ios::trunc); f << rendered; }
        }

        // ---- run the real main() under the watchdog
        std::fflush(ev::out());
        (void)!::ftruncate(cap_fd, 0); ::lseek(cap_fd, 0, SEEK_SET);
        std::vector<std::string> store = args;
        std::vector<char*> cargv;
        for (auto& a : store) cargv.push_back(a.data());
        cargv.push_back(nullptr);
        g_have_config = false;
        int rc = -1;
        std::string how = "returned";
        g_in_case = 1;
        ::alarm(static_cast<unsigned>(timeout_s));
        try { rc = eph_cli_main(static_cast<int>(store.size()), cargv.data()); }
        catch (...) { how = "threw"; }
        ::alarm(0);
        g_in_case = 0;
        std::cout.flush(); std::cerr.flush(); std::fflush(stdout); std::fflush(stderr);
        std::cout.clear(); std::cerr.clear();

        std::string text;
        {
            char buf[4096]; off_t off = 0; ssize_t n;
            while ((n = ::pread(cap_fd, buf, sizeof buf, off)) > 0) { text.append(buf, static_cast<size_t>(n)); off += n; }
        }
        std::string code;
        {   // first "E_..." token that is not our own stop
            size_t pos = 0;
            while ((pos = text.find("E_", pos)) != std::string::npos) {
                size_t end = pos;
                while (end < text.size() && (std::isupper(static_cast<unsigned char>(text[end])) || text[end] == '_' || std::isdigit(static_cast<unsigned char>(text[end])))) ++end;
                std::string tok = text.substr(pos, end - pos);
                if (tok != "E_UNEXPECTED" || !g_have_config) { code = tok; break; }
                pos = end;
            }
        }
        std::string outcome = g_have_config ? "ok" : (rc != 0 || how == "threw" ? "error" : "nocapture");
        std::string eff = "{", raw = "{";
        for (size_t i = 0; i < sizeof(kSettings) / sizeof(kSettings[0]); ++i) {
            std::string r = "-";
            long code_v = g_have_config ? code_of_effective(kSettings[i], g_config, r) : -1;
            eff += std::string(i ? "," : "") + "\"" + kSettings[i] + "\":" + std::to_string(code_v);
            raw += std::string(i ? "," : "") + "\"" + kSettings[i] + "\":" + ev::jstr(r);
        }
        eff += "}"; raw += "}";
        std::string firstline = text.substr(0, text.find('\n'));
        if (firstline.size() > 200) firstline.resize(200);
        std::string line = g_pending_prefix + "\"outcome\":" + ev::jstr(outcome) + ",\"rc\":" + std::to_string(rc) + ",\"err\":" + ev::jstr(g_have_config ? "" : code) +
                           ",\"msg\":" + ev::jstr(g_have_config ? "" : firstline) + ",\"eff\":" + eff + ",\"raw\":" + raw + "}\n";
        std::fputs(line.c_str(), ev::out());
    }
    std::fflush(ev::out());
    return 0;
}
