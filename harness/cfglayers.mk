# C32 driver: includes $(REPO)/src/main.cpp (main renamed); ControlServer is defined by the harness
EXTRA_cfglayers := daemon/ControlPlane.o daemon/ControlClient.o daemon/StructuredLogger.o
CXXFLAGS_cfglayers := -O0 -DEPH_MAIN_CPP='"$(REPO)/src/main.cpp"'
# the unmodified CLI (thorough tier, end-to-end): main.cpp + all daemon objects
EXTRA_ephcli := daemon/ControlPlane.o daemon/ControlClient.o daemon/ControlServer.o daemon/StructuredLogger.o
CXXFLAGS_ephcli := -O0 -DEPH_MAIN_CPP='"$(REPO)/src/main.cpp"'
