// Driver for the real ChunkStore (C01, C04).  Reads a script (see common/ev.hpp), replays it
// on a ChunkStore under the virtual clock and writes one ndjson event per call.
//   chunkstore <script> <trace-out> <workdir> [--crash]
// With --crash, every behaviour (reset ... reset) whose script contains a line "crashop" is
// executed once per filesystem-call index k inside the marked operation: the child _exits at the
// k-th intercepted call, the parent restarts a store on the same directory, lets every deadline
// pass, sweeps and logs what is left on disk.
#include "common/ev.hpp"
#include "common/vclock.hpp"
#include "common/vrng.hpp"
#include "ephemeralnet/storage/ChunkStore.hpp"

#include <dlfcn.h>
#include <fcntl.h>
#include <sys/stat.h>
#include <sys/uio.h>
#include <sys/wait.h>
#include <unistd.h>
#include <cerrno>
#include <cstdarg>
#include <cstring>
#include <filesystem>
#include <memory>
#include <algorithm>

using namespace ephemeralnet;
namespace fs = std::filesystem;

// ---------------------------------------------------------------------------------------
// filesystem interposition: count calls that touch the storage directory, optionally die at the
// k-th one; classify the content of a file at the moment it is unlinked.
static std::string g_dir;                 // storage directory (absolute)
static long g_calls = 0;                  // intercepted calls so far (only while armed)
static long g_crash_at = -1;              // die at this call index (1-based) ; -1 = never
static bool g_armed = false;
static std::vector<std::pair<std::string, int>> g_unlinked;  // (file name, content class)
static int g_fds[64]; static int g_nfds = 0;                  // fds opened inside the directory
// write-failure injection ("put ... wfail=1"): the next file of the directory that is opened for writing from scratch takes half of
// its first write and then reports ENOSPC on every later one -- a store interrupted by a full disk rather than by a crash
static bool g_wfail_arm = false; static int g_wfail_fd = -1; static bool g_wfail_fired = false;

static bool in_dir(const char* p) { return p && !g_dir.empty() && std::strncmp(p, g_dir.c_str(), g_dir.size()) == 0; }
static void hit() {
    if (!g_armed) return;
    ++g_calls;
    if (g_crash_at > 0 && g_calls == g_crash_at) { std::fflush(ev::out()); _exit(77); }
}
static bool tracked_fd(int fd) { for (int i = 0; i < g_nfds; ++i) if (g_fds[i] == fd) return true; return false; }
static void track_fd(int fd) { if (fd >= 0 && g_nfds < 64) g_fds[g_nfds++] = fd; }
static void untrack_fd(int fd) { for (int i = 0; i < g_nfds; ++i) if (g_fds[i] == fd) { g_fds[i] = g_fds[--g_nfds]; return; } }

static std::vector<std::uint8_t> payload_bytes(long k) {
    std::vector<std::uint8_t> v(static_cast<size_t>(1 + (k * 13) % 40 + (k % 3 == 0 ? 4096 : 0)));
    for (size_t i = 0; i < v.size(); ++i) v[i] = static_cast<std::uint8_t>(1 + ((k * 31 + static_cast<long>(i) * 7) % 255));
    return v;
}
static long g_npayloads = 8;
// content class: k >= 0 payload index; -1 all zero (or empty); -2 anything else
static int classify(const std::vector<std::uint8_t>& data) {
    for (long k = 0; k < g_npayloads; ++k) if (data == payload_bytes(k)) return static_cast<int>(k);
    if (std::all_of(data.begin(), data.end(), [](std::uint8_t b) { return b == 0; })) return -1;
    return -2;
}
static std::vector<std::uint8_t> slurp_raw(const char* path) {
    std::vector<std::uint8_t> v;
    static auto real_open = reinterpret_cast<int (*)(const char*, int, ...)>(dlsym(RTLD_NEXT, "open"));
    int fd = real_open(path, O_RDONLY);
    if (fd < 0) return v;
    std::uint8_t buf[4096]; ssize_t n;
    while ((n = ::read(fd, buf, sizeof buf)) > 0) v.insert(v.end(), buf, buf + n);
    static auto real_close = reinterpret_cast<int (*)(int)>(dlsym(RTLD_NEXT, "close"));
    real_close(fd);
    return v;
}

extern "C" {
// with _FILE_OFFSET_BITS=64 the libc headers redirect open->open64 etc. by asm label, so the
// interposers are given private C names and explicit symbol names.
int vf_open(const char*, int, ...) __asm__("open");
int vf_open64(const char*, int, ...) __asm__("open64");
FILE* vf_fopen(const char*, const char*) __asm__("fopen");
FILE* vf_fopen64(const char*, const char*) __asm__("fopen64");
int vf_open(const char* path, int flags, ...) {
    static auto real = reinterpret_cast<int (*)(const char*, int, ...)>(dlsym(RTLD_NEXT, "open"));
    mode_t mode = 0; if (flags & (O_CREAT | O_TMPFILE)) { va_list ap; va_start(ap, flags); mode = va_arg(ap, mode_t); va_end(ap); }
    bool d = in_dir(path) && std::strlen(path) > g_dir.size() + 1; if (d) hit();
    int fd = real(path, flags, mode); if (d) track_fd(fd); return fd;
}
int vf_open64(const char* path, int flags, ...) {
    static auto real = reinterpret_cast<int (*)(const char*, int, ...)>(dlsym(RTLD_NEXT, "open64"));
    mode_t mode = 0; if (flags & (O_CREAT | O_TMPFILE)) { va_list ap; va_start(ap, flags); mode = va_arg(ap, mode_t); va_end(ap); }
    bool d = in_dir(path) && std::strlen(path) > g_dir.size() + 1; if (d) hit();
    int fd = real(path, flags, mode); if (d) track_fd(fd); return fd;
}
FILE* vf_fopen64(const char* path, const char* mode) {
    static auto real = reinterpret_cast<FILE* (*)(const char*, const char*)>(dlsym(RTLD_NEXT, "fopen64"));
    bool d = in_dir(path) && std::strlen(path) > g_dir.size() + 1; if (d) hit();
    FILE* f = real(path, mode); if (d && f) track_fd(fileno(f));
    if (d && f && g_wfail_arm && mode && mode[0] == 'w') { g_wfail_arm = false; g_wfail_fd = fileno(f); }
    return f;
}
FILE* vf_fopen(const char* path, const char* mode) {
    static auto real = reinterpret_cast<FILE* (*)(const char*, const char*)>(dlsym(RTLD_NEXT, "fopen"));
    bool d = in_dir(path) && std::strlen(path) > g_dir.size() + 1; if (d) hit();
    FILE* f = real(path, mode); if (d && f) track_fd(fileno(f));
    if (d && f && g_wfail_arm && mode && mode[0] == 'w') { g_wfail_arm = false; g_wfail_fd = fileno(f); }
    return f;
}
ssize_t write(int fd, const void* buf, size_t n) {
    static auto real = reinterpret_cast<ssize_t (*)(int, const void*, size_t)>(dlsym(RTLD_NEXT, "write"));
    if (tracked_fd(fd)) hit();
    if (fd >= 0 && fd == g_wfail_fd) {
        if (g_wfail_fired || n / 2 == 0) { g_wfail_fired = true; errno = ENOSPC; return -1; }
        g_wfail_fired = true; return real(fd, buf, n / 2);
    }
    return real(fd, buf, n);
}
ssize_t writev(int fd, const struct iovec* iov, int cnt) {
    static auto real = reinterpret_cast<ssize_t (*)(int, const struct iovec*, int)>(dlsym(RTLD_NEXT, "writev"));
    if (tracked_fd(fd)) hit();
    if (fd >= 0 && fd == g_wfail_fd) {
        static auto real_write = reinterpret_cast<ssize_t (*)(int, const void*, size_t)>(dlsym(RTLD_NEXT, "write"));
        size_t first = cnt > 0 ? iov[0].iov_len : 0;
        if (g_wfail_fired || first / 2 == 0) { g_wfail_fired = true; errno = ENOSPC; return -1; }
        g_wfail_fired = true; return real_write(fd, iov[0].iov_base, first / 2);
    }
    return real(fd, iov, cnt);
}
int fclose(FILE* f) {
    static auto real = reinterpret_cast<int (*)(FILE*)>(dlsym(RTLD_NEXT, "fclose"));
    int fd = f ? fileno(f) : -1;
    if (tracked_fd(fd)) { hit(); untrack_fd(fd); }
    if (fd >= 0 && fd == g_wfail_fd) g_wfail_fd = -1;
    return real(f);
}
int close(int fd) {
    static auto real = reinterpret_cast<int (*)(int)>(dlsym(RTLD_NEXT, "close"));
    if (tracked_fd(fd)) { hit(); untrack_fd(fd); }
    if (fd >= 0 && fd == g_wfail_fd) g_wfail_fd = -1;
    return real(fd);
}
static void note_unlink(const char* path) {
    if (!in_dir(path)) return;
    hit();
    auto data = slurp_raw(path);
    struct stat st; if (::lstat(path, &st) != 0) return;
    g_unlinked.emplace_back(fs::path(path).filename().string(), classify(data));
}
int unlink(const char* path) {
    static auto real = reinterpret_cast<int (*)(const char*)>(dlsym(RTLD_NEXT, "unlink"));
    note_unlink(path); return real(path);
}
int remove(const char* path) {
    static auto real = reinterpret_cast<int (*)(const char*)>(dlsym(RTLD_NEXT, "remove"));
    note_unlink(path); return real(path);
}
int rename(const char* a, const char* b) {
    static auto real = reinterpret_cast<int (*)(const char*, const char*)>(dlsym(RTLD_NEXT, "rename"));
    if (in_dir(a) || in_dir(b)) hit();
    return real(a, b);
}
}

// ---------------------------------------------------------------------------------------
static long g_bi = 0;   // ordinal (1-based) of the behaviour of the script that is running: lets a replay file carry its script
struct Driver {
    std::unique_ptr<ChunkStore> store;
    Config cfg;
    std::map<std::string, long> key_to_c;   // hex key -> small id
    bool persistent = false;

    static ChunkId cid(long c) { return ev::id32(c, 0xC0); }

    std::string disk_json() {
        // [[c, class], ...] sorted by c ; files that are not <known key>.chunk get c = -1
        std::vector<std::pair<long, int>> items;
        std::error_code ec;
        if (persistent && fs::exists(g_dir, ec)) {
            for (const auto& e : fs::directory_iterator(g_dir, ec)) {
                auto name = e.path().filename().string();
                long c = -1;
                auto dot = name.rfind(".chunk");
                if (dot != std::string::npos && dot + 6 == name.size()) { auto it = key_to_c.find(name.substr(0, dot)); if (it != key_to_c.end()) c = it->second; }
                items.emplace_back(c, classify(slurp_raw(e.path().c_str())));
            }
        }
        std::sort(items.begin(), items.end());
        std::vector<std::string> js;
        for (auto& [c, k] : items) js.push_back("[" + std::to_string(c) + "," + std::to_string(k) + "]");
        return ev::jlist(js);
    }
    std::string unl_json() {
        std::vector<std::string> js;
        for (auto& [name, k] : g_unlinked) {
            long c = -1; auto dot = name.rfind(".chunk");
            if (dot != std::string::npos) { auto it = key_to_c.find(name.substr(0, dot)); if (it != key_to_c.end()) c = it->second; }
            js.push_back("[" + std::to_string(c) + "," + std::to_string(k) + "]");
        }
        g_unlinked.clear();
        return ev::jlist(js);
    }
    void common(ev::Ev& e) { e.i("t", vclock::now_ns() / 1'000'000LL); if (persistent) { e.raw("disk", disk_json()); e.raw("unl", unl_json()); } }

    void make_store() { store = std::make_unique<ChunkStore>(cfg); }

    void run(const ev::Cmd& c) {
        if (c.op == "reset") {
            store.reset();
            std::error_code ec; fs::remove_all(g_dir, ec); g_unlinked.clear();
            vclock::set_ns(0);
            cfg = Config{};
            persistent = c.i("persistent", 0) != 0;
            cfg.storage_persistent_enabled = persistent;
            cfg.storage_wipe_on_expiry = c.i("wipe", 1) != 0;
            cfg.storage_wipe_passes = static_cast<std::uint8_t>(c.i("passes", 1));
            cfg.storage_directory = g_dir;
            cfg.default_chunk_ttl = std::chrono::seconds(c.i("default", 3));
            key_to_c.clear();
            for (long k = 0; k < 64; ++k) key_to_c[chunk_id_to_string(cid(k))] = k;
            make_store();
            ev::Ev e("reset"); e.i("bi", g_bi).i("persistent", persistent).i("wipe", cfg.storage_wipe_on_expiry).i("deflt", cfg.default_chunk_ttl.count() * 1000); common(e); e.emit();
        } else if (c.op == "put") {
            long id = c.i("c"), b = c.i("b"), ttl = c.i("ttl");
            { ev::Ev e("begin"); e.s("what", "put").i("c", id).i("b", b).i("ttl", ttl * 1000).i("t", vclock::now_ns() / 1'000'000LL); e.emit(); std::fflush(ev::out()); }
            g_wfail_fired = false; g_wfail_fd = -1; g_wfail_arm = c.i("wfail", 0) != 0 && persistent;
            store->put(cid(id), payload_bytes(b), std::chrono::seconds(ttl));
            g_wfail_arm = false; g_wfail_fd = -1;
            long long dl = -1;
            for (auto& s : store->snapshot()) if (s.id == cid(id)) dl = vclock::steady_to_ns(s.expires_at) / 1'000'000LL;
            ev::Ev e("put"); e.i("c", id).i("b", b).i("ttl", ttl * 1000).i("dl", dl).i("wfail", g_wfail_fired ? 1 : 0); common(e); e.emit();
        } else if (c.op == "get" || c.op == "rec") {
            long id = c.i("c");
            std::optional<ChunkData> data;
            long long dl = -1;
            if (c.op == "get") data = store->get(cid(id));
            else { auto r = store->get_record(cid(id)); if (r) { data = r->data; dl = vclock::steady_to_ns(r->expires_at) / 1'000'000LL; } }
            ev::Ev e("get"); e.i("c", id).s("via", c.op).s("res", data ? "hit" : "miss").i("b", data ? classify(*data) : -9).i("rdl", dl); common(e); e.emit();
        } else if (c.op == "list") {
            std::vector<long long> ids;
            for (auto& s : store->snapshot()) { auto it = key_to_c.find(s.key); ids.push_back(it == key_to_c.end() ? -1 : it->second); }
            std::sort(ids.begin(), ids.end());
            ev::Ev e("snapshot"); e.ints("ids", ids).i("size", static_cast<long long>(store->size())); common(e); e.emit();
        } else if (c.op == "sweep") {
            { ev::Ev e("begin"); e.s("what", "sweep").i("t", vclock::now_ns() / 1'000'000LL); e.emit(); std::fflush(ev::out()); }
            auto removed = store->sweep_expired();
            std::vector<long long> ids;
            for (auto& r : removed) { auto it = key_to_c.find(chunk_id_to_string(r)); ids.push_back(it == key_to_c.end() ? -1 : it->second); }
            std::sort(ids.begin(), ids.end());
            ev::Ev e("sweep"); e.ints("removed", ids); common(e); e.emit();
        } else if (c.op == "adv") {
            vclock::advance_ms(c.i("ms"));
            ev::Ev e("adv"); e.i("ms", c.i("ms")); common(e); e.emit();
        } else if (c.op == "restart") {
            store.reset();
            make_store();
            ev::Ev e("restart"); common(e); e.emit();
        } else {
            std::fprintf(stderr, "chunkstore: unknown op %s\n", c.op.c_str()); std::exit(2);
        }
    }
};

static std::vector<std::vector<ev::Cmd>> read_behaviours(const char* path) {
    std::ifstream in(path);
    if (!in) { std::perror(path); std::exit(2); }
    std::vector<std::vector<ev::Cmd>> bs;
    ev::Cmd c;
    while (ev::read_cmd(in, c)) {
        if (c.op == "reset" || bs.empty()) bs.emplace_back();
        bs.back().push_back(c);
    }
    return bs;
}

int main(int argc, char** argv) {
    if (argc < 4) { std::fprintf(stderr, "usage: chunkstore <script> <trace> <workdir> [--crash]\n"); return 2; }
    bool crash = argc > 4 && std::string(argv[4]) == "--crash";
    std::error_code ec;
    fs::create_directories(argv[3], ec);
    g_dir = (fs::absolute(argv[3]) / "store").string();
    ev::open(argv[2]);
    auto behaviours = read_behaviours(argv[1]);
    if (!crash) {
        Driver d;
        for (auto& b : behaviours) { ++g_bi; for (auto& c : b) d.run(c); }
        std::fflush(ev::out());
        return 0;
    }
    // crash mode: behaviour = prefix ops, "crashop", the interrupted op, (rest ignored)
    long runs = 0;
    for (auto& b : behaviours) {
        ++g_bi;
        size_t mark = b.size();
        for (size_t i = 0; i < b.size(); ++i) if (b[i].op == "crashop") { mark = i; break; }
        if (mark + 1 >= b.size()) continue;
        for (long k = 1; k < 200; ++k) {
            std::fflush(ev::out());
            pid_t pid = fork();
            if (pid == 0) {
                Driver d;
                for (size_t i = 0; i < mark; ++i) d.run(b[i]);
                g_calls = 0; g_crash_at = k; g_armed = true;
                d.run(b[mark + 1]);
                g_armed = false;
                std::fflush(ev::out());
                _exit(0);
            }
            int st = 0; waitpid(pid, &st, 0);
            bool died = WIFEXITED(st) && WEXITSTATUS(st) == 77;
            if (!died && !(WIFEXITED(st) && WEXITSTATUS(st) == 0)) { std::fprintf(stderr, "chunkstore: child failed status=%d\n", st); return 2; }
            ++runs;
            vclock::set_ns(50'000LL * 1'000'000'000LL);   // later than anything the child did
            // parent: new instance on the same directory, let everything expire, clean up
            Driver d;
            d.persistent = true;
            d.cfg = Config{};
            d.cfg.storage_persistent_enabled = true; d.cfg.storage_wipe_on_expiry = true; d.cfg.storage_directory = g_dir;
            for (long q = 0; q < 64; ++q) d.key_to_c[chunk_id_to_string(Driver::cid(q))] = q;
            { ev::Ev e("crash"); e.i("k", k).b("died", died); d.common(e); e.emit(); }
            d.make_store();
            { ev::Ev e("restart"); d.common(e); e.emit(); }
            vclock::advance_s(100000);
            { ev::Ev e("adv"); e.i("ms", 100000000); d.common(e); e.emit(); }
            ev::Cmd sw; sw.op = "sweep"; d.run(sw);
            { ev::Ev e("final"); d.common(e); e.emit(); }
            if (!died) break;   // k is beyond the last filesystem call of the operation
        }
    }
    std::fflush(ev::out());
    std::fprintf(stderr, "chunkstore: crash runs=%ld\n", runs);
    return 0;
}
