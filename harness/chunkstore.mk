LIBS_chunkstore := -ldl
