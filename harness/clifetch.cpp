// Driver for C30 / C31: the REAL `eph fetch` (src/main.cpp) against hostile and honest providers on every
// discovery path, and the REAL filename sanitisers of the node side.
//
//   clifetch <script> <trace-out> <workdir> [eph-binary]
//
// Without <eph-binary> every case calls the real main() of src/main.cpp (the whole translation unit is #included,
// main renamed) in a forked child; with it the child exec()s that binary (the unmodified CLI built from the
// same tree).  The fork happens in a single-threaded *runner* process that is split off before any server thread
// exists; the parent keeps the servers:
//   * transport hint : a real Node ("T") with a listening transport; the chunk under the manifest's chunk id holds
//                      the chosen response bytes, sealed with the manifest's key and nonce (Node::receive_chunk);
//   * relay hint     : a real relay::RelayServer + a second real Node ("R", same identity) registered with it;
//   * control hint, control:// fallback, local daemon : one harness-owned fake control endpoint each (TCP
//                      listener answering FETCH with the chosen bytes), or -- `:daemon` -- a real
//                      daemon::ControlServer in front of a real Node holding the chosen bytes under that chunk id.
// The manifest handed to the CLI is crafted (unsigned): content hash of the EXPECTED payload, the hostile file
// name, the hints of the case.
//
// script:
//   case id=N chain=<path>:<resp>[:daemon],...  name=-|x<hex, "@WORK@" = the scratch directory>  mode=dir|trail|defdir|cwd|file  size=S  var=V
//        flags=-|direct|transport|ctl  usename=0|1
//        path in transport relay control fallback local ; resp in correct truncated substituted extended empty
//        error down nopayload shortstream
//   nodename id=N raw=x<hex>
// events: fetch (exit code, every file that appeared -- path relative to the target directory as bytes, size,
// SHA-256 by the repo's crypto::Sha256 -- contacts per endpoint), nodename (name recorded by Node::store_chunk
// directly and behind security::sanitize_filename_hint, as found in the decoded manifest URI).
#include "common/ev.hpp"
#include "common/vclock.hpp"

#define main eph_cli_main
#include EPH_MAIN_CPP
#undef main

#include "ephemeralnet/network/RelayClient.hpp"
#include "ephemeralnet/relay/EventLoop.hpp"
#include "ephemeralnet/relay/RelayServer.hpp"

#include <fcntl.h>
#include <poll.h>
#include <netinet/tcp.h>
#include <signal.h>
#include <sys/wait.h>

namespace ephemeralnet::test {
class NodeTestAccess {
public:
    static bool relay_registered(Node& n) { return n.relay_client_ && n.relay_client_->has_active_allocation(); }
};
}  // namespace ephemeralnet::test

namespace cf {
using namespace ephemeralnet;
namespace fs = std::filesystem;
using Bytes = std::vector<std::uint8_t>;

[[noreturn]] void die(const std::string& m) { std::fprintf(stderr, "clifetch: %s\n", m.c_str()); std::exit(2); }

std::string hex(const std::uint8_t* p, size_t n) {
    static const char* d = "0123456789abcdef";
    std::string s;
    for (size_t i = 0; i < n; ++i) { s += d[p[i] >> 4]; s += d[p[i] & 15]; }
    return s;
}
template <class C> std::string hex(const C& c) { return hex(reinterpret_cast<const std::uint8_t*>(c.data()), c.size()); }
std::string unhex(const std::string& h) {
    std::string s;
    for (size_t i = 0; i + 1 < h.size(); i += 2) s += static_cast<char>(std::stoi(h.substr(i, 2), nullptr, 16));
    return s;
}
std::array<std::uint8_t, 32> sha(const Bytes& b) { return crypto::Sha256::digest(std::span<const std::uint8_t>(b.data(), b.size())); }

// ------------------------------------------------------------------------------------------------
// runner process: forks one child per CLI invocation (single-threaded, so fork is safe)
struct RunResult { int rc = -1; bool timeout = false; bool signaled = false; };

int runner_loop(int rfd, int wfd, const char* exe) {
    FILE* in = fdopen(rfd, "r");
    FILE* out = fdopen(wfd, "w");
    char* line = nullptr; size_t cap = 0;
    auto getl = [&]() -> std::string {
        ssize_t n = getline(&line, &cap, in);
        if (n <= 0) _exit(0);
        std::string s(line, static_cast<size_t>(n));
        while (!s.empty() && (s.back() == '\n')) s.pop_back();
        return s;
    };
    for (;;) {
        std::string cwd = unhex(getl());
        std::string capture = unhex(getl());
        long timeout_ms = std::atol(getl().c_str());
        const std::string stdin_mode = getl();       // "null", or "pty:<text>": stdin is a terminal on which <text> has been typed
        long n = std::atol(getl().c_str());
        std::vector<std::string> args;
        for (long i = 0; i < n; ++i) args.push_back(unhex(getl()));
        int ptm = -1; std::string ptsn;
        if (stdin_mode.rfind("pty:", 0) == 0) {
            ptm = ::posix_openpt(O_RDWR | O_NOCTTY);
            if (ptm < 0 || ::grantpt(ptm) != 0 || ::unlockpt(ptm) != 0) _exit(2);
            ptsn = ::ptsname(ptm);
            const std::string typed = unhex(stdin_mode.substr(4));
            if (::write(ptm, typed.data(), typed.size()) < 0) _exit(2);      // waits in the line discipline until the child reads
        }
        pid_t pid = fork();
        if (pid < 0) _exit(2);
        if (pid == 0) {
            if (chdir(cwd.c_str()) != 0) _exit(97);
            int fd = ::open(capture.c_str(), O_WRONLY | O_CREAT | O_TRUNC, 0644);
            int nul = -1;
            if (ptm >= 0) { ::setsid(); nul = ::open(ptsn.c_str(), O_RDWR); ::close(ptm); }
            else nul = ::open("/dev/null", O_RDONLY);
            if (fd < 0 || nul < 0) _exit(98);
            dup2(nul, 0); dup2(fd, 1); dup2(fd, 2);
            ::close(fd); ::close(nul); ::close(rfd); ::close(wfd);
            std::vector<char*> argv;
            for (auto& a : args) argv.push_back(a.data());
            argv.push_back(nullptr);
            if (exe && *exe) { execv(exe, argv.data()); _exit(99); }
            int rc = 96;
            try { rc = eph_cli_main(static_cast<int>(args.size()), argv.data()); } catch (...) { rc = 95; }
            std::cout.flush(); std::cerr.flush(); std::fflush(nullptr);
            _exit(rc);
        }
        RunResult r;
        int st = 0;
        long waited = 0;
        for (;;) {
            pid_t w = waitpid(pid, &st, WNOHANG);
            if (w == pid) break;
            if (waited >= timeout_ms) { kill(pid, SIGKILL); waitpid(pid, &st, 0); r.timeout = true; break; }
            usleep(2000); waited += 2;
        }
        if (!r.timeout) {
            if (WIFEXITED(st)) r.rc = WEXITSTATUS(st);
            else { r.signaled = true; r.rc = 128 + WTERMSIG(st); }
        }
        if (ptm >= 0) ::close(ptm);
        std::fprintf(out, "%d %d %d\n", r.rc, r.timeout ? 1 : 0, r.signaled ? 1 : 0);
        std::fflush(out);
    }
}

struct Runner {
    FILE* to = nullptr; FILE* from = nullptr;
    RunResult run(const std::string& cwd, const std::string& capture, long timeout_ms, const std::vector<std::string>& args, const std::string& stdin_mode = "null") {
        std::fprintf(to, "%s\n%s\n%ld\n%s\n%zu\n", hex(cwd).c_str(), hex(capture).c_str(), timeout_ms, stdin_mode.c_str(), args.size());
        for (const auto& a : args) std::fprintf(to, "%s\n", hex(a).c_str());
        std::fflush(to);
        RunResult r; int t = 0, s = 0;
        if (std::fscanf(from, "%d %d %d", &r.rc, &t, &s) != 3) die("runner process died");
        r.timeout = t != 0; r.signaled = s != 0;
        return r;
    }
};

// ------------------------------------------------------------------------------------------------
// harness-owned fake control endpoint
struct FakeEndpoint {
    enum class Mode { Bytes, Error, NoPayload, ShortStream, NoSection };   // NoSection: success claimed for an empty delivery, no payload section at all
    int lfd = -1;
    std::uint16_t port = 0;
    std::thread th;
    std::atomic<bool> stop{false};
    std::mutex mu;
    Mode mode = Mode::Error;
    Bytes body;
    long xvar = 0;                       // which extra response headers a hostile endpoint adds (0: none)
    int hits = 0;
    std::vector<std::string> seen;       // "COMMAND|FALLBACK|BOOTSTRAP" per request
    static std::atomic<int> order;       // global contact counter (which endpoint was contacted last)
    int last_order = 0;

    void start() {
        lfd = ::socket(AF_INET, SOCK_STREAM, 0);
        int one = 1; setsockopt(lfd, SOL_SOCKET, SO_REUSEADDR, &one, sizeof one);
        sockaddr_in ad{}; ad.sin_family = AF_INET; ad.sin_addr.s_addr = htonl(INADDR_LOOPBACK); ad.sin_port = 0;
        if (::bind(lfd, reinterpret_cast<sockaddr*>(&ad), sizeof ad) != 0 || ::listen(lfd, 16) != 0) die("fake endpoint: bind/listen");
        socklen_t l = sizeof ad; getsockname(lfd, reinterpret_cast<sockaddr*>(&ad), &l);
        port = ntohs(ad.sin_port);
        th = std::thread([this] { loop(); });
    }
    void set(Mode m, Bytes b, long xv = 0) { std::scoped_lock lk(mu); mode = m; body = std::move(b); xvar = xv; hits = 0; seen.clear(); last_order = 0; }
    // A remote endpoint may add any header line to its answer.  The keys come from VERIF_XHDRS (every key the CLI / control client
    // sources look up in a response, harvested by checks/clifetch.py); the values claim whatever a lying endpoint would claim.
    static std::string extra_headers(long xv, const Bytes& b) {
        if (xv % 3 == 0) return "";
        static const std::vector<std::string> keys = [] {
            std::vector<std::string> k; const char* e = std::getenv("VERIF_XHDRS");
            std::stringstream ss(e ? e : ""); std::string it;
            while (std::getline(ss, it, ',')) if (!it.empty()) k.push_back(it);
            return k; }();
        static const char* std_keys[] = {"STATUS", "CODE", "SIZE", "STREAM", "PAYLOAD-LENGTH", "OUTPUT", "MESSAGE", "HINT"};
        const std::string vals[] = {"1", "true", "OK", "yes", std::to_string(b.size()), hex(sha(b))};
        std::string h; long i = xv;
        for (const auto& k : keys) {
            bool standard = false;
            for (auto* s : std_keys) if (k == s) standard = true;
            if (standard) continue;
            h += k + ":" + vals[static_cast<size_t>(i++ % 6)] + "\n";
        }
        return h;
    }
    void shutdown() { stop = true; ::shutdown(lfd, SHUT_RDWR); ::close(lfd); if (th.joinable()) th.join(); }
    static bool send_all(int fd, const void* p, size_t n) {
        const char* c = static_cast<const char*>(p);
        while (n) { ssize_t k = ::send(fd, c, n, MSG_NOSIGNAL); if (k <= 0) return false; c += k; n -= static_cast<size_t>(k); }
        return true;
    }
    void loop() {
        while (!stop) {
            pollfd pf{lfd, POLLIN, 0};
            if (::poll(&pf, 1, 200) <= 0) continue;
            int c = ::accept(lfd, nullptr, nullptr);
            if (c < 0) continue;
            timeval tv{5, 0}; setsockopt(c, SOL_SOCKET, SO_RCVTIMEO, &tv, sizeof tv);
            std::map<std::string, std::string> f;
            std::string line; bool ok = false;
            for (;;) {
                char ch;
                ssize_t k = ::recv(c, &ch, 1, 0);
                if (k <= 0) break;
                if (ch == '\r') continue;
                if (ch != '\n') { line += ch; continue; }
                if (line.empty()) { ok = true; break; }
                auto p = line.find(':');
                if (p != std::string::npos) { std::string key = line.substr(0, p); for (auto& x : key) x = static_cast<char>(std::toupper(static_cast<unsigned char>(x))); f[key] = line.substr(p + 1); }
                line.clear();
            }
            if (ok) {
                if (f.count("PAYLOAD-LENGTH")) { size_t n = std::strtoull(f["PAYLOAD-LENGTH"].c_str(), nullptr, 10); char buf[4096]; while (n) { ssize_t k = ::recv(c, buf, std::min(n, sizeof buf), 0); if (k <= 0) break; n -= static_cast<size_t>(k); } }
                Mode m; Bytes b; long xv;
                { std::scoped_lock lk(mu); m = mode; b = body; xv = xvar; ++hits; last_order = ++order; seen.push_back(f["COMMAND"] + "|" + (f.count("FALLBACK") ? "F" : "-") + "|" + (f.count("BOOTSTRAP") ? "B" : "-")); }
                std::string h;
                if (f["COMMAND"] != "FETCH" || m == Mode::Error) {
                    h = "STATUS:ERROR\nCODE:ERR_FETCH_CHUNK_MISSING\nMESSAGE:Chunk not available locally\nHINT:none\n\n";
                    send_all(c, h.data(), h.size());
                } else if (m == Mode::NoSection) {
                    // "the chunk is empty": STATUS:OK without OUTPUT and without a payload section, SIZE 0 / absent / with STREAM:CLIENT
                    const long v = xv % 3;
                    h = std::string("STATUS:OK\nCODE:OK_FETCH\n") + (v == 0 ? "SIZE:0\nSTREAM:CLIENT\n" : v == 1 ? "SIZE:0\n" : "") + extra_headers(xv, b) + "\n";
                    send_all(c, h.data(), h.size());
                } else if (m == Mode::NoPayload) {
                    h = "STATUS:OK\nCODE:OK_FETCH\nOUTPUT:/nonexistent/verif-daemon-side\nSIZE:" + std::to_string(b.size()) + "\n" + extra_headers(xv, b) + "\n";
                    send_all(c, h.data(), h.size());
                } else {
                    h = "STATUS:OK\nCODE:OK_FETCH\nSIZE:" + std::to_string(b.size()) + "\nSTREAM:CLIENT\n" + extra_headers(xv, b) + "PAYLOAD-LENGTH:" + std::to_string(b.size()) + "\n\n";
                    send_all(c, h.data(), h.size());
                    size_t n = m == Mode::ShortStream ? b.size() / 2 : b.size();
                    if (n) send_all(c, b.data(), n);
                }
            }
            ::shutdown(c, SHUT_RDWR);
            ::close(c);
        }
    }
};
std::atomic<int> FakeEndpoint::order{0};

std::uint16_t free_port() {
    int s = ::socket(AF_INET, SOCK_STREAM, 0);
    sockaddr_in ad{}; ad.sin_family = AF_INET; ad.sin_addr.s_addr = htonl(INADDR_LOOPBACK); ad.sin_port = 0;
    if (::bind(s, reinterpret_cast<sockaddr*>(&ad), sizeof ad) != 0) die("free_port: bind");
    socklen_t l = sizeof ad; getsockname(s, reinterpret_cast<sockaddr*>(&ad), &l); ::close(s);
    return ntohs(ad.sin_port);
}

// a port that refuses connections for the whole run: bound, never listening
struct DeadPort {
    int fd = -1; std::uint16_t port = 0;
    void start() {
        fd = ::socket(AF_INET, SOCK_STREAM, 0);
        sockaddr_in ad{}; ad.sin_family = AF_INET; ad.sin_addr.s_addr = htonl(INADDR_LOOPBACK); ad.sin_port = 0;
        if (::bind(fd, reinterpret_cast<sockaddr*>(&ad), sizeof ad) != 0) die("dead port: bind");
        socklen_t l = sizeof ad; getsockname(fd, reinterpret_cast<sockaddr*>(&ad), &l);
        port = ntohs(ad.sin_port);
    }
};

// counting TCP forwarder in front of every real server (node transport, relay, real daemon): tells which paths the CLI contacted
struct Proxy {
    int lfd = -1;
    std::uint16_t port = 0;
    std::atomic<int> target{0};
    std::atomic<int> hits{0}, last_order{0};
    std::thread th;
    void start() {
        lfd = ::socket(AF_INET, SOCK_STREAM, 0);
        int one = 1; setsockopt(lfd, SOL_SOCKET, SO_REUSEADDR, &one, sizeof one);
        sockaddr_in ad{}; ad.sin_family = AF_INET; ad.sin_addr.s_addr = htonl(INADDR_LOOPBACK); ad.sin_port = 0;
        if (::bind(lfd, reinterpret_cast<sockaddr*>(&ad), sizeof ad) != 0 || ::listen(lfd, 16) != 0) die("proxy: bind/listen");
        socklen_t l = sizeof ad; getsockname(lfd, reinterpret_cast<sockaddr*>(&ad), &l);
        port = ntohs(ad.sin_port);
        th = std::thread([this] { loop(); });
        th.detach();
    }
    void reset() { hits = 0; last_order = 0; }
    static void pump(int a, int b) {
        std::vector<char> buf(65536);
        for (;;) {
            pollfd pf[2] = {{a, POLLIN, 0}, {b, POLLIN, 0}};
            if (::poll(pf, 2, 30000) <= 0) break;
            bool done = false;
            for (int k = 0; k < 2 && !done; ++k) {
                if (!(pf[k].revents & (POLLIN | POLLHUP | POLLERR))) continue;
                ssize_t n = ::recv(pf[k].fd, buf.data(), buf.size(), 0);
                if (n <= 0) { done = true; break; }
                if (!FakeEndpoint::send_all(k == 0 ? b : a, buf.data(), static_cast<size_t>(n))) done = true;
            }
            if (done) break;
        }
        ::shutdown(a, SHUT_RDWR); ::shutdown(b, SHUT_RDWR); ::close(a); ::close(b);
    }
    void loop() {
        for (;;) {
            int c = ::accept(lfd, nullptr, nullptr);
            if (c < 0) continue;
            ++hits; last_order = ++FakeEndpoint::order;
            int s = ::socket(AF_INET, SOCK_STREAM, 0);
            sockaddr_in ad{}; ad.sin_family = AF_INET; ad.sin_addr.s_addr = htonl(INADDR_LOOPBACK); ad.sin_port = htons(static_cast<std::uint16_t>(target.load()));
            if (target.load() == 0 || ::connect(s, reinterpret_cast<sockaddr*>(&ad), sizeof ad) != 0) { ::close(s); ::close(c); continue; }
            int one = 1; setsockopt(s, IPPROTO_TCP, TCP_NODELAY, &one, sizeof one); setsockopt(c, IPPROTO_TCP, TCP_NODELAY, &one, sizeof one);
            std::thread(pump, c, s).detach();
        }
    }
};

// ------------------------------------------------------------------------------------------------
struct RealDaemon {     // real ControlServer in front of a real Node
    std::unique_ptr<Node> node;
    std::mutex node_mutex;
    std::unique_ptr<daemon::ControlServer> server;
    std::uint16_t port = 0;
};

struct World {
    std::string work;
    Runner runner;
    std::string exe;
    PeerId publisher{};
    std::uint32_t publisher_public = 0;
    std::unique_ptr<Node> nodeT, nodeR;
    std::unique_ptr<relay::EventLoop> loop;
    std::unique_ptr<relay::RelayServer> relay;
    std::thread loop_thread;
    std::uint16_t relay_port = 0;
    std::map<std::string, std::unique_ptr<FakeEndpoint>> fake;       // control / fallback / local
    std::map<std::string, std::unique_ptr<RealDaemon>> daemons;      // started on first use
    DeadPort dead;
    std::map<std::string, std::unique_ptr<Proxy>> px;               // one per path
    bool relay_up = false;
};
World W;

Config node_config(std::uint32_t seed) {
    Config cfg{};
    cfg.identity_seed = seed;
    cfg.announce_pow_difficulty = 0; cfg.handshake_pow_difficulty = 0; cfg.store_pow_difficulty = 0;
    cfg.relay_enabled = false; cfg.nat_stun_enabled = false;
    cfg.min_manifest_ttl = std::chrono::seconds(2);
    cfg.upload_max_parallel_transfers = 0; cfg.upload_max_transfers_per_peer = 0;
    cfg.shard_threshold = 2; cfg.shard_total = 3;
    cfg.control_host = "127.0.0.1";
    cfg.storage_persistent_enabled = false;
    return cfg;
}

void start_relay() {
    if (W.relay_up) return;
    W.relay_port = free_port();
    W.loop = std::make_unique<relay::EventLoop>();
    relay::RelayServerConfig rc; rc.listen_host = "127.0.0.1"; rc.listen_port = W.relay_port;
    W.relay = std::make_unique<relay::RelayServer>(*W.loop, rc);
    if (!W.relay->start()) die("relay server did not start");
    W.loop_thread = std::thread([] { W.loop->run(); });
    Config cfg = node_config(0x5151u);
    cfg.relay_enabled = true;
    Config::RelayEndpoint ep{}; ep.host = "127.0.0.1"; ep.port = W.relay_port;
    cfg.relay_endpoints.push_back(ep);
    W.nodeR = std::make_unique<Node>(W.publisher, cfg);
    W.nodeR->start_transport(0);
    W.px.at("relay")->target = W.relay_port;
    W.relay_up = true;
}
bool wait_relay_registered() {
    for (int i = 0; i < 3000; ++i) {
        if (test::NodeTestAccess::relay_registered(*W.nodeR)) return true;
        usleep(2000);
    }
    return false;
}

// a fresh daemon per case (the daemon rate-limits streamed FETCHes per client: 12 per 30 s)
RealDaemon& daemon_for(const std::string& path) {
    static long serial = 0;
    auto& d = W.daemons[path];
    d = std::make_unique<RealDaemon>();
    Config cfg = node_config(0x7000u + static_cast<std::uint32_t>(++serial));
    d->port = free_port();
    cfg.control_port = d->port;
    d->node = std::make_unique<Node>(ev::id32(90 + serial, 0xA0), cfg);
    d->server = std::make_unique<daemon::ControlServer>(*d->node, d->node_mutex, [] {});
    d->server->start("127.0.0.1", d->port);
    return *d;
}
void drop_daemons() {
    for (auto& [k, d] : W.daemons) if (d && d->server) d->server->stop();
    W.daemons.clear();
}

// ------------------------------------------------------------------------------------------------
Bytes payload_of(long id, long size) {
    Bytes v(static_cast<size_t>(size));
    for (size_t i = 0; i < v.size(); ++i) v[i] = static_cast<std::uint8_t>((id * 131 + static_cast<long>(i) * 7 + static_cast<long>(i >> 8) * 13 + 5) & 0xff);
    return v;
}
bool is_bytes_resp(const std::string& r) { return r == "correct" || r == "truncated" || r == "substituted" || r == "extended" || r == "empty" || r == "nopayload" || r == "shortstream"; }
Bytes response_of(const std::string& resp, const Bytes& p, long var) {
    if (resp == "correct" || resp == "nopayload" || resp == "shortstream") return p;
    if (resp == "empty") return {};
    if (resp == "truncated") {
        size_t cuts[] = {1, p.size() / 2, p.size() - 1};
        size_t cut = p.empty() ? 0 : std::max<size_t>(1, cuts[static_cast<size_t>(var) % 3]);
        return Bytes(p.begin(), p.end() - static_cast<long>(std::min(cut, p.size())));
    }
    if (resp == "substituted") {        // same length, one byte (or every byte) differs
        Bytes q = p;
        if (q.empty()) return q;
        if (var % 3 == 2) for (auto& b : q) b = static_cast<std::uint8_t>(b ^ 0x5a);
        else q[var % 3 == 0 ? q.size() - 1 : static_cast<size_t>(var) % q.size()] ^= 0x01;
        return q;
    }
    if (resp == "extended") {
        Bytes q = p;
        size_t extra = var % 2 == 0 ? 1 : 1 + static_cast<size_t>(var) % 97;
        for (size_t i = 0; i < extra; ++i) q.push_back(static_cast<std::uint8_t>(var % 3 == 0 ? 0 : (i * 29 + 1)));
        return q;
    }
    die("unknown response kind " + resp);
}

struct Hop { std::string path, resp, impl; Bytes body; std::string dig; int hits = -1; int order = 0; };

protocol::Manifest base_manifest(long id, const Bytes& content, const crypto::Key& key, const crypto::Nonce& nonce) {
    protocol::Manifest m{};
    m.chunk_id = ev::id32(id, 0xC0);
    m.chunk_hash = sha(content);
    m.nonce = nonce;
    m.threshold = 2; m.total_shares = 3;
    m.expires_at = std::chrono::system_clock::now() + std::chrono::seconds(900);
    for (const auto& s : crypto::Shamir::split(key.bytes, 2, 3)) { protocol::KeyShard k{}; k.index = s.index; k.value = s.value; m.shards.push_back(k); }
    m.metadata["publisher_peer"] = peer_id_to_string(W.publisher);
    m.metadata["publisher_public"] = std::to_string(W.publisher_public);
    std::copy(m.chunk_hash.begin(), m.chunk_hash.end(), m.security.attestation_digest.begin());
    m.security.has_attestation_digest = true;
    m.security.token_challenge_bits = 0;
    return m;
}

// the node holds `body` under the case's chunk id, sealed with the manifest's key and nonce
void load_node(Node& n, long id, const Bytes& body, const crypto::Key& key, const crypto::Nonce& nonce) {
    auto m = base_manifest(id, body, key, nonce);
    Bytes sealed;
    const std::uint32_t counter = static_cast<std::uint32_t>(m.chunk_id[0]) | (static_cast<std::uint32_t>(m.chunk_id[1]) << 8) |
                                  (static_cast<std::uint32_t>(m.chunk_id[2]) << 16) | (static_cast<std::uint32_t>(m.chunk_id[3]) << 24);
    crypto::ChaCha20::apply(key, nonce, std::span<const std::uint8_t>(body.data(), body.size()), sealed, counter);
    if (!n.receive_chunk(protocol::encode_manifest(m), sealed).has_value()) die("node refused the prepared chunk (id " + std::to_string(id) + ")");
}

struct Found { std::string rel; long size; std::string dig; };

void scan(const fs::path& root, const fs::path& target, const std::set<std::string>& ignore, std::vector<Found>& files, std::vector<std::string>& dirs) {
    std::error_code ec;
    if (!fs::exists(root, ec)) return;
    for (auto it = fs::recursive_directory_iterator(root, fs::directory_options::skip_permission_denied, ec); !ec && it != fs::recursive_directory_iterator(); it.increment(ec)) {
        const auto p = it->path();
        if (ignore.count(p.string())) continue;
        std::error_code e2;
        const auto st = fs::symlink_status(p, e2);
        std::string rel = p.lexically_relative(target).string();
        if (fs::is_directory(st)) { dirs.push_back(rel); continue; }
        Bytes content;
        if (fs::is_regular_file(st)) { std::ifstream in(p, std::ios::binary); content.assign(std::istreambuf_iterator<char>(in), {}); }
        files.push_back({rel, static_cast<long>(content.size()), hex(sha(content))});
    }
}

std::string jbytes(const std::string& s) {
    std::string a = "[";
    for (size_t i = 0; i < s.size(); ++i) { if (i) a += ","; a += std::to_string(static_cast<unsigned>(static_cast<unsigned char>(s[i]))); }
    return a + "]";
}

void do_case(const ev::Cmd& c) {
    const long id = c.i("id");
    const long size = c.i("size", 40);
    const long var = c.i("var", 0);
    const std::string mode = c.s("mode", "dir");
    const std::string flags = c.s("flags", "-");
    const bool usename = c.i("usename", 1) != 0;
    const bool has_name = c.s("name", "-") != "-";
    std::string name = has_name ? unhex(c.s("name").substr(1)) : std::string();
    for (size_t at; (at = name.find("@WORK@")) != std::string::npos;) name.replace(at, 6, W.work);    // absolute names stay inside the scanned tree

    const Bytes P = payload_of(id, size);
    const auto H = sha(P);
    crypto::Key key{}; crypto::Nonce nonce{};
    for (size_t i = 0; i < key.bytes.size(); ++i) key.bytes[i] = static_cast<std::uint8_t>((id * 17 + static_cast<long>(i) * 3 + 1) & 0xff);
    for (size_t i = 0; i < nonce.bytes.size(); ++i) nonce.bytes[i] = static_cast<std::uint8_t>((id * 5 + static_cast<long>(i) * 11 + 7) & 0xff);

    std::vector<Hop> chain;
    {
        std::stringstream ss(c.s("chain"));
        std::string item;
        while (std::getline(ss, item, ',')) {
            Hop h; std::stringstream is(item);
            std::getline(is, h.path, ':'); std::getline(is, h.resp, ':'); std::getline(is, h.impl, ':');
            if (h.impl.empty()) h.impl = (h.path == "transport" || h.path == "relay") ? "node" : "fake";
            if (is_bytes_resp(h.resp)) h.body = response_of(h.resp, P, var + 7 * static_cast<long>(chain.size()));
            h.dig = is_bytes_resp(h.resp) ? hex(sha(h.body)) : "";
            chain.push_back(h);
        }
    }

    for (auto& [k, p] : W.px) p->reset();
    auto manifest = base_manifest(id, P, key, nonce);
    if (has_name) manifest.metadata["filename"] = name;
    if (var % 2 == 1) {      // the advisory attestation digest vouches for the first hostile hop's bytes: only chunk_hash counts
        for (const auto& h : chain) if (is_bytes_resp(h.resp) && h.body != P) { const auto d = sha(h.body); std::copy(d.begin(), d.end(), manifest.security.attestation_digest.begin()); break; }
    }
    std::string local_host = "127.0.0.1";
    std::uint16_t local_port = W.dead.port;     // no local daemon unless the chain has one
    std::uint8_t prio = 0;
    for (auto& h : chain) {
        const bool bytes = is_bytes_resp(h.resp);
        if (h.path == "transport" || h.path == "relay") {
            if ((h.resp == "nopayload" || h.resp == "shortstream")) die("response kind not available on a transport path");
            if (h.path == "relay") { start_relay(); if (!wait_relay_registered()) die("relay: node R did not register"); }
            Node& n = h.path == "transport" ? *W.nodeT : *W.nodeR;
            if (bytes) load_node(n, id, h.body, key, nonce);
            protocol::DiscoveryHint hint{};
            hint.scheme = "transport"; hint.priority = prio++;
            if (h.path == "transport") {
                hint.transport = "tcp";
                hint.endpoint = "127.0.0.1:" + std::to_string(h.resp == "down" ? W.dead.port : W.px.at("transport")->port);
            } else {
                hint.transport = "relay";
                hint.endpoint = "127.0.0.1:" + std::to_string(h.resp == "down" ? W.dead.port : W.px.at("relay")->port) + "?peer=" + peer_id_to_string(W.publisher);
            }
            manifest.discovery_hints.push_back(hint);
            continue;
        }
        std::uint16_t port = W.dead.port;
        if (h.resp != "down") {
            if (h.impl == "daemon") {
                if (h.resp == "nopayload" || h.resp == "shortstream") die("response kind not available on a real daemon");
                auto& d = daemon_for(h.path);
                if (bytes) { std::scoped_lock lk(d.node_mutex); load_node(*d.node, id, h.body, key, nonce); }
                W.px.at(h.path)->target = d.port;
                port = W.px.at(h.path)->port;
            } else {
                auto& f = *W.fake.at(h.path);
                using M = FakeEndpoint::Mode;
                f.set(h.impl == "nosection" ? M::NoSection : h.resp == "error" ? M::Error : h.resp == "nopayload" ? M::NoPayload : h.resp == "shortstream" ? M::ShortStream : M::Bytes, h.body, var + static_cast<long>(&h - chain.data()));
                port = f.port;
            }
        }
        if (h.path == "control") {
            protocol::DiscoveryHint hint{};
            hint.scheme = "control"; hint.transport = "control"; hint.priority = prio++;
            hint.endpoint = "127.0.0.1:" + std::to_string(port);
            manifest.discovery_hints.push_back(hint);
        } else if (h.path == "fallback") {
            protocol::FallbackHint fb{};
            fb.uri = "control://127.0.0.1:" + std::to_string(port); fb.priority = prio++;
            manifest.fallback_hints.push_back(fb);
        } else if (h.path == "local") {
            local_port = port;
        } else die("unknown path " + h.path);
    }
    const std::string uri = protocol::encode_manifest(manifest);

    // directories: <work>/c<id>/o1/o2/o3/target  (depth, so that a few ../ stay inside the scanned tree), cwd apart
    const fs::path root = fs::path(W.work) / ("c" + std::to_string(id));
    std::error_code ec;
    fs::remove_all(root, ec);
    const fs::path target = root / "o1" / "o2" / "o3" / "target";
    const fs::path cwd = mode == "cwd" ? target : root / "cwd";
    fs::create_directories(mode == "trail" ? target.parent_path() : target);
    fs::create_directories(cwd);
    std::set<std::string> before;
    {
        for (auto it = fs::recursive_directory_iterator(W.work); it != fs::recursive_directory_iterator(); ++it) before.insert(it->path().string());
    }
    // probes for names that point outside the scanned tree
    std::vector<fs::path> probes;
    if (has_name && name.find('\0') == std::string::npos) {      // a path with an embedded NUL cannot be probed (the C string ends there)
        probes.push_back((target / name).lexically_normal());
        if (!name.empty() && name[0] == '/') probes.push_back(fs::path(name).lexically_normal());
    }
    std::vector<bool> probe_before;
    for (const auto& p : probes) { std::error_code e; probe_before.push_back(fs::exists(fs::symlink_status(p, e))); }

    // pre=1 (mode file): the destination already exists and the user, at a terminal, answers "y" to the overwrite question
    const bool pre = c.i("pre", 0) != 0 && mode == "file";
    const Bytes sentinel = {'O', 'L', 'D', '-', 'C', 'O', 'N', 'T', 'E', 'N', 'T', '\n'};
    if (pre) { std::ofstream o(target / "out.bin", std::ios::binary); o.write(reinterpret_cast<const char*>(sentinel.data()), static_cast<std::streamsize>(sentinel.size())); }
    std::vector<std::string> args = {"eph", "--control-host", local_host, "--control-port", std::to_string(local_port)};
    if (!pre) args.push_back("--yes");
    if (mode == "defdir") { args.push_back("--fetch-default-dir"); args.push_back(target.string()); }
    if (!usename) args.push_back("--fetch-ignore-manifest-name");
    args.push_back("fetch");
    args.push_back(uri);
    if (mode == "dir") { args.push_back("--out"); args.push_back(target.string()); }
    else if (mode == "trail") { args.push_back("--out"); args.push_back(target.string() + "/"); }
    else if (mode == "file") { args.push_back("--out"); args.push_back((target / "out.bin").string()); }
    if (flags == "direct") args.push_back("--direct-only");
    else if (flags == "transport") args.push_back("--transport-only");
    else if (flags == "ctl") args.push_back("--control-fallback");

    const fs::path capture = fs::path(W.work) / "capture.txt";
    const auto t_start = std::chrono::steady_clock::now();
    const RunResult rr = W.runner.run(cwd.string(), capture.string(), 60000, args, pre ? "pty:" + hex(std::string("y\n")) : std::string("null"));

    const long run_ms = static_cast<long>(std::chrono::duration_cast<std::chrono::milliseconds>(std::chrono::steady_clock::now() - t_start).count());
    std::vector<Found> files; std::vector<std::string> dirs;
    {
        std::vector<Found> all; std::vector<std::string> alld;
        std::set<std::string> ignore = before;
        ignore.insert(capture.string());
        scan(W.work, target, ignore, all, alld);
        files = all; dirs = alld;
    }
    if (pre) {    // the old file left untouched is not something this fetch wrote
        const std::string old = hex(sha(sentinel));
        files.erase(std::remove_if(files.begin(), files.end(), [&](const Found& f) { return f.rel == "out.bin" && f.dig == old; }), files.end());
    }
    for (size_t i = 0; i < probes.size(); ++i) {
        std::error_code e;
        if (probe_before[i] || !fs::is_regular_file(fs::symlink_status(probes[i], e))) continue;
        std::string rel = probes[i].lexically_relative(target).string();
        bool dup = false;
        for (auto& f : files) if (f.rel == rel) dup = true;
        if (dup) continue;
        std::ifstream in(probes[i], std::ios::binary);
        Bytes content((std::istreambuf_iterator<char>(in)), {});
        files.push_back({rel, static_cast<long>(content.size()), hex(sha(content))});
        fs::remove(probes[i], e);
    }

    std::string out;
    { std::ifstream in(capture, std::ios::binary); out.assign(std::istreambuf_iterator<char>(in), {}); }
    std::string errcode;
    if (auto p = out.find("Error ["); p != std::string::npos) { auto q = out.find(']', p); if (q != std::string::npos) errcode = out.substr(p + 7, q - p - 7); }

    std::vector<std::string> hops;
    for (auto& h : chain) {
        if (h.resp == "down") { h.hits = 0; h.order = 0; }
        else if (h.impl == "fake") { auto& f = *W.fake.at(h.path); std::scoped_lock lk(f.mu); h.hits = f.hits; h.order = f.last_order; }
        else { auto& x = *W.px.at(h.path); h.hits = x.hits; h.order = x.last_order; }
        hops.push_back("{\"path\":" + ev::jstr(h.path) + ",\"resp\":" + ev::jstr(h.resp) + ",\"impl\":" + ev::jstr(h.impl) + ",\"dig\":" + ev::jstr(h.dig) +
                       ",\"hits\":" + std::to_string(h.hits) + ",\"order\":" + std::to_string(h.order) + "}");
    }
    std::vector<std::string> fl;
    for (auto& f : files) fl.push_back("{\"rel\":" + jbytes(f.rel) + ",\"size\":" + std::to_string(f.size) + ",\"dig\":" + ev::jstr(f.dig) + "}");
    std::vector<std::string> dl;
    for (auto& d : dirs) dl.push_back(jbytes(d));
    std::string tail = out.size() > 600 ? out.substr(out.size() - 600) : out;
    ev::Ev("fetch").i("id", id).s("mode", mode).s("flags", flags).b("usename", usename).b("has_name", has_name).raw("name", jbytes(name))
        .i("size", size).s("want", hex(H)).raw("chain", ev::jlist(hops)).i("rc", rr.rc).b("timeout", rr.timeout).b("signaled", rr.signaled)
        .s("err", errcode).b("pre", pre).raw("files", ev::jlist(fl)).raw("dirs", ev::jlist(dl)).s("bind", W.exe.empty() ? "inproc" : "binary").i("ms", run_ms).s("out", tail).emit();
    std::fflush(ev::out());
    for (const auto& f : files) fs::remove((target / f.rel).lexically_normal(), ec);                 // strays outside the case directory, too
    for (auto it = dirs.rbegin(); it != dirs.rend(); ++it) fs::remove((target / *it).lexically_normal(), ec);
    fs::remove_all(root, ec);
    drop_daemons();
}

void do_nodename(const ev::Cmd& c) {
    const long id = c.i("id");
    const std::string raw = unhex(c.s("raw").substr(1));
    static std::unique_ptr<Node> n;
    static long used = 0;
    if (!n || ++used % 500 == 0) n = std::make_unique<Node>(ev::id32(77, 0xA0), node_config(0x3131u));   // a fresh node now and then: the store only grows
    auto recorded = [&](const protocol::Manifest& m, bool& has) {
        const auto round = protocol::decode_manifest(protocol::encode_manifest(m));      // as issued: the URI
        auto it = round.metadata.find("filename");
        has = it != round.metadata.end();
        return has ? it->second : std::string();
    };
    bool dhas = false, phas = false;
    const auto m1 = n->store_chunk(ev::id32(id * 2, 0xC1), payload_of(id, 24), std::chrono::seconds(60), std::optional<std::string>(raw));
    const std::string direct = recorded(m1, dhas);
    const auto hint = security::sanitize_filename_hint(raw);
    std::string piped;
    if (hint.has_value()) {
        const auto m2 = n->store_chunk(ev::id32(id * 2 + 1, 0xC1), payload_of(id + 1, 24), std::chrono::seconds(60), hint);
        piped = recorded(m2, phas);
    }
    ev::Ev("nodename").i("id", id).raw("raw", jbytes(raw)).b("direct_has", dhas).raw("direct", jbytes(direct))
        .b("hint_has", hint.has_value()).raw("hint", jbytes(hint.value_or(""))).b("piped_has", phas).raw("piped", jbytes(piped)).emit();
}
}  // namespace cf

int main(int argc, char** argv) {
    using namespace cf;
    if (argc < 4) { std::fprintf(stderr, "usage: clifetch <script> <trace-out> <workdir> [eph-binary]\n"); return 2; }
    vclock::use_real(true);
    signal(SIGPIPE, SIG_IGN);
    W.exe = argc > 4 ? argv[4] : "";
    // the runner is split off first: no thread exists yet
    int a[2], b[2];
    if (pipe(a) != 0 || pipe(b) != 0) die("pipe");
    pid_t rp = fork();
    if (rp < 0) die("fork");
    if (rp == 0) { ::close(a[1]); ::close(b[0]); return runner_loop(a[0], b[1], W.exe.c_str()); }
    ::close(a[0]); ::close(b[1]);
    W.runner.to = fdopen(a[1], "w"); W.runner.from = fdopen(b[0], "r");

    std::ifstream script(argv[1]);
    if (!script) die("cannot read script");
    ev::open(argv[2]);
    W.work = fs::absolute(argv[3]).string();
    fs::create_directories(W.work);

    W.publisher = ev::id32(7, 0xA0);
    W.dead.start();
    W.nodeT = std::make_unique<Node>(W.publisher, node_config(0x5151u));
    W.nodeT->start_transport(0);
    W.publisher_public = network::KeyExchange::compute_public([&] {
        std::mt19937 g; g.seed(0x5151u);
        std::uniform_int_distribution<std::uint32_t> d(2u, network::KeyExchange::kPrime - 2u);
        return d(g); }());
    for (const char* p : {"control", "fallback", "local"}) { W.fake[p] = std::make_unique<FakeEndpoint>(); W.fake[p]->start(); }
    for (const char* p : {"transport", "relay", "control", "fallback", "local"}) { W.px[p] = std::make_unique<Proxy>(); W.px[p]->start(); }
    W.px.at("transport")->target = W.nodeT->transport_port();

    ev::Cmd c;
    while (ev::read_cmd(script, c)) {
        if (c.op == "case") do_case(c);
        else if (c.op == "nodename") do_nodename(c);
        else die("unknown op " + c.op);
    }
    std::fflush(ev::out());
    kill(rp, SIGKILL);
    _exit(0);       // scratch servers: no orderly shutdown needed
}
