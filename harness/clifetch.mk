# C30/C31 driver: includes $(REPO)/src/main.cpp (main renamed) -> the real `eph fetch`; real Node(s), real RelayServer,
# real daemon::ControlServer next to harness-owned fake control endpoints
EXTRA_clifetch := daemon/ControlPlane.o daemon/ControlClient.o daemon/ControlServer.o daemon/StructuredLogger.o relay/EventLoop.o relay/RelayServer.o
CXXFLAGS_clifetch := -O0 -DEPH_MAIN_CPP='"$(REPO)/src/main.cpp"'
