// ndjson event writer + tiny line-oriented script reader for the harness drivers.
#pragma once
#include <cstdio>
#include <cstdint>
#include <string>
#include <vector>
#include <map>
#include <sstream>
#include <fstream>
#include <iostream>
#include <array>
#include <cstdlib>
namespace ev {
inline FILE*& out() { static FILE* f = stdout; return f; }
inline void open(const char* path) { out() = std::fopen(path, "w"); if (!out()) { std::perror(path); std::exit(2); } }
inline std::string jstr(const std::string& s) {
    std::string r = "\"";
    for (unsigned char c : s) {
        if (c == '"') r += "\\\""; else if (c == '\\') r += "\\\\";
        else if (c < 0x20 || c >= 0x7f) { char b[8]; std::snprintf(b, sizeof b, "\\u%04x", c); r += b; }
        else r += static_cast<char>(c);
    }
    return r + "\"";
}
class Ev {
public:
    explicit Ev(const std::string& op) { s_ = "{\"op\":" + jstr(op); }
    Ev& i(const char* k, long long v) { s_ += ",\"" + std::string(k) + "\":" + std::to_string(v); return *this; }
    Ev& b(const char* k, bool v) { s_ += ",\"" + std::string(k) + "\":" + (v ? "true" : "false"); return *this; }
    Ev& s(const char* k, const std::string& v) { s_ += ",\"" + std::string(k) + "\":" + jstr(v); return *this; }
    Ev& raw(const char* k, const std::string& json) { s_ += ",\"" + std::string(k) + "\":" + json; return *this; }
    template <class It> Ev& bytes(const char* k, It first, It last) {
        std::string a = "[";
        bool f = true;
        for (; first != last; ++first) { if (!f) a += ","; f = false; a += std::to_string(static_cast<unsigned>(static_cast<std::uint8_t>(*first))); }
        return raw(k, a + "]");
    }
    template <class C> Ev& bytes(const char* k, const C& c) { return bytes(k, c.begin(), c.end()); }
    Ev& ints(const char* k, const std::vector<long long>& v) {
        std::string a = "[";
        for (size_t j = 0; j < v.size(); ++j) { if (j) a += ","; a += std::to_string(v[j]); }
        return raw(k, a + "]");
    }
    void emit() { s_ += "}\n"; std::fputs(s_.c_str(), out()); }
private:
    std::string s_;
};
// JSON list builder helpers
inline std::string jlist(const std::vector<std::string>& items) {
    std::string a = "["; for (size_t j = 0; j < items.size(); ++j) { if (j) a += ","; a += items[j]; } return a + "]";
}
// ---- script reader:  one command per line: "op k=v k=v ..." ; '#' comments -------------
struct Cmd {
    std::string op;
    std::map<std::string, std::string> kv;
    bool has(const std::string& k) const { return kv.count(k) != 0; }
    long long i(const std::string& k, long long d = 0) const { auto it = kv.find(k); return it == kv.end() ? d : std::atoll(it->second.c_str()); }
    std::string s(const std::string& k, const std::string& d = "") const { auto it = kv.find(k); return it == kv.end() ? d : it->second; }
};
inline bool read_cmd(std::istream& in, Cmd& c) {
    std::string line;
    while (std::getline(in, line)) {
        if (line.empty() || line[0] == '#') continue;
        std::istringstream ss(line);
        c = Cmd{};
        ss >> c.op;
        std::string tok;
        while (ss >> tok) { auto p = tok.find('='); if (p == std::string::npos) c.kv[tok] = "1"; else c.kv[tok.substr(0, p)] = tok.substr(p + 1); }
        return true;
    }
    return false;
}
inline std::array<std::uint8_t, 32> id32(long long n, std::uint8_t tag = 0) {
    // deterministic 32-byte id from a small integer: tag | 0.. | big-endian n (kept readable in traces)
    std::array<std::uint8_t, 32> a{};
    a[0] = tag;
    for (int k = 0; k < 8; ++k) a[31 - k] = static_cast<std::uint8_t>((static_cast<unsigned long long>(n) >> (8 * k)) & 0xff);
    return a;
}
}
