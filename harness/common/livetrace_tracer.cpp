// Live tracer: strong definition of ephemeralnet::verif::event(). Linked (instead of a main of its own)
// into the REPOSITORY'S OWN TEST PROGRAMS, compiled against the instrumented sources: every TTL
// life-cycle event of every Node in the process is logged with the node's projected state, in the
// event format of spec/NodeTtlTrace.tla, to $EPH_TRACE_FILE. Real clocks: all instants are expressed in
// milliseconds relative to the first event of the process (steady and system readings are both taken
// at the event and only differences to "now" are used).
#include "common/ev.hpp"
#include "ephemeralnet/core/Node.hpp"
#include <atomic>
#include <cmath>
#include <mutex>
#include <set>
#include <unistd.h>

using namespace ephemeralnet;
namespace ephemeralnet::test {
class NodeTestAccess {
public:
    static auto& store(const Node& n) { return const_cast<Node&>(n).chunk_store_; }
    static auto& dht(const Node& n) { return const_cast<Node&>(n).dht_; }
    static auto& cache(const Node& n) { return const_cast<Node&>(n).manifest_cache_; }
    static auto& plans(const Node& n) { return const_cast<Node&>(n).swarm_plans_; }
    static auto& pending(const Node& n) { return const_cast<Node&>(n).pending_chunk_fetches_; }
    static std::recursive_mutex& mtx(const Node& n) { return n.scheduler_mutex_; }
};
}
using Acc = ephemeralnet::test::NodeTestAccess;
namespace {
std::mutex g_out_mutex;
FILE* g_out = nullptr;
bool g_tried = false;
std::chrono::steady_clock::time_point g_t0;
constexpr long long kClamp = 2'000'000'000LL;
long long clampms(long double v) { if (v > kClamp) return kClamp; if (v < -kClamp) return -kClamp; return static_cast<long long>(std::floor(v)); }
std::string hex(const unsigned char* p, size_t n) { static const char* d = "0123456789abcdef"; std::string s; for (size_t i = 0; i < n; ++i) { s += d[p[i] >> 4]; s += d[p[i] & 15]; } return s; }
}

namespace ephemeralnet::verif {
void event(const char* what, const Node& node, const unsigned char* chunk_id32, long long manifest_expiry_unix_ms, bool accepted) {
    {
        std::scoped_lock lk(g_out_mutex);
        if (!g_tried) {
            g_tried = true;
            if (const char* path = std::getenv("EPH_TRACE_FILE")) { g_out = std::fopen((std::string(path) + "." + std::to_string(getpid())).c_str(), "w"); g_t0 = std::chrono::steady_clock::now(); }
        }
        if (!g_out) return;
    }
    const auto snow = std::chrono::steady_clock::now();
    const auto wnow = std::chrono::system_clock::now();
    const long double t = std::chrono::duration<long double, std::milli>(snow - g_t0).count();
    auto st = [&](std::chrono::steady_clock::time_point tp) { if (tp == std::chrono::steady_clock::time_point{}) return -kClamp; return clampms(t + std::chrono::duration<long double, std::milli>(tp - snow).count()); };
    auto sy = [&](std::chrono::system_clock::time_point tp) { if (tp == std::chrono::system_clock::time_point{}) return -kClamp; return clampms(t + std::chrono::duration<long double, std::milli>(tp - wnow).count()); };
    const long long wnow_ms = std::chrono::duration_cast<std::chrono::milliseconds>(wnow.time_since_epoch()).count();

    std::vector<std::string> chunks, cache, shard, loc, pend, plans;
    long long dl = -kClamp, sexp = -kClamp, aexp = -kClamp;
    const std::string ckey = chunk_id32 ? hex(chunk_id32, 32) : std::string();
    {
        std::unique_lock<std::recursive_mutex> lk(Acc::mtx(node));
        std::set<std::string> keys;
        for (auto& s : Acc::store(node).snapshot()) { chunks.push_back("[" + ev::jstr(s.key) + "," + std::to_string(st(s.expires_at)) + "]"); keys.insert(s.key); if (s.key == ckey) dl = st(s.expires_at); }
        for (auto& [k, m] : Acc::cache(node)) { cache.push_back("[" + ev::jstr(k) + "," + std::to_string(sy(m.expires_at)) + "]"); keys.insert(k); }
        for (auto& l : Acc::dht(node).snapshot_locators()) {
            std::vector<std::string> hs;
            const auto k = chunk_id_to_string(l.id); keys.insert(k);
            for (auto& h : l.holders) { const bool self = h.id == node.id(); hs.push_back("[" + std::string(self ? "0" : "1") + "," + std::to_string(st(h.expires_at)) + "]"); if (self && k == ckey) aexp = st(h.expires_at); }
            loc.push_back("[" + ev::jstr(k) + "," + std::to_string(st(l.expires_at)) + "," + ev::jlist(hs) + "]");
        }
        for (auto& [k, s] : Acc::pending(node)) { pend.push_back("[" + ev::jstr(k) + "," + std::to_string(sy(s.manifest_expires)) + "," + std::to_string(s.attempts) + "]"); keys.insert(k); }
        for (auto& [k, p] : Acc::plans(node)) plans.push_back(ev::jstr(k));
        for (auto& k : keys) { ChunkId id{}; bool ok = k.size() == 64; for (size_t i = 0; ok && i < 32; ++i) { unsigned v = 0; if (std::sscanf(k.c_str() + 2 * i, "%2x", &v) != 1) ok = false; id[i] = static_cast<std::uint8_t>(v); }
            if (!ok) continue; if (auto r = Acc::dht(node).shard_record(id)) { shard.push_back("[" + ev::jstr(k) + "," + std::to_string(st(r->expires_at)) + "]"); if (k == ckey) sexp = st(r->expires_at); } }
    }
    const auto& cfg = node.config();
    ev::Ev e(what);
    e.s("node", peer_id_to_string(node.id())).i("t", clampms(t)).s("c", ckey).b("ok", accepted)
     .i("exp", manifest_expiry_unix_ms == 0 ? -kClamp : clampms(t + static_cast<long double>(manifest_expiry_unix_ms - wnow_ms)))
     .i("dl", dl).i("sexp", sexp).i("aexp", aexp)
     .i("min", cfg.min_manifest_ttl.count() * 1000).i("max", cfg.max_manifest_ttl.count() * 1000).i("deflt", cfg.default_chunk_ttl.count() * 1000)
     .i("rot", cfg.key_rotation_interval.count() * 1000).i("apow", cfg.announce_pow_difficulty).i("hpow", cfg.handshake_pow_difficulty).i("spow", cfg.store_pow_difficulty)
     .raw("proj", "{\"chunks\":" + ev::jlist(chunks) + ",\"listed\":[],\"cache\":" + ev::jlist(cache) + ",\"shard\":" + ev::jlist(shard) + ",\"loc\":" + ev::jlist(loc) +
                  ",\"pend\":" + ev::jlist(pend) + ",\"plans\":" + ev::jlist(plans) + "}");
    std::scoped_lock lk(g_out_mutex);
    FILE* save = ev::out(); ev::out() = g_out; e.emit(); std::fflush(g_out); ev::out() = save;
}
}
