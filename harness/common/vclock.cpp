#include "common/vclock.hpp"
#include <atomic>
#include <time.h>
static std::atomic<long long> g_ns{0};
static std::atomic<bool> g_real{false};
static std::atomic<long long> g_step{0};
namespace vclock {
void set_ns(long long t) { g_ns.store(t); }
void advance_ns(long long d) { g_ns.fetch_add(d); }
long long now_ns() { return g_ns.load(); }
void use_real(bool on) { g_real.store(on); }
void set_autostep_ns(long long s) { g_step.store(s); }
}
static long long real_ns(clockid_t id) { timespec ts; clock_gettime(id, &ts); return ts.tv_sec * 1'000'000'000LL + ts.tv_nsec; }
namespace std { namespace chrono { inline namespace _V2 {
steady_clock::time_point steady_clock::now() noexcept {
    if (g_real.load(std::memory_order_relaxed)) return time_point(nanoseconds(real_ns(CLOCK_MONOTONIC)));
    return time_point(nanoseconds(vclock::kSteadyEpochNs + (g_step.load(std::memory_order_relaxed) ? g_ns.fetch_add(g_step.load(std::memory_order_relaxed)) : g_ns.load())));
}
system_clock::time_point system_clock::now() noexcept {
    if (g_real.load(std::memory_order_relaxed)) return time_point(nanoseconds(real_ns(CLOCK_REALTIME)));
    return time_point(nanoseconds(vclock::kSystemEpochNs + (g_step.load(std::memory_order_relaxed) ? g_ns.fetch_add(g_step.load(std::memory_order_relaxed)) : g_ns.load())));
}
}}}
