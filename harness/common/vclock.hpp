// Virtual clock: steady_clock and system_clock are interposed (link-time) and driven
// from one atomic, in lock-step.  Units: nanoseconds.
#pragma once
#include <chrono>
#include <cstdint>
namespace vclock {
constexpr long long kSteadyEpochNs = 1'000'000'000'000LL;          // steady = epoch + t
constexpr long long kSystemEpochNs = 1'700'000'000'000'000'000LL;  // system = epoch + t
void set_ns(long long t_ns);      // virtual time since harness epoch
void advance_ns(long long d_ns);
inline void advance_s(long long s) { advance_ns(s * 1'000'000'000LL); }
inline void advance_ms(long long ms) { advance_ns(ms * 1'000'000LL); }
long long now_ns();               // virtual time since harness epoch
inline long long now_s() { return now_ns() / 1'000'000'000LL; }
void set_autostep_ns(long long step_ns);  // every clock read advances virtual time by this much (0 = frozen between explicit advances)
void use_real(bool on);           // fall through to the real clocks (socket-heavy drivers)
inline std::chrono::steady_clock::time_point steady_at_s(long long s) {
    return std::chrono::steady_clock::time_point(std::chrono::nanoseconds(kSteadyEpochNs + s * 1'000'000'000LL));
}
inline long long steady_to_s(std::chrono::steady_clock::time_point tp) {
    // floor division, relative to the harness epoch
    long long ns = std::chrono::duration_cast<std::chrono::nanoseconds>(tp.time_since_epoch()).count() - kSteadyEpochNs;
    long long q = ns / 1'000'000'000LL; if (ns % 1'000'000'000LL < 0) --q; return q;
}
inline long long steady_to_ns(std::chrono::steady_clock::time_point tp) {
    return std::chrono::duration_cast<std::chrono::nanoseconds>(tp.time_since_epoch()).count() - kSteadyEpochNs;
}
inline long long system_to_ns(std::chrono::system_clock::time_point tp) {
    return std::chrono::duration_cast<std::chrono::nanoseconds>(tp.time_since_epoch()).count() - kSystemEpochNs;
}
inline long long system_to_s(std::chrono::system_clock::time_point tp) {
    long long ns = system_to_ns(tp);
    long long q = ns / 1'000'000'000LL; if (ns % 1'000'000'000LL < 0) --q; return q;
}
inline std::chrono::system_clock::time_point system_at_s(long long s) {
    return std::chrono::system_clock::time_point(std::chrono::duration_cast<std::chrono::system_clock::duration>(std::chrono::nanoseconds(kSystemEpochNs + s * 1'000'000'000LL)));
}
}
