// Default (weak) sinks for the guarded probes of /repo (EPH_VERIF_ACCESS, EPH_VERIF_EVENT): harnesses that
// do not use them link these no-ops; harness/conc.cpp and harness/common/livetrace.cpp provide strong ones.
namespace ephemeralnet {
class Node;
}
namespace ephemeralnet::verif {
__attribute__((weak)) void access(const char*, const char*, bool, const void*) {}
__attribute__((weak)) void event(const char*, const Node&, const unsigned char*, long long, bool) {}
}
