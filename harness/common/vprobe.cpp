// Default (weak) sink for the guarded access probes of /repo (EPH_VERIF_ACCESS): harnesses that
// do not analyse accesses link this no-op; harness/conc.cpp provides the strong definition.
namespace ephemeralnet::verif {
__attribute__((weak)) void access(const char*, const char*, bool, const void*) {}
}
