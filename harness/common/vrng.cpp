#include "common/vrng.hpp"
#include <random>
#include <mutex>
#include <deque>
static std::mutex g_m;
static std::uint64_t g_state = 0x9E3779B97F4A7C15ull;
static std::uint64_t g_hstate = 0xD1B54A32D192ED03ull;
static std::deque<unsigned> g_script;
static std::uint64_t step(std::uint64_t& s) { s ^= s << 13; s ^= s >> 7; s ^= s << 17; return s * 0x2545F4914F6CDD1Dull; }
namespace vrng {
void seed(std::uint64_t s) { std::scoped_lock l(g_m); g_state = s ? s : 0x9E3779B97F4A7C15ull; g_script.clear(); }
void script(std::vector<unsigned> v) { std::scoped_lock l(g_m); g_script.assign(v.begin(), v.end()); }
void seed_harness(std::uint64_t s) { g_hstate = s * 0x9E3779B97F4A7C15ull + 0xD1B54A32D192ED03ull; if (!g_hstate) g_hstate = 1; }
std::uint64_t next64() { return step(g_hstate); }
}
namespace std {
random_device::result_type random_device::_M_getval() {
    std::scoped_lock l(g_m);
    if (!g_script.empty()) { unsigned v = g_script.front(); g_script.pop_front(); return v; }
    return static_cast<unsigned>(step(g_state) >> 32);
}
}
