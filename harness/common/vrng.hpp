// Deterministic std::random_device (link-time interposition of _M_getval).
#pragma once
#include <cstdint>
#include <vector>
namespace vrng {
void seed(std::uint64_t s);                 // xorshift stream
void script(std::vector<unsigned> values);  // next values returned verbatim, then the stream resumes
std::uint64_t next64();                     // harness-side generator (independent stream)
void seed_harness(std::uint64_t s);
inline std::uint64_t below(std::uint64_t n) { return n ? next64() % n : 0; }
}
