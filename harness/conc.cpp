// Driver for C36 (daemon threads never race on shared node state).
//   conc <trace-out> <workdir> [iterations] [seed]
// Reproduces the daemon's thread structure of src/main.cpp in-process: a real Node "A" with a real
// ControlServer (control thread takes node_mutex around every Node call), the serve loop's tick thread
// (node_mutex around tick()), A's transport accept thread and one reader thread per session. Remote
// peers are real Nodes B1..Bn in the same process (their own objects are told apart by the probes'
// object pointer). While control requests, inbound handshakes, signed messages and ticks run
// concurrently, every guarded access probe (EPH_VERIF_ACCESS in /repo) records
//     (object, group, site, read/write, thread, set of mutexes the thread holds)
// where the lockset comes from interposed pthread_mutex_lock/trylock/unlock. The deduplicated tuples
// are the trace; spec/ConcurrencyTrace.tla computes the conflicting pairs with disjoint locksets.
// Built with -DVERIF_TSAN (tsan flavour) the probe sink and the interposers are compiled out so that
// they add no synchronisation, and ThreadSanitizer watches the same scenario.
#include "common/ev.hpp"
#include "common/vclock.hpp"
#include "common/vrng.hpp"
#include "ephemeralnet/core/Node.hpp"
#include "ephemeralnet/daemon/ControlPlane.hpp"
#include "ephemeralnet/protocol/Message.hpp"

#include <arpa/inet.h>
#include <netinet/in.h>
#include <pthread.h>
#include <sys/socket.h>
#include <unistd.h>
#include <atomic>
#include <csignal>
#include <filesystem>
#include <set>
#include <thread>
#include <tuple>

using namespace ephemeralnet;
namespace ephemeralnet::test {
class NodeTestAccess {
public:
    static void announce(Node& n, const protocol::AnnouncePayload& p, const PeerId& s, std::uint8_t v) { n.handle_announce(p, s, v); }
    static std::recursive_mutex& mtx(Node& n) { return n.scheduler_mutex_; }
    static std::optional<std::uint64_t> work(Node& n, const PeerId& p) { return n.generate_handshake_work(p); }
};
}
using Acc = ephemeralnet::test::NodeTestAccess;

// ------------------------------------------------------------------------------------------------
#ifndef VERIF_TSAN
static constexpr int kMaxHeld = 16;
static thread_local void* t_held[kMaxHeld];
static thread_local int t_nheld = 0;
static thread_local int t_tid = -1;
static std::atomic<int> g_next_tid{0};
static std::atomic<bool> g_armed{false};
#include <dlfcn.h>
using mtx_fn = int (*)(pthread_mutex_t*);
static mtx_fn real_lock = nullptr, real_trylock = nullptr, real_unlock = nullptr;
static void resolve_real() {
    real_lock = reinterpret_cast<mtx_fn>(dlsym(RTLD_NEXT, "pthread_mutex_lock"));
    real_trylock = reinterpret_cast<mtx_fn>(dlsym(RTLD_NEXT, "pthread_mutex_trylock"));
    real_unlock = reinterpret_cast<mtx_fn>(dlsym(RTLD_NEXT, "pthread_mutex_unlock"));
}
static int __pthread_mutex_lock(pthread_mutex_t* m) { if (!real_lock) resolve_real(); return real_lock(m); }
static int __pthread_mutex_trylock(pthread_mutex_t* m) { if (!real_trylock) resolve_real(); return real_trylock(m); }
static int __pthread_mutex_unlock(pthread_mutex_t* m) { if (!real_unlock) resolve_real(); return real_unlock(m); }
static inline void push_lock(void* m) { if (t_nheld < kMaxHeld) t_held[t_nheld++] = m; }
static inline void pop_lock(void* m) { for (int i = t_nheld - 1; i >= 0; --i) if (t_held[i] == m) { t_held[i] = t_held[--t_nheld]; return; } }
extern "C" int pthread_mutex_lock(pthread_mutex_t* m) { int r = __pthread_mutex_lock(m); if (r == 0) push_lock(m); return r; }
extern "C" int pthread_mutex_trylock(pthread_mutex_t* m) { int r = __pthread_mutex_trylock(m); if (r == 0) push_lock(m); return r; }
extern "C" int pthread_mutex_unlock(pthread_mutex_t* m) { pop_lock(m); return __pthread_mutex_unlock(m); }

struct Tuple { const void* obj; std::string group, site; bool write; int tid; std::vector<void*> locks;
    bool operator<(const Tuple& o) const { return std::tie(obj, group, site, write, tid, locks) < std::tie(o.obj, o.group, o.site, o.write, o.tid, o.locks); } };
static std::set<Tuple> g_tuples;
static std::atomic_flag g_spin = ATOMIC_FLAG_INIT;
static std::atomic<long> g_nprobes{0};
namespace ephemeralnet::verif {
void access(const char* group, const char* site, bool write, const void* object) {
    if (!g_armed.load(std::memory_order_relaxed)) return;
    if (t_tid < 0) t_tid = g_next_tid.fetch_add(1);
    Tuple t{object, group, site, write, t_tid, {}};
    std::set<void*> uniq(t_held, t_held + t_nheld);
    t.locks.assign(uniq.begin(), uniq.end());
    g_nprobes.fetch_add(1, std::memory_order_relaxed);
    while (g_spin.test_and_set(std::memory_order_acquire)) {}
    g_tuples.insert(std::move(t));
    g_spin.clear(std::memory_order_release);
}
}
#else
static std::atomic<bool> g_armed{false};
#endif

// ------------------------------------------------------------------------------------------------
static PeerId pid(long p) { return ev::id32(p, 0xA0); }
static ChunkId cid(long c) { return ev::id32(c, 0xC0); }
static std::uint16_t free_port() {
    int s = ::socket(AF_INET, SOCK_STREAM, 0);
    sockaddr_in ad{}; ad.sin_family = AF_INET; ad.sin_addr.s_addr = htonl(INADDR_LOOPBACK); ad.sin_port = 0;
    ::bind(s, reinterpret_cast<sockaddr*>(&ad), sizeof ad);
    socklen_t l = sizeof ad; getsockname(s, reinterpret_cast<sockaddr*>(&ad), &l); ::close(s);
    return ntohs(ad.sin_port);
}
static Config base_cfg(std::uint32_t seed) {
    Config c{}; c.identity_seed = seed; c.handshake_pow_difficulty = 0; c.announce_pow_difficulty = 0; c.store_pow_difficulty = 0;
    c.relay_enabled = false; c.nat_stun_enabled = false; c.key_rotation_interval = std::chrono::seconds(5);
    c.cleanup_interval = std::chrono::seconds(2); c.handshake_cooldown = std::chrono::seconds(0);
    c.min_manifest_ttl = std::chrono::seconds(2); c.announce_min_interval = std::chrono::seconds(1);
    c.announce_burst_limit = 100000; c.announce_burst_window = std::chrono::seconds(1);
    c.shard_threshold = 2; c.shard_total = 3;
    return c;
}

static Node* g_a = nullptr;
static std::mutex* g_node_mutex = nullptr;
static void dump_tuples(int crashed_signal) {
#ifndef VERIF_TSAN
    Node* a = g_a;
    std::map<void*, std::string> names;
    names[static_cast<void*>(g_node_mutex->native_handle())] = "node_mutex";
    names[static_cast<void*>(Acc::mtx(*a).native_handle())] = "scheduler_mutex";
    std::map<const void*, int> objs;
    int nl = 0;
    { ev::Ev e("reset"); e.i("probes", g_nprobes.load()).i("tuples", static_cast<long long>(g_tuples.size())).i("threads", g_next_tid.load()).i("crashed", crashed_signal); e.emit(); }
    // only the daemon's own objects (members of Node A) are analysed; peers' nodes are load generators
    const char* lo = reinterpret_cast<const char*>(a); const char* hi = lo + sizeof(Node);
    std::set<std::string> site_names;
    for (auto& t : g_tuples) if (reinterpret_cast<const char*>(t.obj) >= lo && reinterpret_cast<const char*>(t.obj) < hi) site_names.insert(t.site);
    std::map<std::string, int> sid; for (auto& n : site_names) sid[n] = static_cast<int>(sid.size()) + 1;
    for (auto& t : g_tuples) {
        if (reinterpret_cast<const char*>(t.obj) < lo || reinterpret_cast<const char*>(t.obj) >= hi) continue;
        if (!objs.count(t.obj)) objs[t.obj] = static_cast<int>(objs.size());
        std::vector<std::string> ls;
        for (auto* l : t.locks) { if (!names.count(l)) names[l] = "L" + std::to_string(++nl); ls.push_back(ev::jstr(names[l])); }
        std::sort(ls.begin(), ls.end());
        ev::Ev e("access"); e.i("obj", objs[t.obj]).s("group", t.group).s("site", t.site).i("sid", sid[t.site]).b("w", t.write).i("tid", t.tid).raw("locks", ev::jlist(ls)); e.emit();
    }
#else
    { ev::Ev e("reset"); e.i("probes", 0).i("crashed", crashed_signal); e.emit(); }
#endif
    std::fflush(ev::out());
}
static void on_crash(int sig) {
    // the scenario itself fell over (a manifestation of the races it provokes): keep what was observed
    static std::atomic<bool> once{false};
    if (once.exchange(true)) _exit(4);
    g_armed.store(false);
    dump_tuples(sig);
    _exit(4);
}

int main(int argc, char** argv) {
    if (argc < 3) return 2;
    const long iters = argc > 3 ? std::atol(argv[3]) : 60;
    vrng::seed_harness(argc > 4 ? std::atoll(argv[4]) : 1);
    std::filesystem::create_directories(argv[2]);
    if (!std::getenv("VERIF_VERBOSE")) std::freopen("/dev/null", "w", stderr);
    std::clog.setstate(std::ios::failbit);
    ev::open(argv[1]);
    vclock::set_ns(0);

    auto a = std::make_unique<Node>(pid(0), base_cfg(0x1000));
    std::mutex node_mutex;
    std::atomic<bool> run{true};
    g_a = a.get(); g_node_mutex = &node_mutex;
    std::signal(SIGSEGV, on_crash); std::signal(SIGABRT, on_crash); std::signal(SIGBUS, on_crash);
    daemon::ControlServer server(*a, node_mutex, [] {});
    std::uint16_t cport = 0;
    for (int i = 0; i < 20; ++i) { cport = free_port(); try { server.start("127.0.0.1", cport); break; } catch (const std::exception&) {} }
    g_armed.store(true);   // armed before start_transport: the listener accepts while refresh_advertised_endpoints still runs
    { std::scoped_lock lk(node_mutex); a->start_transport(0); }
    const auto tport = a->transport_port();

    // serve loop: node_mutex around tick(); virtual time moves 1 s per tick so that cleanup and key rotation run
    std::thread ticker([&] {
        while (run.load()) { { std::scoped_lock lk(node_mutex); a->tick(); } vclock::advance_s(1); usleep(3000); }
    });
    // remote peers: handshake + connect (A's accept thread), then signed messages (A's reader threads)
    const int npeers = 3;
    std::vector<std::thread> peers;
    for (int k = 0; k < npeers; ++k) {
        peers.emplace_back([&, k] {
            for (long it = 0; it < iters && run.load(); ++it) {
                // a fresh peer identity every few iterations: new contexts_/handshake_state_ entries on A
                Node b(pid(10 + k * 1000 + it / 4), base_cfg(0x2000u + k * 77 + static_cast<std::uint32_t>(it / 4)));
                b.start_transport(0);   // so that ~Node tears the outbound session down (stop() is a no-op otherwise)
                auto w = Acc::work(*a, b.id());
                if (!b.perform_handshake(a->id(), a->public_identity(), w.value_or(0))) continue;
                if (!b.connect_peer(a->id(), "127.0.0.1", tport)) continue;
                auto key = b.session_key(a->id());
                if (!key) continue;
                for (int m = 0; m < 4; ++m) {
                    protocol::Message msg{};
                    if (m % 2 == 0) {
                        auto man = b.store_chunk(cid(100 + k), std::vector<std::uint8_t>(40, static_cast<std::uint8_t>(k + it)), std::chrono::seconds(30));
                        protocol::AnnouncePayload ap{}; ap.chunk_id = cid(100 + k); ap.peer_id = b.id(); ap.endpoint = "127.0.0.1:" + std::to_string(tport);
                        ap.ttl = std::chrono::seconds(20); ap.manifest_uri = protocol::encode_manifest(man); ap.assigned_shards = {1};
                        msg.type = protocol::MessageType::Announce; msg.payload = ap;
                    } else {
                        msg.type = protocol::MessageType::Request; msg.payload = protocol::RequestPayload{cid(1), b.id()};
                    }
                    auto bytes = protocol::encode_signed(msg, std::span<const std::uint8_t>(key->data(), key->size()));
                    b.send_secure(a->id(), bytes);
                    usleep(500);
                }
                usleep(2000);
                b.stop_transport();
            }
        });
    }
    // control client: STORE / LIST / STATUS / FETCH(stream) / DIAGNOSTICS
    std::thread ctl([&] {
        daemon::ControlClient client("127.0.0.1", cport);
        std::string manifest;
        for (long it = 0; it < iters * 3 && run.load(); ++it) {
            std::vector<std::uint8_t> payload(64, static_cast<std::uint8_t>(it));
            switch (it % 5) {
                case 0: { auto r = client.send("STORE", {{"TTL", "20"}, {"NAME", "f.bin"}}, payload); if (r && r->fields.count("MANIFEST")) manifest = r->fields["MANIFEST"]; break; }
                case 1: client.send("LIST"); break;
                case 2: client.send("STATUS"); break;
                case 3: if (!manifest.empty()) client.send("FETCH", {{"MANIFEST", manifest}, {"STREAM", "client"}}); break;
                default: client.send("DIAGNOSTICS"); break;
            }
            usleep(1000);
        }
    });
    // what a session reader thread does with an ANNOUNCE that assigns this node a shard, at a higher rate than the loopback sessions
    // above reach: entries of the fetch table come and go (the announcer is unreachable) while the loop thread ticks
    std::thread announcer([&] {
        Node donor(pid(7000), base_cfg(0x7000u));
        for (long it = 0; it < iters * 12 && run.load(); ++it) {
            auto man = donor.store_chunk(cid(3000 + it % 8), std::vector<std::uint8_t>(24, static_cast<std::uint8_t>(it)), std::chrono::seconds(30));
            protocol::AnnouncePayload ap{}; ap.chunk_id = cid(3000 + it % 8); ap.peer_id = pid(7001 + it); ap.endpoint = "127.0.0.1:1";
            ap.ttl = std::chrono::seconds(20); ap.manifest_uri = protocol::encode_manifest(man); ap.assigned_shards = {1};
            Acc::announce(*a, ap, pid(7001 + it), protocol::kCurrentMessageVersion);   // a new peer each time: the per-peer throttle (C21) stays out of the way
            if (it % 16 == 15) usleep(200);
        }
    });
    ctl.join();
    announcer.join();
    for (auto& t : peers) t.join();
    run.store(false);
    ticker.join();
    g_armed.store(false);
    server.stop();
    { std::scoped_lock lk(node_mutex); a->stop_transport(); }

    dump_tuples(0);
    std::fflush(ev::out());
    a.reset();
    _exit(0);
}
