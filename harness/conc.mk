EXTRA_conc := daemon/ControlPlane.o daemon/ControlClient.o daemon/ControlServer.o daemon/StructuredLogger.o
ifeq ($(FLAVOUR),tsan)
CXXFLAGS_conc := -DVERIF_TSAN
endif
LIBS_conc := -ldl
