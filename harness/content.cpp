// Driver for C11 (stored content round-trips; tampered replicas are never accepted).
//   content <script> <trace-out> <workdir>
// Real Nodes (no transport started, virtual clock frozen, deterministic std::random_device):
//   store   Node::store_chunk -> manifest; Node::export_chunk_record -> the bytes held (a "slot" = one honest publication)
//   fetch   Node::fetch_chunk
//   tamper  a corruption (enumerated by the spec side, applied here byte for byte) of a slot's manifest / ciphertext, given to
//             recv    Node::receive_chunk on another node
//             cli     decrypt_chunk_with_manifest of src/main.cpp (the CLI's direct-fetch path; the TU is #included)
//             chunkin Node::ingest_manifest + Node::handle_chunk (a CHUNK message from a peer) on a third node
//   manifest  a (possibly foreign / corrupted) manifest reaches a node: ingest_manifest | handle_announce | request_chunk
//   shardexpire  the key-share record of a chunk times out (re-published with ttl 0 through the real KademliaTable)
// Every event carries the exact manifest fields and bytes handed to the real code, what came back, and a projection of what
// the node holds for that chunk id before and after (record bytes + nonce, cached manifest, key-share record, provider entry,
// swarm plan).  Payloads up to 512 bytes are logged in full (TLC recomputes SHA-256 / Shamir / ChaCha20); larger ones are
// logged as head + tail blocks and compared here (round trip only).
#include "common/ev.hpp"
#include "common/vclock.hpp"
#include "common/vrng.hpp"

#define main eph_cli_main
#include EPH_MAIN_CPP   // anonymous-namespace decrypt_chunk_with_manifest
#undef main

#include <memory>

using namespace ephemeralnet;

namespace ephemeralnet::test {
class NodeTestAccess {
public:
    static auto& store(Node& n) { return n.chunk_store_; }
    static auto& dht(Node& n) { return n.dht_; }
    static auto& cache(Node& n) { return n.manifest_cache_; }
    static auto& plans(Node& n) { return n.swarm_plans_; }
    static std::recursive_mutex& mtx(Node& n) { return n.scheduler_mutex_; }
    static void handle_chunk(Node& n, const protocol::ChunkPayload& p, const PeerId& s) { n.handle_chunk(p, s); }
    static void handle_announce(Node& n, const protocol::AnnouncePayload& p, const PeerId& s, std::uint8_t v) { n.handle_announce(p, s, v); }
};
}
using Acc = ephemeralnet::test::NodeTestAccess;
using Bytes = std::vector<std::uint8_t>;

static constexpr size_t kSmall = 512;

static Bytes payload_bytes(size_t size, unsigned long long pseed) {
    Bytes v(size);
    if (pseed == 0) return v;                       // all zero
    unsigned long long s = pseed * 0x9E3779B97F4A7C15ull + 0x1234567ull;
    for (size_t i = 0; i < size; ++i) { s ^= s << 13; s ^= s >> 7; s ^= s << 17; v[i] = static_cast<std::uint8_t>((s * 0x2545F4914F6CDD1Dull) >> 56); }
    return v;
}
// chunk id from a small label: the first four bytes (the cipher's initial block counter, little endian) take boundary values
static ChunkId cid(long c) {
    ChunkId id{};
    static const std::uint8_t heads[4][4] = {{0, 0, 0, 0}, {0xff, 0xff, 0xff, 0xff}, {0x5a, 0x17, 0xc3, 0x80}, {0xfe, 0xff, 0xff, 0xff}};
    unsigned long long s = static_cast<unsigned long long>(c + 1) * 0xD1B54A32D192ED03ull;
    for (size_t i = 0; i < id.size(); ++i) { s ^= s << 13; s ^= s >> 7; s ^= s << 17; id[i] = static_cast<std::uint8_t>(s >> 24); }
    for (int i = 0; i < 4; ++i) id[i] = heads[c & 3][i];
    if ((c & 3) == 2) id[0] = static_cast<std::uint8_t>(0x5a + c);
    return id;
}
static PeerId pid(long p) { return ev::id32(p, 0xA0); }

static std::string limbs(std::uint64_t h) {
    return "[" + std::to_string((h >> 48) & 0xffff) + "," + std::to_string((h >> 32) & 0xffff) + "," + std::to_string((h >> 16) & 0xffff) + "," + std::to_string(h & 0xffff) + "]";
}
static std::uint64_t fnv(const std::uint8_t* p, size_t n, std::uint64_t h = 1469598103934665603ull) {
    for (size_t i = 0; i < n; ++i) { h ^= p[i]; h *= 1099511628211ull; }
    return h;
}
template <class C> static std::string jbytes(const C& c) {
    std::string a = "[";
    bool f = true;
    for (auto b : c) { if (!f) a += ","; f = false; a += std::to_string(static_cast<unsigned>(static_cast<std::uint8_t>(b))); }
    return a + "]";
}
static std::string jmanifest(const protocol::Manifest& m) {
    std::string sh = "[";
    for (size_t i = 0; i < m.shards.size(); ++i) { if (i) sh += ","; sh += "[" + std::to_string(m.shards[i].index) + "," + jbytes(m.shards[i].value) + "]"; }
    sh += "]";
    return "{\"id\":" + jbytes(m.chunk_id) + ",\"hash\":" + jbytes(m.chunk_hash) + ",\"nonce\":" + jbytes(m.nonce.bytes) + ",\"t\":" + std::to_string(m.threshold) +
           ",\"n\":" + std::to_string(m.total_shares) + ",\"shards\":" + sh + "}";
}
static bool same_content_fields(const protocol::Manifest& a, const protocol::Manifest& b) {
    if (a.chunk_id != b.chunk_id || a.chunk_hash != b.chunk_hash || a.nonce.bytes != b.nonce.bytes || a.threshold != b.threshold || a.shards.size() != b.shards.size()) return false;
    for (size_t i = 0; i < a.shards.size(); ++i) if (a.shards[i].index != b.shards[i].index || a.shards[i].value != b.shards[i].value) return false;
    return true;
}

struct Slot { long c = 0; ChunkId id{}; Bytes payload; protocol::Manifest manifest; Bytes ct; bool have_rec = false; };

struct Driver {
    std::map<long, std::unique_ptr<Node>> nodes;
    std::map<long, Slot> slots;
    long announce_seq = 0;
    long src = 0;

    Node& node(long k) {
        auto it = nodes.find(k);
        if (it == nodes.end()) { std::fprintf(stderr, "content: unknown node %ld\n", k); std::exit(2); }
        return *it->second;
    }

    // what node k holds for chunk id (everything an accepted replica would touch)
    std::string proj(long k, const ChunkId& id, bool with_bytes) {
        Node& n = node(k);
        std::unique_lock<std::recursive_mutex> lk(Acc::mtx(n));
        std::string s = "{";
        bool held = false;
        for (auto& r : Acc::store(n).snapshot()) {
            if (r.id != id) continue;
            held = true;
            auto rec = Acc::store(n).get_record(id);   // bytes (expired records are not returned; nothing expires in this driver)
            Bytes data = rec ? rec->data : Bytes{};
            std::array<std::uint8_t, 12> nonce = rec ? rec->nonce : std::array<std::uint8_t, 12>{};
            std::uint64_t h = fnv(data.data(), data.size());
            h = fnv(nonce.data(), nonce.size(), h);
            s += "\"held\":1,\"hfp\":" + limbs(h) + ",\"hlen\":" + std::to_string(data.size()) + ",\"henc\":" + std::to_string(rec && rec->encrypted ? 1 : 0) + ",\"hnonce\":" + jbytes(nonce);
            if (with_bytes && data.size() <= kSmall + 1) s += ",\"hct\":" + jbytes(data);
        }
        if (!held) s += "\"held\":0,\"hfp\":[0,0,0,0],\"hlen\":0";
        auto it = Acc::cache(n).find(chunk_id_to_string(id));
        if (it != Acc::cache(n).end()) {
            auto enc = protocol::encode_manifest(it->second);
            s += ",\"cache\":1,\"cfp\":" + limbs(fnv(reinterpret_cast<const std::uint8_t*>(enc.data()), enc.size())) + ",\"chash\":" + jbytes(it->second.chunk_hash);
        } else s += ",\"cache\":0,\"cfp\":[0,0,0,0]";
        if (auto r = Acc::dht(n).shard_record(id)) {
            std::uint64_t h = fnv(&r->threshold, 1);
            for (auto& sh : r->shards) { h = fnv(&sh.index, 1, h); h = fnv(sh.value.data(), sh.value.size(), h); }
            s += ",\"shard\":1,\"sfp\":" + limbs(h);
        } else s += ",\"shard\":0,\"sfp\":[0,0,0,0]";
        bool prov = false;
        for (auto& l : Acc::dht(n).snapshot_locators()) if (l.id == id) for (auto& hd : l.holders) if (hd.id == n.id()) prov = true;
        s += ",\"prov\":" + std::to_string(prov ? 1 : 0);
        s += ",\"plan\":" + std::to_string(Acc::plans(n).count(chunk_id_to_string(id)) ? 1 : 0);
        return s + "}";
    }

    // returned bytes: in full when small, else length + which slot's payload they equal
    void put_out(ev::Ev& e, const char* prefix, const std::optional<ChunkData>& d) {
        std::string p(prefix);
        e.i((p + "hit").c_str(), d ? 1 : 0);
        if (!d) return;
        e.i((p + "len").c_str(), static_cast<long long>(d->size()));
        if (d->size() <= kSmall + 1) e.raw((p + "out").c_str(), jbytes(*d));
        long eq = -1;
        for (auto& [s, sl] : slots) if (sl.payload == *d) { eq = s; break; }
        e.i((p + "eqslot").c_str(), eq);
    }

    // ---- corruption operators (enumerated by spec/Content.tla + checks/content.py; applied byte for byte here) -----------------
    static void flip(Bytes& b, size_t pos, unsigned bit) { if (pos < b.size()) b[pos] ^= static_cast<std::uint8_t>(1u << (bit & 7)); }
    bool apply_one(const std::string& k, protocol::Manifest& m, Bytes& ct, const Slot* y) {
        auto num = [&](const std::string& s, size_t from) { return std::strtoul(s.c_str() + from, nullptr, 10); };
        auto bitof = [&](const std::string& s) { auto p = s.find(':'); return p == std::string::npos ? 0u : static_cast<unsigned>(std::strtoul(s.c_str() + p + 1, nullptr, 10)); };
        if (k == "none") return true;
        if (k == "flipfirst") { flip(ct, 0, 6); return true; }
        if (k == "flipmid") { flip(ct, ct.size() / 2, 0); return true; }
        if (k == "fliplast") { if (!ct.empty()) flip(ct, ct.size() - 1, 7); return true; }
        if (k.rfind("flip@", 0) == 0) { flip(ct, num(k, 5), bitof(k)); return true; }
        if (k == "trunc") { if (!ct.empty()) ct.pop_back(); return true; }
        if (k == "extend") { ct.push_back(0x11); return true; }
        if (k == "swapnonce") { if (y) m.nonce = y->manifest.nonce; else m.nonce.bytes[0] ^= 1; return true; }
        if (k.rfind("nonce@", 0) == 0) { size_t i = num(k, 6); if (i < m.nonce.bytes.size()) m.nonce.bytes[i] ^= static_cast<std::uint8_t>(1u << (bitof(k) & 7)); return true; }
        if (k == "althash") { m.chunk_hash[0] ^= 1; return true; }
        if (k.rfind("hash@", 0) == 0) { size_t i = num(k, 5); if (i < m.chunk_hash.size()) m.chunk_hash[i] ^= static_cast<std::uint8_t>(1u << (bitof(k) & 7)); return true; }
        if (k == "shardfirst") { if (!m.shards.empty()) m.shards.front().value[0] ^= 1; return true; }
        if (k == "shardlast") { if (!m.shards.empty()) m.shards.back().value[31] ^= 0x80; return true; }
        if (k == "shardidx") { if (!m.shards.empty()) m.shards.front().index = 200; return true; }
        if (k.rfind("shard@", 0) == 0) {   // shard@<j>.<byte>:<bit>   byte 0 = index, 1..32 = value
            size_t j = num(k, 6); auto dot = k.find('.'); size_t byte = dot == std::string::npos ? 1 : num(k, dot + 1);
            if (j < m.shards.size()) { if (byte == 0) m.shards[j].index ^= static_cast<std::uint8_t>(1u << (bitof(k) & 7)); else if (byte <= 32) m.shards[j].value[byte - 1] ^= static_cast<std::uint8_t>(1u << (bitof(k) & 7)); }
            return true;
        }
        if (k == "thrminus") { if (m.threshold > 0) --m.threshold; return true; }
        if (k == "thrplus") { ++m.threshold; return true; }
        if (k == "dropshard") { if (!m.shards.empty()) m.shards.pop_back(); return true; }
        if (k == "swapshards") { if (m.shards.size() >= 2) std::swap(m.shards[0], m.shards[1]); return true; }
        if (k == "altid0") { m.chunk_id[0] ^= 1; return true; }
        if (k == "altid31") { m.chunk_id[31] ^= 1; return true; }
        if (k == "foreignmanifest") { if (y) m = y->manifest; return true; }
        if (k == "foreignct") { if (y) ct = y->ct; return true; }
        return false;
    }
    void corrupt(const std::string& spec, protocol::Manifest& m, Bytes& ct, const Slot* y) {
        std::istringstream ss(spec);
        std::string k;
        while (std::getline(ss, k, '+')) if (!apply_one(k, m, ct, y)) { std::fprintf(stderr, "content: unknown corruption %s\n", k.c_str()); std::exit(2); }
    }

    void run(const ev::Cmd& c) {
        const std::string& op = c.op;
        if (op == "reset") {
            nodes.clear(); slots.clear(); announce_seq = 0;
            vclock::set_ns(0);
            vrng::seed(static_cast<std::uint64_t>(c.i("rseed", 7)));
            ev::Ev e("reset"); e.i("src", src).i("rseed", c.i("rseed", 7)); e.emit();
        } else if (op == "node") {
            long k = c.i("i");
            Config cfg{};
            cfg.identity_seed = static_cast<std::uint32_t>(0x1000 + k);
            cfg.announce_pow_difficulty = 0; cfg.handshake_pow_difficulty = 0; cfg.store_pow_difficulty = 0;
            cfg.relay_enabled = false; cfg.nat_stun_enabled = false;
            cfg.announce_min_interval = std::chrono::seconds(1); cfg.announce_burst_limit = 1000000; cfg.announce_burst_window = std::chrono::seconds(1);
            cfg.min_manifest_ttl = std::chrono::seconds(30); cfg.max_manifest_ttl = std::chrono::hours(24); cfg.default_chunk_ttl = std::chrono::hours(1);
            cfg.shard_threshold = static_cast<std::uint8_t>(c.i("t", 3));
            cfg.shard_total = static_cast<std::uint8_t>(c.i("n", 5));
            nodes[k] = std::make_unique<Node>(pid(100 + k), cfg);
            ev::Ev e("node"); e.i("src", src).i("node", k).i("t", c.i("t", 3)).i("n", c.i("n", 5)); e.emit();
        } else if (op == "adv") {
            vclock::advance_ms(c.i("ms"));
            ev::Ev e("adv"); e.i("src", src).i("ms", c.i("ms")); e.emit();
        } else if (op == "store") {
            long k = c.i("node"), s = c.i("slot"), cl = c.i("c");
            size_t size = static_cast<size_t>(c.i("size"));
            Slot sl; sl.c = cl; sl.id = cid(cl); sl.payload = payload_bytes(size, static_cast<unsigned long long>(c.i("pseed", 1)));
            if (c.has("key")) {
                // the next std::random_device values: 32 key bytes, then the seed of the nonce generator (order of draws in
                // store_chunk today; if it changes the run is merely less contrived -- the trace spec recomputes from what is logged)
                std::vector<unsigned> v;
                unsigned long long x = static_cast<unsigned long long>(c.i("key")) * 0x9E3779B97F4A7C15ull + 77;
                for (int i = 0; i < 32; ++i) { x ^= x << 13; x ^= x >> 7; x ^= x << 17; v.push_back(static_cast<unsigned>(x >> 20)); }
                v.push_back(static_cast<unsigned>(c.i("nseed", 0) * 2654435761u + 12345u));
                vrng::script(v);
            }
            bool threw = false; std::string what;
            try { sl.manifest = node(k).store_chunk(sl.id, sl.payload, std::chrono::seconds(c.i("ttl", 3600))); }
            catch (const std::exception& ex) { threw = true; what = ex.what(); }
            vrng::script({});
            std::optional<ChunkRecord> rec;
            if (!threw) rec = node(k).export_chunk_record(sl.id);
            sl.have_rec = rec.has_value();
            if (rec) sl.ct = rec->data;
            const bool small = size <= kSmall;
            ev::Ev e("store");
            e.i("src", src).i("node", k).i("slot", s).i("c", cl).raw("id", jbytes(sl.id)).i("plen", static_cast<long long>(size)).i("small", small ? 1 : 0)
             .i("ttl", c.i("ttl", 3600)).i("threw", threw ? 1 : 0).raw("m", jmanifest(sl.manifest))
             .i("rec", rec ? 1 : 0).i("renc", rec && rec->encrypted ? 1 : 0).i("rlen", rec ? static_cast<long long>(rec->data.size()) : -1);
            if (rec) e.raw("rnonce", jbytes(rec->nonce));
            if (small) { e.raw("p", jbytes(sl.payload)); if (rec && rec->data.size() <= kSmall + 1) e.raw("ct", jbytes(rec->data)); }
            else {
                // head: first two cipher blocks; tail: from the start of the last-but-one block to the end
                size_t head = 128, tb = ((size - 1) / 64) - 1;
                e.raw("p_head", jbytes(Bytes(sl.payload.begin(), sl.payload.begin() + head)));
                e.i("tail_blk", static_cast<long long>(tb));
                e.raw("p_tail", jbytes(Bytes(sl.payload.begin() + tb * 64, sl.payload.end())));
                if (rec && rec->data.size() == size) {
                    e.raw("ct_head", jbytes(Bytes(rec->data.begin(), rec->data.begin() + head)));
                    e.raw("ct_tail", jbytes(Bytes(rec->data.begin() + tb * 64, rec->data.end())));
                }
                if (c.i("full", 0)) { e.raw("p", jbytes(sl.payload)); if (rec) e.raw("ct", jbytes(rec->data)); }     // thorough tier: TLC hashes / re-encrypts the whole payload
            }
            e.raw("post", proj(k, sl.id, false));
            e.emit();
            slots[s] = std::move(sl);
        } else if (op == "fetch") {
            long k = c.i("node"), cl = c.i("c");
            ChunkId id = cid(cl);
            if (c.has("slot")) id = slots.at(c.i("slot")).manifest.chunk_id;
            std::optional<ChunkData> d; bool threw = false;
            try { d = node(k).fetch_chunk(id); } catch (const std::exception&) { threw = true; }
            ev::Ev e("fetch"); e.i("src", src).i("node", k).i("c", cl).raw("id", jbytes(id)).i("threw", threw ? 1 : 0);
            put_out(e, "", d);
            e.raw("post", proj(k, id, false));
            e.emit();
        } else if (op == "tamper") {
            long s = c.i("slot");
            const Slot& x = slots.at(s);
            const Slot* y = c.has("y") ? &slots.at(c.i("y")) : nullptr;
            protocol::Manifest m = x.manifest; Bytes ct = x.ct;
            const std::string spec = c.s("corrupt", "none");
            corrupt(spec, m, ct, y);
            const bool pristine = same_content_fields(m, x.manifest) && ct == x.ct;
            const bool small = x.payload.size() <= kSmall && ct.size() <= kSmall + 1;
            m.discovery_hints.clear(); m.fallback_hints.clear();
            const std::string uri = protocol::encode_manifest(m);
            ev::Ev e("tamper");
            e.i("src", src).i("slot", s).s("corrupt", spec).i("y", c.has("y") ? c.i("y") : -1).i("pristine", pristine ? 1 : 0).i("small", small ? 1 : 0)
             .raw("m", jmanifest(m)).i("ctlen", static_cast<long long>(ct.size()));
            if (small) e.raw("ct", jbytes(ct));
            if (c.has("recv")) {
                long k = c.i("recv");
                std::string pre = proj(k, m.chunk_id, false);
                std::optional<ChunkData> r; bool threw = false;
                try { r = node(k).receive_chunk(uri, ct); } catch (const std::exception&) { threw = true; }
                e.i("r_node", k).i("r_threw", threw ? 1 : 0);
                put_out(e, "r_", r);
                e.raw("r_pre", pre).raw("r_post", proj(k, m.chunk_id, small));
            }
            if (c.has("cli")) {
                protocol::ChunkPayload cp{}; cp.chunk_id = m.chunk_id; cp.data = ct; cp.ttl = std::chrono::seconds(60);
                std::optional<ChunkData> r; bool threw = false;
                try { r = decrypt_chunk_with_manifest(m, cp); } catch (const std::exception&) { threw = true; }
                e.i("c_threw", threw ? 1 : 0);
                put_out(e, "c_", r);
            }
            if (c.has("chunkin")) {
                long k = c.i("chunkin");
                Node& n = node(k);
                bool ing = false;
                try { ing = n.ingest_manifest(uri); } catch (const std::exception&) {}
                // the manifest the node will use for an arriving CHUNK is the one it has cached
                bool hasm = false, same_m = false; std::string mused;
                {
                    std::unique_lock<std::recursive_mutex> lk(Acc::mtx(n));
                    auto it = Acc::cache(n).find(chunk_id_to_string(m.chunk_id));
                    if (it != Acc::cache(n).end()) { hasm = true; same_m = same_content_fields(it->second, m); if (!same_m) mused = jmanifest(it->second); }
                }
                const PeerId sender = pid(900);
                crypto::Key secret{}; for (size_t i = 0; i < secret.bytes.size(); ++i) secret.bytes[i] = static_cast<std::uint8_t>(i * 3 + 1);
                n.register_shared_secret(sender, secret);
                std::string pre = proj(k, m.chunk_id, false);
                protocol::ChunkPayload cp{}; cp.chunk_id = m.chunk_id; cp.data = ct; cp.ttl = std::chrono::seconds(60);
                bool threw = false;
                try { Acc::handle_chunk(n, cp, sender); } catch (const std::exception&) { threw = true; }
                e.i("k_node", k).i("k_ingested", ing ? 1 : 0).i("k_hasm", hasm ? 1 : 0).i("k_same_m", same_m ? 1 : 0).i("k_threw", threw ? 1 : 0);
                if (hasm && !same_m) e.raw("k_mused", mused);
                e.raw("k_pre", pre).raw("k_post", proj(k, m.chunk_id, small));
            }
            e.emit();
        } else if (op == "manifest") {
            long k = c.i("node"), s = c.i("slot");
            const Slot& x = slots.at(s);
            const Slot* y = c.has("y") ? &slots.at(c.i("y")) : nullptr;
            protocol::Manifest m = x.manifest; Bytes ct = x.ct;
            const std::string spec = c.s("corrupt", "none");
            corrupt(spec, m, ct, y);
            m.discovery_hints.clear(); m.fallback_hints.clear();
            const std::string uri = protocol::encode_manifest(m);
            const std::string via = c.s("via", "ingest");
            Node& n = node(k);
            std::string pre = proj(k, m.chunk_id, false);
            int ok = -1; bool threw = false;
            try {
                if (via == "ingest") ok = n.ingest_manifest(uri) ? 1 : 0;
                else if (via == "request") ok = n.request_chunk(pid(700), "", 0, uri) ? 1 : 0;   // cannot connect: only the manifest part happens
                else {
                    protocol::AnnouncePayload ap{};
                    const PeerId sender = pid(500 + (announce_seq++));
                    ap.chunk_id = m.chunk_id; ap.peer_id = sender; ap.endpoint = "127.0.0.1:" + std::to_string(2000 + announce_seq);
                    ap.ttl = std::chrono::seconds(0); ap.manifest_uri = uri;
                    Acc::handle_announce(n, ap, sender, protocol::kCurrentMessageVersion);
                }
            } catch (const std::exception&) { threw = true; }
            ev::Ev e("manifest");
            e.i("src", src).i("node", k).s("via", via).i("slot", s).s("corrupt", spec).i("y", c.has("y") ? c.i("y") : -1).raw("m", jmanifest(m)).i("ok", ok).i("threw", threw ? 1 : 0)
             .raw("pre", pre).raw("post", proj(k, m.chunk_id, false));
            e.emit();
        } else if (op == "shardexpire") {
            long k = c.i("node"), cl = c.i("c");
            Node& n = node(k);
            bool had = false;
            {
                std::unique_lock<std::recursive_mutex> lk(Acc::mtx(n));
                if (auto r = Acc::dht(n).shard_record(cid(cl))) { had = true; Acc::dht(n).publish_shards(cid(cl), r->shards, r->threshold, r->total_shares, std::chrono::seconds(0)); }
            }
            ev::Ev e("shardexpire"); e.i("src", src).i("node", k).i("c", cl).raw("id", jbytes(cid(cl))).i("had", had ? 1 : 0).raw("post", proj(k, cid(cl), false)); e.emit();
        } else {
            std::fprintf(stderr, "content: unknown op %s\n", op.c_str()); std::exit(2);
        }
    }
};

int main(int argc, char** argv) {
    if (argc < 4) { std::fprintf(stderr, "usage: content <script> <trace> <workdir>\n"); return 2; }
    std::filesystem::create_directories(argv[3]);
    std::filesystem::current_path(argv[3]);
    if (!std::getenv("VERIF_VERBOSE")) { std::freopen("/dev/null", "w", stderr); }
    ev::open(argv[2]);
    std::set_terminate([] {
        std::string what = "unknown";
        if (auto ep = std::current_exception()) { try { std::rethrow_exception(ep); } catch (const std::exception& e) { what = e.what(); } catch (...) {} }
        ev::Ev e("terminated"); e.s("what", what); e.emit();
        std::fflush(ev::out());
        _exit(3);
    });
    std::ifstream in(argv[1]);
    if (!in) { std::perror(argv[1]); return 2; }
    Driver d;
    ev::Cmd c;
    // script lines are counted as the file has them (comments and blank lines included) so that src = line number
    std::string line;
    long lineno = 0;
    while (std::getline(in, line)) {
        ++lineno;
        if (line.empty() || line[0] == '#') continue;
        std::istringstream one(line);
        if (!ev::read_cmd(one, c)) continue;
        d.src = lineno;
        d.run(c);
    }
    std::fflush(ev::out());
    _exit(0);
}
