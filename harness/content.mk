# C11 driver: includes $(REPO)/src/main.cpp (main renamed) for the CLI's decrypt_chunk_with_manifest
EXTRA_content := daemon/ControlPlane.o daemon/ControlClient.o daemon/ControlServer.o daemon/StructuredLogger.o
CXXFLAGS_content := -O0 -DEPH_MAIN_CPP='"$(REPO)/src/main.cpp"'
