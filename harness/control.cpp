// Driver for the control plane (C27, C28, C29): a REAL Node + REAL daemon::ControlServer in this
// process, listening on a free loopback port, under the virtual clock (the rate-limit windows
// read steady_clock; socket time-outs are kernel time).  Two clients talk to it:
//   * a raw-socket client (adversarial requests: token variants, any header order, declared
//     lengths around the cap with the body withheld, TTL texts, store-PoW variants, any source
//     address 127.0.0.<n>, any unauthenticated TOKEN header)            -> events "req"
//   * the REAL daemon::ControlClient (+ the real print_list_response of src/main.cpp)  -> "cresp"
// After every step the observable projection of the daemon is logged: stored chunk ids
// (Node::stored_chunks), registered manifests (manifest_cache_), files in the daemon-side output
// directory, the number of stop call-backs, and whether a following PING is answered.
//   control <script> <trace-out> <workdir>
#include "common/ev.hpp"
#include "common/vclock.hpp"
#include "common/vrng.hpp"

#define main eph_cli_main
#include "main.cpp"   // anonymous-namespace print_list_response (the code behind `eph list`)
#undef main

#include <poll.h>
#include <dirent.h>

namespace ephemeralnet::test {
class NodeTestAccess {
public:
    static std::vector<std::string> manifest_keys(const Node& n) {
        std::scoped_lock lk(n.scheduler_mutex_);
        std::vector<std::string> k;
        for (const auto& [key, m] : n.manifest_cache_) k.push_back(key);
        return k;
    }
};
}  // namespace ephemeralnet::test

namespace hv {
using namespace ephemeralnet;
namespace fs = std::filesystem;

std::string kToken = "S3cret-Tok3n";   // reset toklen=N replaces it by a token of N characters

// values the framing checks inject into daemon-side strings (index = script argument)
const std::vector<std::string> kValues = {"", "x", "a\nb", "a\n", "k:v", "\n", "a\\nb", "\\", "x\ry", " x", "x ", "a\nCODE:EVIL",
                                          "p q", "C:\\dir\\new", "a\n\nb", "tail\\", "/var/lib/eph",
                                          "\tboth \t", " ", "a\n b ", " /srv/eph store/", "key : value "};   // blanks at the edges are part of the value

std::string vis(const std::string& s) {  // visible, injective encoding (TLC only compares)
    std::string r;
    for (unsigned char c : s) {
        if (c == '\n') r += "\\n"; else if (c == '\r') r += "\\r"; else if (c == '\\') r += "\\\\";
        else if (c < 0x20 || c >= 0x7f) { char b[8]; std::snprintf(b, sizeof b, "\\x%02x", c); r += b; }
        else r += static_cast<char>(c);
    }
    return r;
}

std::vector<std::uint8_t> payload_bytes(long c, long sz) {
    std::vector<std::uint8_t> v(static_cast<size_t>(sz));
    for (size_t i = 0; i < v.size(); ++i) v[i] = static_cast<std::uint8_t>((c * 37 + static_cast<long>(i) * 11 + sz * 3 + (i % 7 == 3 ? 10 : 0)) & 0xff);
    if (!v.empty()) v[0] = static_cast<std::uint8_t>(c & 0xff);
    return v;
}
long label_of(long c, long sz) { return c * 10000 + sz; }
long default_sz(long c) { return 16 + (c % 23); }

struct Daemon {
    Config cfg;
    std::unique_ptr<Node> node;
    std::mutex node_mutex;
    std::unique_ptr<daemon::ControlServer> server;
    std::atomic<int> stops{0};
    std::uint16_t port{0};
    bool tokcfg{false};
    long cap{0};
    int powbits{0};
};
std::unique_ptr<Daemon> g_d;
std::unique_ptr<Node> g_helper;                 // a second node: source of manifests of chunks the daemon does not hold
std::map<std::string, long> g_label;            // chunk id (hex) -> label
std::map<long, std::string> g_manifest;         // label -> manifest the daemon last issued for it
std::map<long, std::string> g_foreign;          // label -> manifest issued by the helper node
std::string g_work, g_outdir;
long g_outseq = 0;

PeerId peer(std::uint8_t tag) { PeerId p{}; p[0] = tag; p[31] = 0x5a; return p; }

std::uint16_t free_port() {
    int s = ::socket(AF_INET, SOCK_STREAM, 0);
    sockaddr_in a{}; a.sin_family = AF_INET; a.sin_addr.s_addr = htonl(INADDR_LOOPBACK); a.sin_port = 0;
    if (::bind(s, reinterpret_cast<sockaddr*>(&a), sizeof a) != 0) { std::perror("bind"); std::exit(2); }
    socklen_t l = sizeof a; ::getsockname(s, reinterpret_cast<sockaddr*>(&a), &l);
    ::close(s);
    return ntohs(a.sin_port);
}

Config base_config() {
    Config c;
    c.relay_enabled = false; c.nat_stun_enabled = false; c.storage_persistent_enabled = false;
    c.advertise_auto_mode = Config::AdvertiseAutoMode::Off;
    c.identity_seed = 7;
    return c;
}

void stop_daemon() {
    if (!g_d) return;
    if (g_d->server) g_d->server->stop();
    g_d->server.reset();
    g_d->node.reset();
    g_d.reset();
}

void start_daemon(const ev::Cmd& c) {
    stop_daemon();
    vclock::set_ns(0);
    g_label.clear(); g_manifest.clear(); g_foreign.clear();
    std::error_code ec; fs::remove_all(g_outdir, ec); fs::create_directories(g_outdir);
    g_outseq = 0;
    g_d = std::make_unique<Daemon>();
    Config cfg = base_config();
    g_d->tokcfg = c.i("token", 0) != 0;
    kToken = "S3cret-Tok3n";
    if (c.i("toklen", 0) > 0) { kToken.clear(); for (long i = 0; i < c.i("toklen"); ++i) kToken.push_back(static_cast<char>('A' + (i * 7 + i / 26) % 26 + ((i % 3) ? 32 : 0))); }
    if (g_d->tokcfg) cfg.control_token = kToken;
    cfg.store_pow_difficulty = static_cast<std::uint8_t>(c.i("pow", 0));
    cfg.control_stream_max_bytes = static_cast<std::size_t>(c.i("cap", 64));
    cfg.min_manifest_ttl = std::chrono::seconds(c.i("minttl", 30));
    cfg.max_manifest_ttl = std::chrono::seconds(c.i("maxttl", 3600));
    cfg.default_chunk_ttl = std::chrono::seconds(c.i("defttl", 600));
    g_d->node = std::make_unique<Node>(peer(1), cfg);
    g_d->cfg = g_d->node->config();
    g_d->cap = static_cast<long>(g_d->cfg.control_stream_max_bytes);
    g_d->powbits = g_d->cfg.store_pow_difficulty;
    Daemon* d = g_d.get();
    g_d->server = std::make_unique<daemon::ControlServer>(*g_d->node, g_d->node_mutex, [d]() { d->stops.fetch_add(1); });
    for (int attempt = 0;; ++attempt) {
        g_d->port = free_port();
        try { g_d->server->start("127.0.0.1", g_d->port); break; }
        catch (const std::exception& ex) { if (attempt > 20) { std::fprintf(stderr, "cannot start control server: %s\n", ex.what()); std::exit(2); } }
    }
    // the helper node shares the TTL window so that its manifests are admissible
    Config hc = base_config(); hc.identity_seed = 9;
    hc.min_manifest_ttl = cfg.min_manifest_ttl; hc.max_manifest_ttl = cfg.max_manifest_ttl; hc.default_chunk_ttl = cfg.default_chunk_ttl;
    g_helper = std::make_unique<Node>(peer(2), hc);
}

// ---------------------------------------------------------------------------------------
// raw client
struct RawResp { bool any{false}; bool early{false}; std::string raw, status, code; };

int connect_from(int src) {
    int s = ::socket(AF_INET, SOCK_STREAM, 0);
    if (s < 0) { std::perror("socket"); std::exit(2); }
    sockaddr_in me{}; me.sin_family = AF_INET; me.sin_port = 0;
    me.sin_addr.s_addr = htonl(0x7f000000u | static_cast<unsigned>(src));
    if (::bind(s, reinterpret_cast<sockaddr*>(&me), sizeof me) != 0) { std::perror("bind src"); std::exit(2); }
    sockaddr_in a{}; a.sin_family = AF_INET; a.sin_addr.s_addr = htonl(INADDR_LOOPBACK); a.sin_port = htons(g_d->port);
    if (::connect(s, reinterpret_cast<sockaddr*>(&a), sizeof a) != 0) { ::close(s); return -1; }
    return s;
}
bool wait_readable(int s, int ms) { pollfd p{s, POLLIN, 0}; return ::poll(&p, 1, ms) > 0; }
void send_str(int s, const std::string& d) { size_t o = 0; while (o < d.size()) { ssize_t n = ::send(s, d.data() + o, d.size() - o, MSG_NOSIGNAL); if (n <= 0) return; o += static_cast<size_t>(n); } }
void read_all(int s, std::string& out, int ms) {
    char buf[4096];
    while (wait_readable(s, ms)) { ssize_t n = ::recv(s, buf, sizeof buf, 0); if (n <= 0) break; out.append(buf, static_cast<size_t>(n)); }
}
void parse_raw(RawResp& r) {
    r.any = !r.raw.empty();
    std::istringstream ss(r.raw); std::string line;
    while (std::getline(ss, line)) {
        if (line.rfind("STATUS:", 0) == 0 && r.status.empty()) r.status = line.substr(7);
        if (line.rfind("CODE:", 0) == 0 && r.code.empty()) r.code = line.substr(5);
    }
    if (r.status.empty()) r.status = "NONE";
}
// headers + blank line; body sent at once unless withheld (then only if the daemon stays silent)
RawResp raw_request(int src, const std::vector<std::pair<std::string, std::string>>& headers, const std::vector<std::uint8_t>& body,
                    bool withhold, bool send_body_late, int silence_ms = 100) {
    RawResp r;
    int s = connect_from(src);
    if (s < 0) { r.status = "NONE"; return r; }
    std::string h;
    for (const auto& [k, v] : headers) h += k + ":" + v + "\n";
    h += "\n";
    std::string bodystr(body.begin(), body.end());
    if (!withhold) {
        send_str(s, h + bodystr);
    } else {
        send_str(s, h);
        if (wait_readable(s, silence_ms)) r.early = true;
        else if (send_body_late) send_str(s, bodystr);
        else ::shutdown(s, SHUT_WR);
    }
    read_all(s, r.raw, 30000);   // the daemon closes the connection after its answer; the long limit only matters on an overloaded machine
    ::close(s);
    parse_raw(r);
    return r;
}
bool ping_ok() {
    if (!g_d || !g_d->server) return false;
    RawResp r = raw_request(1, {{"COMMAND", "PING"}}, {}, false, false);
    return r.status == "OK";
}

// ---------------------------------------------------------------------------------------
// projection of the daemon's observable state
long label_for_key(const std::string& key) { auto it = g_label.find(key); return it == g_label.end() ? -1 : it->second; }
void note_label(const std::vector<std::uint8_t>& data, long label) {
    g_label[chunk_id_to_string(security::derive_chunk_id(std::span<const std::uint8_t>(data.data(), data.size())))] = label;
}
std::vector<long long> sorted(std::vector<long long> v) { std::sort(v.begin(), v.end()); return v; }
std::vector<long long> live_labels() {
    std::vector<long long> v;
    std::scoped_lock lk(g_d->node_mutex);
    for (const auto& e : g_d->node->stored_chunks()) v.push_back(label_for_key(chunk_id_to_string(e.id)));
    return sorted(v);
}
void projection(ev::Ev& e) {
    e.ints("ids", live_labels());
    std::vector<long long> reg;
    { std::scoped_lock lk(g_d->node_mutex); for (const auto& k : test::NodeTestAccess::manifest_keys(*g_d->node)) reg.push_back(label_for_key(k)); }
    e.ints("reg", sorted(reg));
    std::vector<long long> files;
    std::error_code ec;
    for (fs::recursive_directory_iterator it(g_outdir, ec), end; !ec && it != end; it.increment(ec)) {
        if (!it->is_regular_file()) continue;
        const auto name = it->path().filename().string();   // out<n>.bin
        files.push_back(name.size() > 3 && name.rfind("out", 0) == 0 ? std::atol(name.c_str() + 3) : -1);
    }
    e.ints("files", sorted(files));
    e.i("stops", g_d->stops.load());
    e.i("srv", g_d->server && g_d->server->running() ? 1 : 0);
    e.i("ping", ping_ok() ? 1 : 0);
}

// ---------------------------------------------------------------------------------------
std::string token_variant(const std::string& kind, long tv) {
    const std::string& t = kToken;
    if (kind == "exact") return t;
    if (kind == "wrong") { const char* w[] = {"WrongToken-00", "S3cret-Tok3m", "0", "s3cret"}; return w[tv % 4]; }
    if (kind == "prefix") {
        // incl. prefixes whose length differs from the token's by a multiple of 256 (an 8-bit length comparison would miss them)
        const std::string p[] = {t.substr(0, t.size() - 1), t.substr(0, 1), t.substr(0, t.size() / 2), t.size() >= 256 ? t.substr(0, t.size() - 256) : t.substr(0, 2),
                                 t.size() >= 512 ? t.substr(0, t.size() - 512) : t.substr(0, 3)};
        return p[tv % 5];
    }
    if (kind == "suffix") {
        // incl. the token with blanks around it: what is presented is then another string than the token
        const std::string p[] = {t.substr(1), t + "x", "x" + t, t + t, t + std::string(256, 'x'), t.size() >= 256 ? t.substr(256) : t.substr(t.size() - 1),
                                 t + " ", " " + t, "\t" + t + " \t"};
        return p[tv % 9];
    }
    if (kind == "case") {
        std::string u = t, l = t, sw = t;
        for (auto& ch : u) ch = static_cast<char>(std::toupper(static_cast<unsigned char>(ch)));
        for (auto& ch : l) ch = static_cast<char>(std::tolower(static_cast<unsigned char>(ch)));
        for (auto& ch : sw) ch = std::isupper(static_cast<unsigned char>(ch)) ? static_cast<char>(std::tolower(static_cast<unsigned char>(ch))) : static_cast<char>(std::toupper(static_cast<unsigned char>(ch)));
        const std::string p[] = {sw, u, l};
        return p[tv % 3];
    }
    if (kind == "empty") return "";
    return kind;  // literal
}
std::string harness_basename(const std::string& p) {   // the harness's own notion of the sanitised file name
    auto pos = p.find_last_of('/');
    std::string b = pos == std::string::npos ? p : p.substr(pos + 1);
    if (b == "." || b == "..") return "";
    return b.substr(0, 255);
}
const std::vector<std::string> kPaths = {"", "name.bin", "dir/sub/name.bin", "/abs/other.dat", "a b/c d.txt", "k:v/x:y.bin"};

std::string manifest_for(long c, long sz, bool force_foreign) {
    const long lab = label_of(c, sz);
    if (!force_foreign) { auto it = g_manifest.find(lab); if (it != g_manifest.end()) return it->second; }
    auto it = g_foreign.find(lab);
    if (it != g_foreign.end()) return it->second;
    auto data = payload_bytes(c, sz);
    note_label(data, lab);
    const auto id = security::derive_chunk_id(std::span<const std::uint8_t>(data.data(), data.size()));
    auto m = g_helper->store_chunk(id, data, std::chrono::seconds(0));
    return g_foreign[lab] = protocol::encode_manifest(m);
}

bool is_canonical_uint(const std::string& s) { return !s.empty() && s.size() <= 9 && std::all_of(s.begin(), s.end(), [](unsigned char ch) { return std::isdigit(ch); }) && (s.size() == 1 || s[0] != '0'); }

void do_req(const ev::Cmd& c) {
    const std::string cmd = c.s("cmd", "PING");
    const int src = static_cast<int>(c.i("src", 1));
    const long ch = c.i("c", 1);
    const long sz = c.has("sz") ? c.i("sz") : default_sz(ch);
    std::vector<std::pair<std::string, std::string>> hs;
    std::vector<std::uint8_t> body;
    ev::Ev e("req");
    e.i("t", vclock::now_ns() / 1000000).s("cmd", cmd).i("tokcfg", g_d->tokcfg ? 1 : 0).i("src", src).i("c", label_of(ch, sz));
    bool wellformed = true, withhold = false, late = true, overcap = false;
    std::string wire_cmd = cmd;
    if (cmd == "FETCH-STREAM" || cmd == "FETCH-OUT") wire_cmd = "FETCH";
    hs.push_back({c.i("lc", 0) ? "command" : "COMMAND", wire_cmd});
    if (cmd == "STORE") {
        body = payload_bytes(ch, sz);
        note_label(body, label_of(ch, sz));
        // PATH
        const std::string path = kPaths[static_cast<size_t>(c.i("path", 0)) % kPaths.size()];
        if (!path.empty()) hs.push_back({"PATH", path});
        // TTL
        const std::string ttl = c.s("ttl", "none");
        if (ttl != "none") hs.push_back({"TTL", ttl == "empty" ? "" : ttl});
        if (ttl == "none") e.s("ttlkind", "absent").i("ttl", 0);
        else if (is_canonical_uint(ttl)) e.s("ttlkind", "num").i("ttl", std::atol(ttl.c_str()));
        else e.s("ttlkind", "bad").i("ttl", 0);
        e.s("ttltext", vis(ttl));
        // declared length
        const std::string len = c.s("len", "actual");
        std::string declared = len == "actual" ? std::to_string(body.size()) : len;
        hs.push_back({"PAYLOAD-LENGTH", declared});
        if (is_canonical_uint(declared) || declared == "0") e.s("lenkind", "num").i("len", std::atol(declared.c_str()));
        else e.s("lenkind", "huge").i("len", -1);
        overcap = !(is_canonical_uint(declared) || declared == "0") || std::atol(declared.c_str()) > g_d->cap;
        withhold = c.s("body", "send") == "withhold";
        late = (declared == std::to_string(body.size()));
        // store proof-of-work
        const std::string pow = c.s("pow", g_d->powbits > 0 ? "valid" : "missing");
        const auto id = security::derive_chunk_id(std::span<const std::uint8_t>(body.data(), body.size()));
        const std::string base = harness_basename(path);
        security::StoreWorkInput good{id, static_cast<std::uint64_t>(body.size()), std::string_view(base)};
        const int bits = g_d->powbits;
        std::optional<std::uint64_t> nonce;
        auto solve = [&](const security::StoreWorkInput& in) { return security::compute_store_pow(in, static_cast<std::uint8_t>(std::max(bits, 1)), 200000); };
        if (pow == "valid") nonce = solve(good);
        else if (pow == "invalid") { std::uint64_t n = solve(good).value_or(1) + 1; while (bits > 0 && security::store_pow_valid(good, n, static_cast<std::uint8_t>(bits))) ++n; nonce = n; }
        else if (pow == "wrongname") { security::StoreWorkInput in{id, static_cast<std::uint64_t>(body.size()), std::string_view(path)}; if (path == base) { std::string other = path + "~"; in.filename_hint = other; nonce = solve(in); } else nonce = solve(in); }
        else if (pow == "wrongsize") { security::StoreWorkInput in{id, static_cast<std::uint64_t>(body.size()) + 1, std::string_view(base)}; nonce = solve(in); }
        else if (pow == "wronghash") { auto other = payload_bytes(ch + 1, sz); security::StoreWorkInput in{security::derive_chunk_id(std::span<const std::uint8_t>(other.data(), other.size())), static_cast<std::uint64_t>(body.size()), std::string_view(base)}; nonce = solve(in); }
        bool powok = false;
        if (pow == "garbage") hs.push_back({"STORE-POW", "12x"});
        else if (pow != "missing" && nonce.has_value()) { hs.push_back({"STORE-POW", std::to_string(*nonce)}); powok = bits == 0 || security::store_pow_valid(good, *nonce, static_cast<std::uint8_t>(bits)); }
        if (bits == 0) powok = true;
        e.s("pow", pow).b("powok", powok).i("powbits", bits).i("cap", g_d->cap).i("sz", static_cast<long>(body.size()));
        e.i("min", g_d->cfg.min_manifest_ttl.count()).i("max", g_d->cfg.max_manifest_ttl.count()).i("def", g_d->cfg.default_chunk_ttl.count());
    } else if (cmd == "FETCH-STREAM" || cmd == "FETCH-OUT") {
        hs.push_back({"MANIFEST", manifest_for(ch, sz, c.i("foreign", 0) != 0)});
        if (cmd == "FETCH-STREAM") hs.push_back({"STREAM", c.i("sv", 0) % 2 ? "1" : "client"});
        else hs.push_back({"OUT", g_outdir + "/out" + std::to_string(++g_outseq) + ".bin"});
    }
    // other headers in the order chosen by perm, the TOKEN header at position pos
    const long perm = c.i("perm", 0);
    if (perm > 0 && hs.size() > 1) {
        std::uint64_t st = static_cast<std::uint64_t>(perm) * 0x9E3779B97F4A7C15ull + 1;
        for (size_t i = hs.size() - 1; i > 0; --i) { st ^= st << 13; st ^= st >> 7; st ^= st << 17; std::swap(hs[i], hs[st % (i + 1)]); }
    }
    const std::string tok = c.s("tok", "none");
    e.s("tok", tok);
    if (tok != "none") {
        const std::string tv = token_variant(tok, c.i("tv", 0));
        const size_t pos = c.s("pos") == "last" ? hs.size() : static_cast<size_t>(c.i("pos", 1)) % (hs.size() + 1);
        hs.insert(hs.begin() + static_cast<long>(pos), {c.i("lc", 0) ? "token" : "TOKEN", tv});
        e.s("tokv", vis(tv)).i("pos", static_cast<long>(pos));
        // classification is by value, not by the script's word
        e.b("exact", tv == kToken);
    } else e.b("exact", false);
    std::string order;
    for (const auto& [k, v] : hs) order += (order.empty() ? "" : ",") + k;
    e.s("order", order);
    // an over-cap declaration must be answered without the body: give a loaded machine time before calling it silence
    // (once a daemon has been seen to stay silent the point is made: later probes wait only briefly)
    static bool seen_silent = false;
    RawResp r = raw_request(src, hs, body, withhold, late, overcap ? (seen_silent ? 300 : 15000) : 100);
    if (overcap && withhold && !r.early) seen_silent = true;
    e.b("wf", wellformed).s("status", r.status).s("code", r.code);
    e.b("autherr", r.code.find("UNAUTH") != std::string::npos || r.code.find("AUTH") != std::string::npos || r.code.find("FORBIDDEN") != std::string::npos || r.code.find("DENIED") != std::string::npos);
    e.b("withheld", withhold).b("early", r.early);
    if (cmd == "STORE" && r.status == "OK") {
        // remember the manifest the daemon issued
        auto p = r.raw.find("MANIFEST:");
        if (p != std::string::npos) { auto q = r.raw.find('\n', p); g_manifest[label_of(ch, sz)] = r.raw.substr(p + 9, q == std::string::npos ? std::string::npos : q - p - 9); }
    }
    if (cmd == "FETCH-STREAM" && r.status == "OK") {
        auto p = r.raw.find("\n\n");
        std::string got = p == std::string::npos ? "" : r.raw.substr(p + 2);
        auto want = payload_bytes(ch, sz);
        e.b("bytesok", got == std::string(want.begin(), want.end()));
    }
    projection(e);
    e.emit();
}

// ---------------------------------------------------------------------------------------
// real ControlClient
std::vector<std::string> nonempty_lines(const std::string& v) {
    std::vector<std::string> out; std::istringstream ss(v); std::string line;
    while (std::getline(ss, line)) if (!line.empty()) out.push_back(line);
    return out;
}
struct FieldCheck { std::string field; std::vector<std::string> exp, got; bool present; };
std::string jcheck(const FieldCheck& f) {
    std::vector<std::string> e, g;
    for (const auto& x : f.exp) e.push_back(ev::jstr(vis(x)));
    for (const auto& x : f.got) g.push_back(ev::jstr(vis(x)));
    return "{\"f\":" + ev::jstr(f.field) + ",\"present\":" + (f.present ? "true" : "false") + ",\"exp\":" + ev::jlist(e) + ",\"got\":" + ev::jlist(g) + "}";
}

void do_cresp(const ev::Cmd& c) {
    const std::string cmd = c.s("cmd", "LIST");
    daemon::ControlClient client("127.0.0.1", g_d->port, g_d->tokcfg ? std::optional<std::string>(kToken) : std::nullopt);
    daemon::ControlFields fields;
    std::vector<std::uint8_t> payload;
    std::span<const std::uint8_t> pspan{};
    const long ch = c.i("c", 1);
    const long sz = c.has("sz") ? c.i("sz") : default_sz(ch);
    std::string path;
    std::string wire = cmd;
    Config cfg;
    std::vector<long long> live;
    { std::scoped_lock lk(g_d->node_mutex); cfg = g_d->node->config(); }
    live = live_labels();
    if (cmd == "STORE") {
        payload = payload_bytes(ch, sz); note_label(payload, label_of(ch, sz));
        pspan = std::span<const std::uint8_t>(payload.data(), payload.size());
        path = kPaths[static_cast<size_t>(c.i("path", 1)) % kPaths.size()];
        if (!path.empty()) fields["PATH"] = path;
        fields["TTL"] = std::to_string(c.i("ttl", 120));
        if (g_d->powbits > 0) {
            const std::string base = harness_basename(path);
            security::StoreWorkInput in{security::derive_chunk_id(pspan), static_cast<std::uint64_t>(payload.size()), std::string_view(base)};
            fields["STORE-POW"] = std::to_string(security::compute_store_pow(in, static_cast<std::uint8_t>(g_d->powbits), 200000).value_or(0));
        }
    } else if (cmd == "FETCH-STREAM") {
        wire = "FETCH";
        fields["MANIFEST"] = manifest_for(ch, sz, false);
        fields["STREAM"] = "client";
    }
    const auto resp = client.send(wire, fields, pspan);
    ev::Ev e("cresp");
    e.i("t", vclock::now_ns() / 1000000).s("cmd", cmd).b("answered", resp.has_value());
    std::vector<FieldCheck> checks;
    auto got_of = [&](const std::string& k) -> std::optional<std::string> {
        if (!resp) return std::nullopt;
        auto it = resp->fields.find(k);
        if (it == resp->fields.end()) return std::nullopt;
        return it->second;
    };
    auto exact = [&](const std::string& k, const std::string& want) {
        auto g = got_of(k);
        checks.push_back({k, {want}, g ? std::vector<std::string>{*g} : std::vector<std::string>{}, g.has_value()});
    };
    auto lines = [&](const std::string& k, const std::vector<std::string>& want, auto proj) {
        auto g = got_of(k);
        std::vector<std::string> gl;
        if (g) for (const auto& ln : nonempty_lines(*g)) gl.push_back(proj(ln));
        checks.push_back({k, want, gl, g.has_value()});
    };
    auto ident = [](const std::string& s) { return s; };
    bool ok = resp && resp->success;
    e.b("ok", ok);
    if (cmd == "PING") { exact("CODE", "OK_PING"); exact("MESSAGE", "pong"); }
    if (cmd == "LIST") {
        exact("CODE", "OK_LIST");
        exact("COUNT", std::to_string(live.size()));
        std::vector<std::string> want;
        for (auto l : live) want.push_back(std::to_string(l));
        lines("ENTRIES", want, [&](const std::string& ln) { return std::to_string(label_for_key(ln.substr(0, ln.find(',')))); });
        std::sort(checks.back().got.begin(), checks.back().got.end());
        std::sort(checks.back().exp.begin(), checks.back().exp.end());
        // what `eph list` prints for this response
        std::vector<long long> printed;
        if (resp) {
            std::ostringstream cap; auto* old = std::cout.rdbuf(cap.rdbuf());
            print_list_response(*resp);
            std::cout.rdbuf(old);
            std::istringstream ss(cap.str()); std::string ln;
            while (std::getline(ss, ln)) { auto p = ln.find("ID="); if (p == std::string::npos) continue; auto q = ln.find(' ', p); printed.push_back(label_for_key(ln.substr(p + 3, q - p - 3))); }
        }
        e.ints("live", live).ints("printed", sorted(printed));
    }
    if (cmd == "STATUS") {
        exact("CODE", "OK_STATUS");
        exact("CHUNKS", std::to_string(live.size()));
        if (!cfg.auto_advertise_warnings.empty()) {
            std::string joined;
            for (const auto& w : cfg.auto_advertise_warnings) joined += w + "\n";
            lines("AUTO_ADVERTISE_WARNINGS", nonempty_lines(joined), ident);
            exact("AUTO_ADVERTISE_CONFLICT", cfg.auto_advertise_conflict ? "1" : "0");
        }
    }
    if (cmd == "DEFAULTS") {
        exact("CODE", "OK_DEFAULTS");
        exact("STORAGE_DIR", cfg.storage_directory);
        exact("CONTROL_HOST", cfg.control_host);
        exact("CONTROL_PORT", std::to_string(cfg.control_port));
        exact("MIN_TTL", std::to_string(cfg.min_manifest_ttl.count()));
        exact("STORE_POW", std::to_string(cfg.store_pow_difficulty));
        if (cfg.advertise_control_host) exact("ADVERTISE_HOST", *cfg.advertise_control_host);
        std::vector<std::string> eps, boots;
        for (const auto& ep : cfg.advertised_endpoints) if (!ep.host.empty()) eps.push_back(ep.host);
        for (const auto& b : cfg.bootstrap_nodes) if (!b.host.empty()) boots.push_back(b.host);
        if (!eps.empty()) lines("ADVERTISE_ENDPOINTS", eps, [](const std::string& ln) { return ln.substr(0, ln.find(':')); });
        if (!boots.empty()) lines("BOOTSTRAP_NODES", boots, [](const std::string& ln) { auto a = ln.find('@'); auto rest = a == std::string::npos ? ln : ln.substr(a + 1); return rest.substr(0, rest.find(':')); });
    }
    if (cmd == "METRICS") {
        exact("CODE", "OK_METRICS");
        const bool plen = resp && resp->has_payload && !resp->payload.empty() && got_of("PAYLOAD-LENGTH") == std::optional<std::string>(std::to_string(resp->payload.size()))
                          && std::string(resp->payload.begin(), resp->payload.begin() + std::min<size_t>(6, resp->payload.size())) == "# HELP" && resp->payload.back() == '\n';
        checks.push_back({"PAYLOAD", {"ok"}, {plen ? "ok" : "bad"}, resp && resp->has_payload});
    }
    if (cmd == "FETCH-STREAM") {
        exact("CODE", "OK_FETCH");
        exact("SIZE", std::to_string(sz));
        auto want = payload_bytes(ch, sz);
        const bool same = resp && resp->has_payload && resp->payload == want;
        checks.push_back({"PAYLOAD", {"ok"}, {same ? "ok" : "bad"}, resp && resp->has_payload});
    }
    if (cmd == "STORE") {
        exact("CODE", "OK_STORE");
        exact("SIZE", std::to_string(payload.size()));
        if (!path.empty()) { exact("SOURCE", path); const std::string b = harness_basename(path);   // the node may rewrite unusual characters of the stored name
            if (!b.empty() && std::all_of(b.begin(), b.end(), [](unsigned char ch) { return std::isalnum(ch) || ch == '.' || ch == '_' || ch == '-'; })) exact("FILENAME", b); }
        if (auto m = got_of("MANIFEST"); m && ok) g_manifest[label_of(ch, sz)] = *m;
    }
    std::vector<std::string> js;
    for (const auto& f : checks) js.push_back(jcheck(f));
    e.raw("checks", ev::jlist(js));
    std::vector<std::string> keys;
    if (resp) for (const auto& [k, v] : resp->fields) keys.push_back(ev::jstr(k));
    std::sort(keys.begin(), keys.end());
    e.raw("keys", ev::jlist(keys));
    projection(e);
    e.emit();
}

void do_cfg(const ev::Cmd& c) {
    std::scoped_lock lk(g_d->node_mutex);
    auto& cfg = g_d->node->config();
    auto val = [&](const char* k) { return kValues[static_cast<size_t>(c.i(k)) % kValues.size()]; };
    if (c.has("storage")) cfg.storage_directory = val("storage");
    if (c.has("host")) cfg.control_host = val("host");
    if (c.has("advhost")) cfg.advertise_control_host = val("advhost");
    if (c.has("warn")) {   // dot-separated value indices
        cfg.auto_advertise_warnings.clear();
        std::istringstream ss(c.s("warn")); std::string tok;
        while (std::getline(ss, tok, '.')) if (!tok.empty()) cfg.auto_advertise_warnings.push_back(tok[0] == 'w' ? "warning " + tok + ": endpoint mismatch" : kValues[static_cast<size_t>(std::atol(tok.c_str())) % kValues.size()]);
        cfg.auto_advertise_conflict = c.i("conflict", 0) != 0;
        // warnpad=<n>: the first warning grows by n bytes, which slides every later line break of the value along the wire by n
        if (c.i("warnpad", 0) > 0 && !cfg.auto_advertise_warnings.empty()) cfg.auto_advertise_warnings.front() += std::string(static_cast<size_t>(c.i("warnpad")), 'x');
    }
    if (c.has("eps")) {
        cfg.advertised_endpoints.clear();
        for (long i = 0; i < c.i("eps"); ++i) cfg.advertised_endpoints.push_back({"ep" + std::to_string(i) + ".example", static_cast<std::uint16_t>(4000 + i), i % 2 == 0, i % 3 == 0 ? "" : "manual"});
    }
    if (c.has("boots")) {
        cfg.bootstrap_nodes.clear();
        for (long i = 0; i < c.i("boots"); ++i) { Config::BootstrapNode b; b.id = peer(static_cast<std::uint8_t>(40 + i)); b.host = "seed" + std::to_string(i) + ".example"; b.port = static_cast<std::uint16_t>(45000 + i); if (i % 2) b.public_identity = 77u + static_cast<std::uint32_t>(i); cfg.bootstrap_nodes.push_back(b); }
    }
}
}  // namespace hv

int main(int argc, char** argv) {
    using namespace hv;
    if (argc < 4) { std::fprintf(stderr, "usage: control <script> <trace> <workdir>\n"); return 2; }
    std::signal(SIGPIPE, SIG_IGN);
    ephemeralnet::daemon::StructuredLogger::instance().set_enabled(false);
    std::ifstream in(argv[1]);
    if (!in) { std::perror(argv[1]); return 2; }
    ev::open(argv[2]);
    std::setvbuf(ev::out(), nullptr, _IOLBF, 0);   // events survive a daemon that aborts the process
    g_work = fs::absolute(argv[3]).string();
    g_outdir = g_work + "/daemon-out";
    fs::create_directories(g_outdir);
    vrng::seed(12345);
    ev::Cmd c;
    while (ev::read_cmd(in, c)) {
        if (c.op == "reset") {
            start_daemon(c);
            ev::Ev e("reset");
            e.i("t", 0).i("tokcfg", g_d->tokcfg ? 1 : 0).i("cap", g_d->cap).i("powbits", g_d->powbits)
             .i("min", g_d->cfg.min_manifest_ttl.count()).i("max", g_d->cfg.max_manifest_ttl.count()).i("def", g_d->cfg.default_chunk_ttl.count());
            projection(e);
            e.emit();
            continue;
        }
        if (!g_d) { std::fprintf(stderr, "script must start with reset\n"); return 2; }
        if (c.op == "req") do_req(c);
        else if (c.op == "cresp") do_cresp(c);
        else if (c.op == "cfg") do_cfg(c);
        else if (c.op == "adv") {
            vclock::advance_ms(c.i("ms", 1000));
            if (c.i("tick", 0)) { std::scoped_lock lk(g_d->node_mutex); g_d->node->tick(); }
            ev::Ev e("adv"); e.i("t", vclock::now_ns() / 1000000); projection(e); e.emit();
        } else if (c.op == "seed") {
            const long ch = c.i("c", 1); const long sz = c.has("sz") ? c.i("sz") : default_sz(ch);
            auto data = payload_bytes(ch, sz); note_label(data, label_of(ch, sz));
            const auto id = security::derive_chunk_id(std::span<const std::uint8_t>(data.data(), data.size()));
            { std::scoped_lock lk(g_d->node_mutex); auto m = g_d->node->store_chunk(id, data, std::chrono::seconds(c.i("ttl", 600))); g_manifest[label_of(ch, sz)] = protocol::encode_manifest(m); }
            ev::Ev e("seed"); e.i("t", vclock::now_ns() / 1000000).i("c", label_of(ch, sz)); projection(e); e.emit();
        } else { std::fprintf(stderr, "unknown op %s\n", c.op.c_str()); return 2; }
    }
    stop_daemon();
    g_helper.reset();
    std::fflush(ev::out());
    return 0;
}
