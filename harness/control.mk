# control-plane driver (C27, C28, C29): real Node + real ControlServer/ControlClient; src/main.cpp is
# #included into the harness TU (print_list_response lives in its anonymous namespace), so the
# repo's src directory is on the include path and main.o is never linked.
EXTRA_control := daemon/ControlPlane.o daemon/ControlClient.o daemon/ControlServer.o daemon/StructuredLogger.o
CXXFLAGS_control := -I$(REPO)/src
