// Driver for the real crypto primitives and the signed message envelope (C08, C09, C13).
//   crypto <script> <trace-out>
// Reads a script (one command per line, see common/ev.hpp), calls the REAL repo code and writes one
// ndjson event per command (signed: one per mutation).  No oracle lives here: the events carry inputs and the
// outputs of the real code; spec/CryptoTrace.tla recomputes every digest / tag / keystream with the executable
// TLA+ references (spec/Sha256.tla, Hmac.tla, ChaCha20.tla) and decides.
//
// commands (HEX = lower/upper-case hex string, may be empty):
//   sha      msg=HEX pos=a,b,c,...      Sha256::digest one-shot + every split update(m[0:a]) update(m[a:b]) update(m[b:])
//                                       for a <= b taken from pos, + byte-at-a-time + fixed chunk sizes 3, 7, 64
//   shasplit msg=HEX at=a,b,c,...       one explicit split into len(at)+1 update calls
//   hmac     key=HEX msg=HEX cands=HEX,HEX,-,...   HmacSha256::compute, then verify() of every candidate tag ("-" = empty)
//                                       and of the tag compute() itself returned (last candidate)
//   chacha   key=HEX(32) nonce=HEX(12) ctr=N inp=HEX   ChaCha20::apply and apply again on the result
//   encwk    key=HEX(32) cid=HEX(32) pt=HEX     CryptoManager::encrypt_with_key, then decrypt_with_key on its output
//   decwk    key=HEX(32) cid=HEX(32) nonce=HEX(12) ct=HEX   CryptoManager::decrypt_with_key
//   signed   type=1..6 ver=V key=HEX key2=HEX seed=N muts=m1,m2,...   encode_signed a message, then decode_signed of each
//                                       mutation of the buffer (see mutate())
//   signedraw key=HEX buf=HEX           decode_signed of a given buffer
#include "common/ev.hpp"
#include "ephemeralnet/crypto/ChaCha20.hpp"
#include "ephemeralnet/crypto/CryptoManager.hpp"
#include "ephemeralnet/crypto/HmacSha256.hpp"
#include "ephemeralnet/crypto/Sha256.hpp"
#include "ephemeralnet/protocol/Message.hpp"

#include <algorithm>
#include <cstring>
#include <set>

using namespace ephemeralnet;
using Bytes = std::vector<std::uint8_t>;

static int hexval(char c) {
    if (c >= '0' && c <= '9') return c - '0';
    if (c >= 'a' && c <= 'f') return c - 'a' + 10;
    if (c >= 'A' && c <= 'F') return c - 'A' + 10;
    return -1;
}
static Bytes unhex(const std::string& s) {
    Bytes v;
    if (s == "-") return v;
    if (s.size() % 2) { std::fprintf(stderr, "crypto: odd hex string\n"); std::exit(2); }
    v.reserve(s.size() / 2);
    for (size_t i = 0; i + 1 < s.size(); i += 2) {
        int a = hexval(s[i]), b = hexval(s[i + 1]);
        if (a < 0 || b < 0) { std::fprintf(stderr, "crypto: bad hex\n"); std::exit(2); }
        v.push_back(static_cast<std::uint8_t>(a * 16 + b));
    }
    return v;
}
static std::vector<std::string> split_list(const std::string& s, char sep = ',') {
    std::vector<std::string> out;
    if (s.empty()) return out;
    size_t p = 0;
    while (true) {
        size_t q = s.find(sep, p);
        out.push_back(s.substr(p, q == std::string::npos ? std::string::npos : q - p));
        if (q == std::string::npos) break;
        p = q + 1;
    }
    return out;
}
static std::string jbytes(const Bytes& b) {
    std::string a = "[";
    for (size_t i = 0; i < b.size(); ++i) { if (i) a += ","; a += std::to_string(static_cast<unsigned>(b[i])); }
    return a + "]";
}
template <size_t N> static Bytes vec(const std::array<std::uint8_t, N>& a) { return Bytes(a.begin(), a.end()); }

static long g_line = 0;   // script line (command index), echoed as "src" so a failing event can be replayed

// ------------------------------------------------------------------------------------ SHA-256
static Bytes sha_split(const Bytes& m, const std::vector<size_t>& cuts) {
    crypto::Sha256 h;
    size_t prev = 0;
    for (size_t c : cuts) {
        c = std::min(c, m.size());
        if (c < prev) c = prev;
        h.update(std::span<const std::uint8_t>(m.data() + prev, c - prev));
        prev = c;
    }
    h.update(std::span<const std::uint8_t>(m.data() + prev, m.size() - prev));
    return vec(h.finalize());
}
static Bytes sha_chunks(const Bytes& m, size_t k) {
    crypto::Sha256 h;
    for (size_t p = 0; p < m.size(); p += k) h.update(std::span<const std::uint8_t>(m.data() + p, std::min(k, m.size() - p)));
    return vec(h.finalize());
}
struct DigSet {
    std::vector<Bytes> digs;          // distinct digests seen
    std::vector<std::string> ex;      // one example split per distinct digest
    long n = 0;
    void add(const Bytes& d, const std::string& how) {
        ++n;
        for (auto& x : digs) if (x == d) return;
        digs.push_back(d); ex.push_back(how);
    }
};
static void emit_sha(const Bytes& m, const Bytes& one, const DigSet& ds) {
    std::vector<std::string> dj, ej;
    for (auto& d : ds.digs) dj.push_back(jbytes(d));
    for (auto& e : ds.ex) ej.push_back(ev::jstr(e));
    ev::Ev e("sha");
    e.i("src", g_line).raw("msg", jbytes(m)).raw("one", jbytes(one)).raw("digs", ev::jlist(dj)).raw("ex", ev::jlist(ej)).i("nsplits", ds.n).emit();
}
static void do_sha(const ev::Cmd& c) {
    const Bytes m = unhex(c.s("msg"));
    std::vector<size_t> pos;
    for (auto& t : split_list(c.s("pos"))) pos.push_back(static_cast<size_t>(std::atoll(t.c_str())));
    const Bytes one = vec(crypto::Sha256::digest(m));
    DigSet ds;
    for (size_t a : pos) for (size_t b : pos) if (a <= b && b <= m.size())
        ds.add(sha_split(m, {a, b}), std::to_string(a) + "," + std::to_string(b));
    for (size_t k : {size_t{1}, size_t{3}, size_t{7}, size_t{64}}) ds.add(sha_chunks(m, k), "chunks of " + std::to_string(k));
    emit_sha(m, one, ds);
}
static void do_shasplit(const ev::Cmd& c) {
    const Bytes m = unhex(c.s("msg"));
    std::vector<size_t> at;
    for (auto& t : split_list(c.s("at"))) at.push_back(static_cast<size_t>(std::atoll(t.c_str())));
    DigSet ds;
    ds.add(sha_split(m, at), c.s("at"));
    emit_sha(m, vec(crypto::Sha256::digest(m)), ds);
}

// ------------------------------------------------------------------------------------ HMAC
static void do_hmac(const ev::Cmd& c) {
    const Bytes key = unhex(c.s("key")), msg = unhex(c.s("msg"));
    const Bytes tag = vec(crypto::HmacSha256::compute(key, msg));
    std::vector<Bytes> cands;
    for (auto& t : split_list(c.s("cands"))) cands.push_back(unhex(t));
    cands.push_back(tag);
    std::vector<std::string> cj;
    std::vector<long long> acc;
    for (auto& cd : cands) {
        cj.push_back(jbytes(cd));
        acc.push_back(crypto::HmacSha256::verify(key, msg, cd) ? 1 : 0);
    }
    ev::Ev e("hmac");
    e.i("src", g_line).raw("key", jbytes(key)).raw("msg", jbytes(msg)).raw("tag", jbytes(tag)).raw("cands", ev::jlist(cj)).ints("acc", acc).emit();
}

// ------------------------------------------------------------------------------------ ChaCha20
static crypto::Key mk_key(const Bytes& b) {
    if (b.size() != 32) { std::fprintf(stderr, "crypto: key must be 32 bytes\n"); std::exit(2); }
    crypto::Key k{}; std::copy(b.begin(), b.end(), k.bytes.begin()); return k;
}
static crypto::Nonce mk_nonce(const Bytes& b) {
    if (b.size() != 12) { std::fprintf(stderr, "crypto: nonce must be 12 bytes\n"); std::exit(2); }
    crypto::Nonce n{}; std::copy(b.begin(), b.end(), n.bytes.begin()); return n;
}
static ChunkId mk_cid(const Bytes& b) {
    ChunkId id{};
    if (b.size() != id.size()) { std::fprintf(stderr, "crypto: chunk id must be 32 bytes\n"); std::exit(2); }
    std::copy(b.begin(), b.end(), id.begin()); return id;
}
static void do_chacha(const ev::Cmd& c) {
    const Bytes kb = unhex(c.s("key")), nb = unhex(c.s("nonce")), inp = unhex(c.s("inp"));
    const auto ctr = static_cast<std::uint32_t>(std::strtoull(c.s("ctr", "0").c_str(), nullptr, 10));
    const auto key = mk_key(kb);
    const auto nonce = mk_nonce(nb);
    Bytes out(3, 0xEE), out2(5, 0xEE);   // pre-filled with junk of a wrong size: apply must size the output itself
    crypto::ChaCha20::apply(key, nonce, inp, out, ctr);
    crypto::ChaCha20::apply(key, nonce, out, out2, ctr);
    Bytes inpl = inp;                    // the input span may view the output vector itself (encrypting a buffer in place)
    crypto::ChaCha20::apply(key, nonce, inpl, inpl, ctr);
    ev::Ev e("chacha");
    e.i("src", g_line).raw("key", jbytes(kb)).raw("nonce", jbytes(nb)).ints("ctr", {static_cast<long long>(ctr >> 16), static_cast<long long>(ctr & 0xFFFFu)})
        .raw("inp", jbytes(inp)).raw("out", jbytes(out)).raw("out2", jbytes(out2)).raw("inpl", jbytes(inpl)).emit();
}
// chunk-sized inputs: "chachal key= nonce= ctr= n= seed=".  The whole output is compared, block by block, with what short calls
// at counter + i return (those are judged against RFC 8439 by the short cases); the first, second, middle and last two blocks
// (the last one may be partial) are logged so that the reference recomputes them at counter + index.
static void do_chachal(const ev::Cmd& c) {
    const Bytes kb = unhex(c.s("key")), nb = unhex(c.s("nonce"));
    const auto ctr = static_cast<std::uint32_t>(std::strtoull(c.s("ctr", "0").c_str(), nullptr, 10));
    const size_t n = static_cast<size_t>(c.i("n", 4096));
    const auto key = mk_key(kb);
    const auto nonce = mk_nonce(nb);
    std::uint64_t st = 0x9E3779B97F4A7C15ull ^ static_cast<std::uint64_t>(c.i("seed", 1));
    Bytes inp(n);
    for (auto& b : inp) { st ^= st << 13; st ^= st >> 7; st ^= st << 17; b = static_cast<std::uint8_t>((st * 0x2545F4914F6CDD1Dull) >> 56); }
    Bytes out(7, 0xEE), out2(1, 0xEE);
    crypto::ChaCha20::apply(key, nonce, inp, out, ctr);
    crypto::ChaCha20::apply(key, nonce, out, out2, ctr);
    Bytes inpl = inp;
    crypto::ChaCha20::apply(key, nonce, inpl, inpl, ctr);
    const size_t nblk = (n + 63) / 64;
    long long firstdiff = -1;
    if (out.size() == n) {
        for (size_t i = 0; i < nblk && firstdiff < 0; ++i) {
            const size_t off = i * 64, len = std::min<size_t>(64, n - off);
            Bytes piece(inp.begin() + static_cast<long>(off), inp.begin() + static_cast<long>(off + len)), po;
            crypto::ChaCha20::apply(key, nonce, piece, po, static_cast<std::uint32_t>(ctr + static_cast<std::uint32_t>(i)));
            if (po.size() != len || !std::equal(po.begin(), po.end(), out.begin() + static_cast<long>(off))) firstdiff = static_cast<long long>(i);
        }
    }
    std::vector<size_t> pick;
    for (size_t i : {size_t{0}, size_t{1}, nblk / 2, nblk >= 2 ? nblk - 2 : size_t{0}, nblk >= 1 ? nblk - 1 : size_t{0}})
        if (i < nblk && std::find(pick.begin(), pick.end(), i) == pick.end()) pick.push_back(i);
    std::vector<std::string> blocks;
    for (size_t i : pick) {
        const size_t off = i * 64, len = std::min<size_t>(64, n - off);
        Bytes bi(inp.begin() + static_cast<long>(off), inp.begin() + static_cast<long>(off + len));
        Bytes bo;
        if (out.size() >= off + len) bo.assign(out.begin() + static_cast<long>(off), out.begin() + static_cast<long>(off + len));
        blocks.push_back("{\"i\":" + std::to_string(i) + ",\"inp\":" + jbytes(bi) + ",\"out\":" + jbytes(bo) + "}");
    }
    ev::Ev e("chachal");
    e.i("src", g_line).raw("key", jbytes(kb)).raw("nonce", jbytes(nb)).ints("ctr", {static_cast<long long>(ctr >> 16), static_cast<long long>(ctr & 0xFFFFu)})
        .i("n", static_cast<long long>(n)).i("outlen", static_cast<long long>(out.size())).i("inv", out2 == inp ? 1 : 0).i("inplsame", inpl == out ? 1 : 0)
        .i("piecediff", firstdiff).raw("blocks", ev::jlist(blocks)).emit();
}
static void do_encwk(const ev::Cmd& c) {
    const Bytes kb = unhex(c.s("key")), cb = unhex(c.s("cid")), pt = unhex(c.s("pt"));
    const auto key = mk_key(kb);
    const auto cid = mk_cid(cb);
    const auto sealed = crypto::CryptoManager::encrypt_with_key(key, cid, pt);
    const auto dec = crypto::CryptoManager::decrypt_with_key(key, cid, sealed.data, sealed.nonce);
    ev::Ev e("encwk");
    e.i("src", g_line).raw("key", jbytes(kb)).raw("cid", jbytes(cb)).raw("pt", jbytes(pt)).raw("nonce", jbytes(vec(sealed.nonce.bytes)))
        .raw("ct", jbytes(sealed.data)).i("decok", dec.has_value() ? 1 : 0).raw("dec", jbytes(dec.has_value() ? *dec : Bytes{})).emit();
}
static void do_decwk(const ev::Cmd& c) {
    const Bytes kb = unhex(c.s("key")), cb = unhex(c.s("cid")), nb = unhex(c.s("nonce")), ct = unhex(c.s("ct"));
    const auto dec = crypto::CryptoManager::decrypt_with_key(mk_key(kb), mk_cid(cb), ct, mk_nonce(nb));
    ev::Ev e("decwk");
    e.i("src", g_line).raw("key", jbytes(kb)).raw("cid", jbytes(cb)).raw("nonce", jbytes(nb)).raw("ct", jbytes(ct))
        .i("decok", dec.has_value() ? 1 : 0).raw("pt", jbytes(dec.has_value() ? *dec : Bytes{})).emit();
}

// ------------------------------------------------------------------------------------ signed envelope
static std::uint64_t g_prng = 1;
static std::uint8_t rb() { g_prng ^= g_prng << 13; g_prng ^= g_prng >> 7; g_prng ^= g_prng << 17; return static_cast<std::uint8_t>((g_prng * 0x2545F4914F6CDD1Dull) >> 56); }
template <class A> static void fill(A& a) { for (auto& x : a) x = rb(); }
static std::string rstr(size_t n) { std::string s; for (size_t i = 0; i < n; ++i) s.push_back(static_cast<char>('a' + rb() % 26)); return s; }

static protocol::Message make_message(int type, int ver, std::uint64_t seed) {
    g_prng = seed * 0x9E3779B97F4A7C15ull + 0x1234567ull; if (!g_prng) g_prng = 1;
    protocol::Message m{};
    m.version = static_cast<std::uint8_t>(ver);
    switch (type) {
        case 1: { protocol::AnnouncePayload p{}; fill(p.chunk_id); fill(p.peer_id); p.endpoint = rstr(rb() % 20); p.ttl = std::chrono::seconds(rb() * 7 + 1);
                  p.manifest_uri = rstr(rb() % 40); p.assigned_shards.resize(rb() % 5); fill(p.assigned_shards); p.work_nonce = (static_cast<std::uint64_t>(rb()) << 40) | rb();
                  m.type = protocol::MessageType::Announce; m.payload = p; break; }
        case 2: { protocol::RequestPayload p{}; fill(p.chunk_id); fill(p.requester); m.type = protocol::MessageType::Request; m.payload = p; break; }
        case 3: { protocol::ChunkPayload p{}; fill(p.chunk_id); p.data.resize(rb() % 90); fill(p.data); p.ttl = std::chrono::seconds(rb() + 1);
                  m.type = protocol::MessageType::Chunk; m.payload = p; break; }
        case 4: { protocol::AcknowledgePayload p{}; fill(p.chunk_id); fill(p.peer_id); p.accepted = rb() & 1; m.type = protocol::MessageType::Acknowledge; m.payload = p; break; }
        case 5: { protocol::TransportHandshakePayload p{}; p.public_identity = (static_cast<std::uint32_t>(rb()) << 24) | rb(); p.work_nonce = (static_cast<std::uint64_t>(rb()) << 56) | rb();
                  p.requested_version = static_cast<std::uint8_t>(1 + rb() % 4); m.type = protocol::MessageType::TransportHandshake; m.payload = p; break; }
        default: { protocol::HandshakeAckPayload p{}; p.accepted = rb() & 1; p.negotiated_version = static_cast<std::uint8_t>(1 + rb() % 4);
                   p.responder_public = (static_cast<std::uint32_t>(rb()) << 16) | rb(); m.type = protocol::MessageType::HandshakeAck; m.payload = p; break; }
    }
    return m;
}

// position classes inside a signed buffer (prefix | 32-byte MAC)
static long pos_of(const std::string& where, size_t len) {
    const long n = static_cast<long>(len);
    if (where == "ver") return 0;
    if (where == "type") return 1;
    if (where == "pay0") return 2;
    if (where == "paymid") return (n - 32 + 2) / 2;
    if (where == "payN") return n - 33;
    if (where == "mac0") return n - 32;
    if (where == "macmid") return n - 16;
    if (where == "macN") return n - 1;
    return std::atol(where.c_str());
}
static void resign(Bytes& buf, const Bytes& key) {   // recompute the MAC over the (mutated) prefix with the real HMAC
    if (buf.size() < 32) return;
    const auto mac = crypto::HmacSha256::compute(key, std::span<const std::uint8_t>(buf.data(), buf.size() - 32));
    std::copy(mac.begin(), mac.end(), buf.end() - 32);
}
// returns false when the mutation does not apply to this buffer
static bool mutate(const std::string& mut, Bytes& buf, Bytes& key, const Bytes& key2, const Bytes& other) {
    auto parts = split_list(mut, ':');
    const std::string& m = parts[0];
    const size_t len = buf.size();
    if (m == "pristine") return true;
    if (m == "flip" || m == "rflip") {            // flip one bit [rflip: ... and re-sign, so only decoding can refuse]
        long p = pos_of(parts.at(1), len);
        if (p < 0 || p >= static_cast<long>(len)) return false;
        buf[static_cast<size_t>(p)] ^= static_cast<std::uint8_t>(1u << (std::atoi(parts.at(2).c_str()) & 7));
        if (m == "rflip") resign(buf, key);
        return true;
    }
    if (m == "set" || m == "rset") {              // overwrite one byte (e.g. version 0 / 5, type 0 / 7)
        long p = pos_of(parts.at(1), len);
        if (p < 0 || p >= static_cast<long>(len)) return false;
        buf[static_cast<size_t>(p)] = static_cast<std::uint8_t>(std::atoi(parts.at(2).c_str()));
        if (m == "rset") resign(buf, key);
        return true;
    }
    if (m == "trunc" || m == "rtrunc") {          // drop the last n bytes [rtrunc: drop n bytes of the prefix, re-sign]
        size_t n = static_cast<size_t>(std::atol(parts.at(1).c_str()));
        if (m == "trunc") { if (n > len) return false; buf.resize(len - n); return true; }
        if (n + 32 > len) return false;
        buf.erase(buf.end() - 32 - static_cast<long>(n), buf.end() - 32);
        resign(buf, key);
        return true;
    }
    if (m == "chop") {                             // drop the first n bytes
        size_t n = static_cast<size_t>(std::atol(parts.at(1).c_str()));
        if (n > len) return false;
        buf.erase(buf.begin(), buf.begin() + static_cast<long>(n));
        return true;
    }
    if (m == "ext" || m == "rext") {              // append n bytes [rext: insert n bytes before the MAC, re-sign]
        size_t n = static_cast<size_t>(std::atol(parts.at(1).c_str()));
        std::uint8_t fillb = parts.size() > 2 ? static_cast<std::uint8_t>(std::atoi(parts[2].c_str())) : 0;
        if (m == "ext") { buf.insert(buf.end(), n, fillb); return true; }
        if (len < 32) return false;
        buf.insert(buf.end() - 32, n, fillb);
        resign(buf, key);
        return true;
    }
    if (m == "splice") {                           // MAC of another validly signed message under the same key
        if (len < 32 || other.size() < 32) return false;
        std::copy(other.end() - 32, other.end(), buf.end() - 32);
        return true;
    }
    if (m == "otherkey") { key = key2; return true; }          // verify under a different key
    if (m == "keyflip") { if (key.empty()) return false; key[key.size() / 2] ^= 0x01; return true; }
    if (m == "keytrunc") { if (key.empty()) return false; key.pop_back(); return true; }
    if (m == "keyext") { key.push_back(0); return true; }      // HMAC zero-pads short keys: a trailing zero byte is the SAME key up to 64 bytes
    if (m == "swap") {                             // exchange two adjacent bytes at a position class
        long p = pos_of(parts.at(1), len);
        if (p < 0 || p + 1 >= static_cast<long>(len)) return false;
        std::swap(buf[static_cast<size_t>(p)], buf[static_cast<size_t>(p) + 1]);
        return true;
    }
    if (m == "macfirst") {                         // MAC moved in front of the message
        if (len < 32) return false;
        std::rotate(buf.begin(), buf.end() - 32, buf.end());
        return true;
    }
    if (m == "reverse") { std::reverse(buf.begin(), buf.end()); return true; }
    if (m == "maczero") { if (len < 32) return false; std::fill(buf.end() - 32, buf.end(), 0); return true; }
    if (m == "onlymac") { if (len < 32) return false; buf.erase(buf.begin(), buf.end() - 32); return true; }
    if (m == "empty") { buf.clear(); return true; }
    std::fprintf(stderr, "crypto: unknown mutation %s\n", mut.c_str());
    std::exit(2);
}
static void emit_signed(const std::string& kind, int type, const Bytes& key, const Bytes& buf) {
    const auto got = protocol::decode_signed(buf, key);
    // "those bytes decode": the plain decoder of the real code applied to everything before the last 32 bytes
    int dec = 0, same = 0;
    if (buf.size() >= 32) {
        const auto plain = protocol::decode(std::span<const std::uint8_t>(buf.data(), buf.size() - 32));
        dec = plain.has_value() ? 1 : 0;
        if (got.has_value() && plain.has_value())
            same = (got->version == plain->version && got->type == plain->type && got->payload.index() == plain->payload.index()
                    && protocol::encode(*got) == protocol::encode(*plain)) ? 1 : 0;
    }
    ev::Ev e("signed");
    e.i("src", g_line).s("kind", kind).i("type", type).raw("key", jbytes(key)).raw("buf", jbytes(buf)).i("acc", got.has_value() ? 1 : 0).i("dec", dec).i("same", same).emit();
}
static void do_signed(const ev::Cmd& c) {
    const int type = static_cast<int>(c.i("type", 2)), ver = static_cast<int>(c.i("ver", 4));
    const Bytes key0 = unhex(c.s("key")), key2 = unhex(c.s("key2"));
    const auto seed = static_cast<std::uint64_t>(c.i("seed", 1));
    const auto msg = make_message(type, ver, seed);
    const Bytes pristine = protocol::encode_signed(msg, key0);
    const Bytes other = protocol::encode_signed(make_message(type, ver, seed + 1000003), key0);
    for (auto& mut : split_list(c.s("muts", "pristine"))) {
        Bytes buf = pristine, key = key0;
        // a "+"-joined chain applies several mutations in order
        bool ok = true;
        for (auto& one : split_list(mut, '+')) ok = ok && mutate(one, buf, key, key2, other);
        if (!ok) continue;
        emit_signed(mut, type, key, buf);
    }
}
static void do_signedraw(const ev::Cmd& c) {
    emit_signed(c.s("kind", "raw"), 0, unhex(c.s("key")), unhex(c.s("buf")));
}

int main(int argc, char** argv) {
    if (argc < 3) { std::fprintf(stderr, "usage: crypto <script> <trace-out>\n"); return 2; }
    std::ifstream in(argv[1]);
    if (!in) { std::perror(argv[1]); return 2; }
    ev::open(argv[2]);
    ev::Cmd c;
    while (ev::read_cmd(in, c)) {
        ++g_line;
        if (c.op == "sha") do_sha(c);
        else if (c.op == "shasplit") do_shasplit(c);
        else if (c.op == "hmac") do_hmac(c);
        else if (c.op == "chacha") do_chacha(c);
        else if (c.op == "chachal") do_chachal(c);
        else if (c.op == "encwk") do_encwk(c);
        else if (c.op == "decwk") do_decwk(c);
        else if (c.op == "signed") do_signed(c);
        else if (c.op == "signedraw") do_signedraw(c);
        else { std::fprintf(stderr, "crypto: unknown command %s\n", c.op.c_str()); return 2; }
    }
    std::fflush(ev::out());
    return 0;
}
