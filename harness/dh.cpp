// Driver for the real Diffie-Hellman handshake code (C12).   dh <script> <trace-out>
//   validate c=<u32>                       KeyExchange::validate_public
//   kx a=<u32> b=<u32>                     compute_public / derive_shared_secret both ways, plus the
//                                          raw modexp values (private static member, reached legally
//                                          through an explicit-instantiation accessor)
//   hs seeda= seedb= ida= idb= order=ab|ba pow=<bits>
//                                          two real Nodes (identity seeds, peer ids) exchange
//                                          PoW-stamped handshakes through Node::perform_handshake in
//                                          the given order; both session keys are logged
//   hsbad seed= id= c=<u32> pow=0          one real Node is offered candidate public value c
// 32-bit quantities are logged as [hi16, lo16] (TLC integers are 32-bit signed).
#include <memory>
#include "common/ev.hpp"
#include "common/vclock.hpp"
#include "common/vrng.hpp"
#include "ephemeralnet/core/Node.hpp"
#include "ephemeralnet/network/KeyExchange.hpp"

using namespace ephemeralnet;
using network::KeyExchange;

// ---- access to KeyExchange::modexp (private static) without touching the repo -----------------
namespace steal {
using ModexpFn = std::uint32_t (*)(std::uint64_t, std::uint32_t, std::uint32_t);
ModexpFn get_modexp();
template <ModexpFn F> struct Grab { friend ModexpFn get_modexp() { return F; } };
template struct Grab<&KeyExchange::modexp>;
}
namespace ephemeralnet::test {
class NodeTestAccess {
public:
    static std::uint32_t scalar(const Node& n) { return n.identity_scalar_; }
};
}

static std::string limbs(std::uint32_t v) { return "[" + std::to_string(v >> 16) + "," + std::to_string(v & 0xffffu) + "]"; }
static std::uint32_t u32(const ev::Cmd& c, const char* k) { return static_cast<std::uint32_t>(std::strtoull(c.s(k, "0").c_str(), nullptr, 10)); }
static PeerId peer_id(long n) {
    // deterministic, spread over all 32 bytes (peer ids are arbitrary 256-bit values)
    PeerId id{};
    std::uint64_t s = static_cast<std::uint64_t>(n) * 0x9E3779B97F4A7C15ull + 0x1234567ull;
    for (auto& b : id) { s ^= s << 13; s ^= s >> 7; s ^= s << 17; b = static_cast<std::uint8_t>(s >> 24); }
    if (n >= 0 && n < 4) { id.fill(static_cast<std::uint8_t>(n == 0 ? 0x00 : n == 1 ? 0xff : n == 2 ? 0x01 : 0x80)); }
    return id;
}
static Config cfg(std::uint32_t seed, int pow) {
    Config c{};
    c.identity_seed = seed;
    c.handshake_pow_difficulty = static_cast<std::uint8_t>(pow);
    return c;
}
template <class K> static void key_field(ev::Ev& e, const char* k, const std::optional<K>& key) {
    if (key) e.bytes(k, *key); else e.raw(k, "[]");
}

int main(int argc, char** argv) {
    if (argc < 3) { std::fprintf(stderr, "usage: dh <script> <trace>\n"); return 2; }
    std::ifstream in(argv[1]);
    if (!in) { std::perror(argv[1]); return 2; }
    ev::open(argv[2]);
    const auto modexp = steal::get_modexp();
    ev::Cmd c;
    long line = 0;
    while (ev::read_cmd(in, c)) {
        ++line;
        if (c.op == "reset") { ev::Ev("reset").i("line", line).emit(); continue; }
        {
            std::string txt = c.op;
            for (const auto& kv : c.kv) txt += " " + kv.first + "=" + kv.second;
            ev::Ev("cmd").s("text", txt).emit();
        }
        if (c.op == "validate") {
            const auto v = u32(c, "c");
            ev::Ev("validate").raw("c", limbs(v)).b("res", KeyExchange::validate_public(v)).emit();
        } else if (c.op == "kx") {
            const auto a = u32(c, "a"), b = u32(c, "b");
            const auto pa = KeyExchange::compute_public(a), pb = KeyExchange::compute_public(b);
            const auto kp = KeyExchange::make_keypair(a);
            const auto sab = modexp(pb % KeyExchange::kPrime, a, KeyExchange::kPrime);
            const auto sba = modexp(pa % KeyExchange::kPrime, b, KeyExchange::kPrime);
            const auto ka = KeyExchange::derive_shared_secret(a, pb);
            const auto kb = KeyExchange::derive_shared_secret(b, pa);
            ev::Ev("kx").raw("a", limbs(a)).raw("b", limbs(b)).raw("pa", limbs(pa)).raw("pb", limbs(pb)).raw("kp", limbs(kp.public_key))
                .raw("sab", limbs(sab)).raw("sba", limbs(sba)).bytes("ka", ka.bytes).bytes("kb", kb.bytes)
                .b("va", KeyExchange::validate_public(pa)).b("vb", KeyExchange::validate_public(pb)).emit();
        } else if (c.op == "hs") {
            const int pow = static_cast<int>(c.i("pow", 4));
            vclock::advance_ms(c.i("adv", 1000));
            Node na(peer_id(c.i("ida")), cfg(u32(c, "seeda"), pow));
            Node nb(peer_id(c.i("idb")), cfg(u32(c, "seedb"), pow));
            const auto wa = na.generate_handshake_work(nb.id());   // A's stamp for B
            const auto wb = nb.generate_handshake_work(na.id());
            bool oka = false, okb = false;
            const bool ab = c.s("order", "ab") == "ab";
            if (wa && wb) {
                if (ab) { oka = na.perform_handshake(nb.id(), nb.public_identity(), *wb); okb = nb.perform_handshake(na.id(), na.public_identity(), *wa); }
                else    { okb = nb.perform_handshake(na.id(), na.public_identity(), *wa); oka = na.perform_handshake(nb.id(), nb.public_identity(), *wb); }
            }
            std::unique_ptr<Node> nb2;
            Node* pb = &nb;
            if (c.i("rehs", 0) && oka && okb) {
                // the session outlives a key rotation at A, B restarts with the same identity, both handshake again:
                // having accepted each other's handshake they must hold one key again
                vclock::advance_s(c.i("rotwait", 301));
                na.tick();
                // seedb2: the peer comes back under the same peer id with ANOTHER identity seed (a daemon restarted without a pinned seed)
                nb2 = std::make_unique<Node>(peer_id(c.i("idb")), cfg(c.has("seedb2") ? u32(c, "seedb2") : u32(c, "seedb"), pow));
                pb = nb2.get();
                const auto wa2 = na.generate_handshake_work(pb->id());
                const auto wb2 = pb->generate_handshake_work(na.id());
                oka = okb = false;
                if (wa2 && wb2) {
                    if (ab) { oka = na.perform_handshake(pb->id(), pb->public_identity(), *wb2); okb = pb->perform_handshake(na.id(), na.public_identity(), *wa2); }
                    else    { okb = pb->perform_handshake(na.id(), na.public_identity(), *wa2); oka = na.perform_handshake(pb->id(), pb->public_identity(), *wb2); }
                }
            }
            Node& nbr = *pb;
            ev::Ev e("hs");
            e.i("rehs", c.i("rehs", 0)).i("rekey", c.has("seedb2") ? 1 : 0).i("seeda", u32(c, "seeda") & 0x7fffffff).i("ida", c.i("ida")).i("idb", c.i("idb")).s("order", ab ? "ab" : "ba").i("pow", pow)
                .b("work", wa.has_value() && wb.has_value())
                .raw("sca", limbs(test::NodeTestAccess::scalar(na))).raw("scb", limbs(test::NodeTestAccess::scalar(nbr)))
                .raw("puba", limbs(na.public_identity())).raw("pubb", limbs(nbr.public_identity())).b("oka", oka).b("okb", okb);
            key_field(e, "keya", na.session_key(nbr.id()));
            key_field(e, "keyb", nbr.session_key(na.id()));
            e.emit();
        } else if (c.op == "hsbad") {
            const int pow = static_cast<int>(c.i("pow", 0));
            vclock::advance_ms(1000);
            Node na(peer_id(c.i("id")), cfg(u32(c, "seed"), pow));
            const auto cand = u32(c, "c");
            const auto other = peer_id(c.i("id") + 1000);
            const bool ok = na.perform_handshake(other, cand, static_cast<std::uint64_t>(c.i("nonce", 0)));
            ev::Ev e("hsbad");
            e.raw("c", limbs(cand)).i("pow", pow).b("ok", ok);
            key_field(e, "key", na.session_key(other));
            const auto last = na.last_handshake_success(other);
            e.b("marked", last.has_value() && *last).emit();
        }
    }
    std::fflush(ev::out());
    return 0;
}
