// Driver for the real KademliaTable (C06 provider records, C07 routing table).
//   dht <script> <trace-out>
// Script (see common/ev.hpp), ids are 64 hex digits:
//   reset self=<id>                         new table, virtual clock back to 0
//   add c=<n> p=<id> a=<n> ttl=<seconds>    add_contact(chunk n, {p, address a}, ttl)
//   withdraw c=<n> p=<id>                   withdraw_contact
//   find c=<n>                              find_providers
//   sweep                                   sweep_expired
//   reg p=<id> a=<n> exp=<ms>|none          register_peer({p, address a, expires_at}); none = default time point
//   closest tg=<id> k=<n>                   closest_peers(tg, k)
//   adv ms=<n>                              advance the virtual clock
// Trace: one ndjson event per call with the arguments, the result and a projection of the
// table taken AFTER the call: "loc" = snapshot_locators() as [[chunk, locator expiry, [[peer, expiry]..]]..],
// "bk" = the buckets as [[bucket index, position, peer, address, expiry]..].  256-bit ids are
// interned: {"op":"id","n":k,"bytes":[32 bytes]} precedes the first event that mentions id k.
// Times are milliseconds of virtual time since the behaviour started.  The hex form of the
// ids an event names (selfhex / ph / tgh) is logged too, so that a behaviour cut out of a trace
// can be turned back into a script (tools/check Cxx --replay).
//
// buckets_ is private and has no public projection; it is read through the explicit-
// instantiation idiom (access checks do not apply to explicit template instantiation
// arguments), so the repository needs no hook for this driver.
#include "common/ev.hpp"
#include "common/vclock.hpp"
#include "common/vrng.hpp"
#include "ephemeralnet/dht/KademliaTable.hpp"

#include <algorithm>
#include <memory>

using namespace ephemeralnet;

namespace peek {
using BucketsT = std::array<std::deque<PeerContact>, 256>;
template <class Tag, typename Tag::type M> struct Rob { friend typename Tag::type get(Tag) { return M; } };
struct BucketsTag { using type = BucketsT KademliaTable::*; friend type get(BucketsTag); };
template struct Rob<BucketsTag, &KademliaTable::buckets_>;
static const BucketsT& buckets(const KademliaTable& t) { return t.*get(BucketsTag{}); }
}

static long long clamp32(long long v) { return std::max(-2000000000LL, std::min(2000000000LL, v)); }
static long long to_ms(std::chrono::steady_clock::time_point tp) {
    long long ns = vclock::steady_to_ns(tp);
    long long q = ns / 1'000'000LL; if (ns % 1'000'000LL < 0) --q;
    return clamp32(q);
}
static std::string hex_of(const std::array<std::uint8_t, 32>& a) {
    static const char* d = "0123456789abcdef"; std::string s;
    for (auto b : a) { s += d[b >> 4]; s += d[b & 15]; }
    return s;
}
static std::array<std::uint8_t, 32> parse_id(const std::string& h) {
    std::array<std::uint8_t, 32> a{};
    if (h.size() != 64) { std::fprintf(stderr, "dht: id must be 64 hex digits: %s\n", h.c_str()); std::exit(2); }
    auto v = [](char c) { return c <= '9' ? c - '0' : (c | 32) - 'a' + 10; };
    for (int i = 0; i < 32; ++i) a[i] = static_cast<std::uint8_t>(v(h[2 * i]) * 16 + v(h[2 * i + 1]));
    return a;
}
static std::string addr_of(long long a) { return "10.0." + std::to_string((a / 256) % 256) + "." + std::to_string(a % 256) + ":4000"; }
static long long addr_index(const std::string& s) {
    unsigned x = 0, y = 0;
    if (std::sscanf(s.c_str(), "10.0.%u.%u:4000", &x, &y) == 2 && addr_of(x * 256 + y) == s) return x * 256 + y;
    return -1;
}

struct Driver {
    std::unique_ptr<KademliaTable> table;
    std::map<std::string, long long> ids;       // hex -> interned index (1-based), per behaviour
    std::map<std::string, long long> chunk_of;  // chunk key -> small chunk number

    static ChunkId cid(long long c) { return ev::id32(c, 0xC0); }

    long long intern(const std::array<std::uint8_t, 32>& id) {
        auto h = hex_of(id);
        auto it = ids.find(h);
        if (it != ids.end()) return it->second;
        long long n = static_cast<long long>(ids.size()) + 1;
        ids[h] = n;
        ev::Ev e("id"); e.i("n", n).bytes("bytes", id); e.emit();
        return n;
    }
    long long chunk_no(const ChunkId& id) {
        auto it = chunk_of.find(chunk_id_to_string(id));
        return it == chunk_of.end() ? -1 : it->second;
    }
    std::string contacts_json(const std::vector<PeerContact>& v) {
        std::vector<std::string> js;
        for (auto& c : v) {
            long long n = intern(c.id);
            js.push_back("[" + std::to_string(n) + "," + std::to_string(addr_index(c.address)) + "," + std::to_string(to_ms(c.expires_at)) + "]");
        }
        return ev::jlist(js);
    }
    // projection of the table after the call (ids are interned first: "id" events must precede)
    void project(std::string& loc, std::string& bk) {
        std::vector<std::pair<long long, std::string>> ls;
        for (auto& l : table->snapshot_locators()) {
            std::vector<std::pair<long long, long long>> hs;
            for (auto& h : l.holders) hs.emplace_back(intern(h.id), to_ms(h.expires_at));
            std::vector<std::string> hj;
            for (auto& [p, x] : hs) hj.push_back("[" + std::to_string(p) + "," + std::to_string(x) + "]");
            ls.emplace_back(chunk_no(l.id), "[" + std::to_string(chunk_no(l.id)) + "," + std::to_string(to_ms(l.expires_at)) + "," + ev::jlist(hj) + "]");
        }
        std::sort(ls.begin(), ls.end());
        std::vector<std::string> lj; for (auto& x : ls) lj.push_back(x.second);
        loc = ev::jlist(lj);
        std::vector<std::string> bj;
        const auto& b = peek::buckets(*table);
        for (std::size_t i = 0; i < b.size(); ++i) {
            long long pos = 0;
            for (auto& c : b[i]) {
                ++pos;
                long long n = intern(c.id);
                bj.push_back("[" + std::to_string(i) + "," + std::to_string(pos) + "," + std::to_string(n) + "," + std::to_string(addr_index(c.address)) + "," + std::to_string(to_ms(c.expires_at)) + "]");
            }
        }
        bk = ev::jlist(bj);
    }
    void finish(ev::Ev& e) {
        std::string loc, bk; project(loc, bk);
        e.i("t", vclock::now_ns() / 1'000'000LL).raw("loc", loc).raw("bk", bk); e.emit();
    }

    void run(const ev::Cmd& c) {
        if (c.op == "reset") {
            ids.clear(); chunk_of.clear();
            for (long long k = 0; k < 64; ++k) chunk_of[chunk_id_to_string(cid(k))] = k;
            vclock::set_ns(0);
            auto self = parse_id(c.s("self"));
            table = std::make_unique<KademliaTable>(self, Config{});
            long long n = intern(self);
            ev::Ev e("reset"); e.i("self", n).s("selfhex", hex_of(self)); finish(e);
            return;
        }
        if (!table) { std::fprintf(stderr, "dht: script must start with reset\n"); std::exit(2); }
        if (c.op == "add") {
            PeerContact pc; pc.id = parse_id(c.s("p")); pc.address = addr_of(c.i("a"));
            long long n = intern(pc.id);
            table->add_contact(cid(c.i("c")), pc, std::chrono::seconds(c.i("ttl")));
            ev::Ev e("add"); e.i("c", c.i("c")).i("p", n).s("ph", hex_of(pc.id)).i("a", c.i("a")).i("ttl", clamp32(c.i("ttl") * 1000)); finish(e);
        } else if (c.op == "withdraw") {
            auto id = parse_id(c.s("p")); long long n = intern(id);
            table->withdraw_contact(cid(c.i("c")), id);
            ev::Ev e("withdraw"); e.i("c", c.i("c")).i("p", n).s("ph", hex_of(id)); finish(e);
        } else if (c.op == "find") {
            auto res = table->find_providers(cid(c.i("c")));
            auto rj = contacts_json(res);
            ev::Ev e("find"); e.i("c", c.i("c")).raw("res", rj); finish(e);
        } else if (c.op == "sweep") {
            table->sweep_expired();
            ev::Ev e("sweep"); finish(e);
        } else if (c.op == "reg") {
            PeerContact pc; pc.id = parse_id(c.s("p")); pc.address = addr_of(c.i("a"));
            long long n = intern(pc.id);
            bool none = c.s("exp", "none") == "none";
            if (!none) pc.expires_at = std::chrono::steady_clock::time_point(std::chrono::nanoseconds(vclock::kSteadyEpochNs + c.i("exp") * 1'000'000LL));
            table->register_peer(pc);
            ev::Ev e("reg"); e.i("p", n).s("ph", hex_of(pc.id)).i("a", c.i("a")).b("given", !none).i("exp", none ? 0 : clamp32(c.i("exp"))); finish(e);
        } else if (c.op == "closest") {
            auto tg = parse_id(c.s("tg")); long long n = intern(tg);
            auto res = static_cast<const KademliaTable&>(*table).closest_peers(tg, static_cast<std::size_t>(c.i("k")));
            auto rj = contacts_json(res);
            ev::Ev e("closest"); e.i("tg", n).s("tgh", hex_of(tg)).i("k", c.i("k")).raw("res", rj); finish(e);
        } else if (c.op == "adv") {
            vclock::advance_ms(c.i("ms"));
            ev::Ev e("adv"); e.i("ms", c.i("ms")); finish(e);
        } else {
            std::fprintf(stderr, "dht: unknown op %s\n", c.op.c_str()); std::exit(2);
        }
    }
};

int main(int argc, char** argv) {
    if (argc < 3) { std::fprintf(stderr, "usage: dht <script> <trace>\n"); return 2; }
    std::ifstream in(argv[1]);
    if (!in) { std::perror(argv[1]); return 2; }
    ev::open(argv[2]);
    Driver d;
    ev::Cmd c;
    while (ev::read_cmd(in, c)) d.run(c);
    std::fflush(ev::out());
    return 0;
}
