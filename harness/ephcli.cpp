// The real `eph` command-line binary, built from the current tree ($(REPO)/src/main.cpp + daemon objects), for the
// end-to-end part of C32 (thorough tier): `ephcli ... serve` as a subprocess, then `ephcli ... defaults` / `stop`.
// The harness-wide clock interposition is switched to the real clocks before main() runs.
#include "common/vclock.hpp"
namespace { struct RealClock { RealClock() { vclock::use_real(true); } } g_real_clock; }
#include EPH_MAIN_CPP
