// Driver for C35 (no remote input can crash node or daemon).
//   inputs <script> <trace-out> <workdir>
// A real Node with an in-process real ControlServer (loopback). Adversarial, validly signed protocol
// messages are delivered (a) on the driver thread through Node::handle_transport_message (an escaping
// exception is caught and logged as "threw": on a session reader thread it would be std::terminate) or
// (b) with "sock=1" as encrypted frames over the adopted peer session, so the node's own reader thread
// handles them (std::terminate is intercepted, logged, and ends the run). Control requests are raw bytes
// on a TCP connection to the control port. After every step a probe checks that the daemon still answers
// PING and the node still serves an honest peer.
#include <thread>
#include <atomic>
#include "common/ev.hpp"
#include "common/vclock.hpp"
#include "common/vrng.hpp"
#include "ephemeralnet/core/Node.hpp"
#include "ephemeralnet/daemon/ControlPlane.hpp"
#include "ephemeralnet/crypto/ChaCha20.hpp"
#include "ephemeralnet/crypto/HmacSha256.hpp"
#include "ephemeralnet/protocol/Manifest.hpp"
#include "ephemeralnet/protocol/Message.hpp"

#include <arpa/inet.h>
#include <netinet/in.h>
#include <sys/socket.h>
#include <fcntl.h>
#include <poll.h>
#include <unistd.h>
#include <filesystem>
#include <memory>
#include <typeinfo>
#include <cxxabi.h>

using namespace ephemeralnet;
namespace ephemeralnet::test {
class NodeTestAccess {
public:
    static auto& sessions(Node& n) { return n.sessions_; }
    static void deliver(Node& n, const network::TransportMessage& m) { n.handle_transport_message(m); }
};
}
using Acc = ephemeralnet::test::NodeTestAccess;
static ChunkId cid(long c) { return ev::id32(c, 0xC0); }
static PeerId pid(long p) { return ev::id32(p, 0xA0); }
static std::vector<std::uint8_t> payload_bytes(long k) { std::vector<std::uint8_t> v(static_cast<size_t>(20 + k)); for (size_t i = 0; i < v.size(); ++i) v[i] = static_cast<std::uint8_t>(1 + (k * 31 + i * 7) % 255); return v; }

static std::string g_last_op = "none";
static std::atomic<long> g_progress{0};      // bumped at the start of every script operation (watchdog: an operation that never returns is a hang)

struct Driver {
    std::unique_ptr<Node> a, b;
    std::mutex node_mutex;
    std::unique_ptr<daemon::ControlServer> server;
    std::uint16_t port = 0;
    std::map<long, int> stub;
    std::string dir;
    bool stopped = false;
    std::map<long, std::vector<std::uint8_t>> last_cipher;
    std::string own_manifest;   // manifest of chunk 9 stored by the node itself
    std::uint16_t tport = 0;    // the node's transport listener (pre-handshake inputs)

    // structurally hostile encodings: valid ANNOUNCE / CHUNK / REQUEST encodings whose 32-bit words are replaced by
    // extreme values, singly and in pairs (pairs of 0x80000000 make length sums wrap modulo 2^32)
    std::vector<std::vector<std::uint8_t>> crafted_;
    const std::vector<std::vector<std::uint8_t>>& crafted() {
        if (!crafted_.empty()) return crafted_;
        std::vector<std::vector<std::uint8_t>> bases;
        { protocol::AnnouncePayload ap{}; ap.chunk_id = cid(3); ap.peer_id = pid(5); ap.endpoint = "127.0.0.1:2001"; ap.ttl = std::chrono::seconds(60);
          ap.manifest_uri = manifest_uri(3, "ok"); ap.assigned_shards = {1, 2};
          for (std::uint8_t v : {std::uint8_t{4}, std::uint8_t{2}}) { protocol::Message m{}; m.version = v; m.type = protocol::MessageType::Announce; m.payload = ap; bases.push_back(protocol::encode(m)); } }
        { protocol::ChunkPayload cp{}; cp.chunk_id = cid(3); cp.data = std::vector<std::uint8_t>(40, 7); cp.ttl = std::chrono::seconds(60);
          protocol::Message m{}; m.type = protocol::MessageType::Chunk; m.payload = cp; bases.push_back(protocol::encode(m)); }
        { protocol::Message m{}; m.type = protocol::MessageType::Request; m.payload = protocol::RequestPayload{cid(3), pid(5)}; bases.push_back(protocol::encode(m)); }
        const std::uint32_t vals[] = {0x80000000u, 0xFFFFFFFFu, 0x7FFFFFFFu, 0xFFFFFFF0u, 0x00100001u};
        auto put = [](std::vector<std::uint8_t>& b, size_t off, std::uint32_t v) { if (off + 4 <= b.size()) { b[off] = v >> 24; b[off + 1] = v >> 16; b[off + 2] = v >> 8; b[off + 3] = v; } };
        for (auto& base : bases) {
            const size_t words = std::min<size_t>(24, (base.size() - 2) / 4);
            for (size_t i = 0; i < words; ++i) for (auto v : vals) { auto b = base; put(b, 2 + 4 * i, v); crafted_.push_back(b); }
            for (size_t i = 0; i < std::min<size_t>(words, 10); ++i) for (size_t j = i + 1; j < std::min<size_t>(words, 10); ++j) {
                auto b = base; put(b, 2 + 4 * i, 0x80000000u); put(b, 2 + 4 * j, 0x80000000u); crafted_.push_back(b);
                auto b2 = base; put(b2, 2 + 4 * i, 0xFFFFFFFFu); put(b2, 2 + 4 * j, 0x00000002u); crafted_.push_back(b2);
            }
            for (size_t cut : {size_t{1}, size_t{2}, size_t{3}, base.size() / 2, base.size() - 1}) crafted_.push_back(std::vector<std::uint8_t>(base.begin(), base.begin() + cut));
        }
        return crafted_;
    }   // ciphertext matching the last manifest made for chunk c

    static std::uint16_t free_port() {
        int s = ::socket(AF_INET, SOCK_STREAM, 0);
        sockaddr_in ad{}; ad.sin_family = AF_INET; ad.sin_addr.s_addr = htonl(INADDR_LOOPBACK); ad.sin_port = 0;
        ::bind(s, reinterpret_cast<sockaddr*>(&ad), sizeof ad);
        socklen_t l = sizeof ad; getsockname(s, reinterpret_cast<sockaddr*>(&ad), &l); ::close(s);
        return ntohs(ad.sin_port);
    }
    void ensure_stub(long p) {
        if (stub.count(p)) return;
        crypto::Key secret{}; for (size_t i = 0; i < 32; ++i) secret.bytes[i] = static_cast<std::uint8_t>(p * 17 + i);
        a->register_shared_secret(pid(p), secret);
        auto key = a->session_key(pid(p));
        int sv[2]; if (socketpair(AF_UNIX, SOCK_STREAM, 0, sv) != 0) std::exit(2);
        Acc::sessions(*a).register_peer_key(pid(p), *key);
        if (!Acc::sessions(*a).adopt_outbound_socket(pid(p), sv[0], true)) std::exit(2);
        fcntl(sv[1], F_SETFL, fcntl(sv[1], F_GETFL) | O_NONBLOCK);
        stub[p] = sv[1];
    }
    std::vector<protocol::Message> drain(long p, int wait_ms = 5) {
        std::vector<protocol::Message> out; std::vector<std::uint8_t> buf;
        for (int spin = 0; spin < 3; ++spin) {
            std::uint8_t tmp[65536]; ssize_t n;
            while ((n = ::read(stub[p], tmp, sizeof tmp)) > 0) buf.insert(buf.end(), tmp, tmp + n);
            pollfd pf{stub[p], POLLIN, 0}; if (poll(&pf, 1, spin == 0 ? wait_ms : 1) <= 0) break;
        }
        auto key = a->session_key(pid(p)); size_t off = 0;
        while (key && buf.size() - off >= 16) {
            crypto::Nonce nonce{}; std::copy(buf.begin() + off, buf.begin() + off + 12, nonce.bytes.begin());
            std::uint32_t len = (buf[off + 12] << 24) | (buf[off + 13] << 16) | (buf[off + 14] << 8) | buf[off + 15];
            if (buf.size() - off - 16 < len) break;
            std::vector<std::uint8_t> ct(buf.begin() + off + 16, buf.begin() + off + 16 + len), pt(len);
            crypto::Key k{}; k.bytes = *key; crypto::ChaCha20::apply(k, nonce, ct, pt, 0u);
            if (auto m = protocol::decode_signed(pt, std::span<const std::uint8_t>(key->data(), key->size()))) out.push_back(*m);
            off += 16 + len;
        }
        return out;
    }
    // what peer p sends: signed protocol message bytes
    std::vector<std::uint8_t> sign(long p, const protocol::Message& m) {
        auto key = a->session_key(pid(p));
        return protocol::encode_signed(m, std::span<const std::uint8_t>(key->data(), key->size()));
    }
    // deliver raw bytes from peer p; returns outcome
    std::string deliver(long p, const std::vector<std::uint8_t>& bytes, bool via_socket, std::string& exc) {
        ensure_stub(p); drain(p, 0);
        if (via_socket) {
            auto key = a->session_key(pid(p)); crypto::Key k{}; k.bytes = *key;
            crypto::Nonce nonce{}; for (auto& x : nonce.bytes) x = static_cast<std::uint8_t>(vrng::next64());
            std::vector<std::uint8_t> ct(bytes.size()); crypto::ChaCha20::apply(k, nonce, bytes, ct, 0u);
            std::vector<std::uint8_t> frame(nonce.bytes.begin(), nonce.bytes.end());
            std::uint32_t len = static_cast<std::uint32_t>(ct.size());
            frame.push_back(len >> 24); frame.push_back(len >> 16); frame.push_back(len >> 8); frame.push_back(len);
            frame.insert(frame.end(), ct.begin(), ct.end());
            fcntl(stub[p], F_SETFL, fcntl(stub[p], F_GETFL) & ~O_NONBLOCK);
            size_t off = 0; while (off < frame.size()) { ssize_t n = ::write(stub[p], frame.data() + off, frame.size() - off); if (n <= 0) break; off += n; }
            fcntl(stub[p], F_SETFL, fcntl(stub[p], F_GETFL) | O_NONBLOCK);
            auto msgs = drain(p, 60);
            return classify(msgs);
        }
        try {
            network::TransportMessage tm{}; tm.peer_id = pid(p); tm.payload = bytes; tm.endpoint = "stub";
            Acc::deliver(*a, tm);
        } catch (const std::exception& e) {
            int st = 0; char* dn = abi::__cxa_demangle(typeid(e).name(), nullptr, nullptr, &st);
            exc = std::string(dn ? dn : typeid(e).name()) + ": " + e.what(); std::free(dn);
            return "threw";
        } catch (...) { exc = "non-std exception"; return "threw"; }
        return classify(drain(p, 2));
    }
    static std::string classify(const std::vector<protocol::Message>& msgs) {
        std::string r = "ignored";
        for (auto& m : msgs) {
            if (m.type == protocol::MessageType::Chunk) r = "served";
            else if (m.type == protocol::MessageType::Acknowledge) { if (auto* ap = std::get_if<protocol::AcknowledgePayload>(&m.payload)) r = ap->accepted ? "acked" : "nak"; }
        }
        return r;
    }
    // raw control request; returns first line of the response ("" = connection closed without an answer)
    std::string control(const std::string& req, bool half_close = true, int timeout_ms = 3000) {
        int s = ::socket(AF_INET, SOCK_STREAM, 0);
        sockaddr_in ad{}; ad.sin_family = AF_INET; ad.sin_addr.s_addr = htonl(INADDR_LOOPBACK); ad.sin_port = htons(port);
        if (::connect(s, reinterpret_cast<sockaddr*>(&ad), sizeof ad) != 0) { ::close(s); return "connect-failed"; }
        size_t off = 0; while (off < req.size()) { ssize_t n = ::send(s, req.data() + off, req.size() - off, MSG_NOSIGNAL); if (n <= 0) break; off += n; }
        if (half_close) ::shutdown(s, SHUT_WR);
        std::string resp; char buf[4096];
        for (;;) { pollfd pf{s, POLLIN, 0}; if (poll(&pf, 1, timeout_ms) <= 0) break; ssize_t n = ::recv(s, buf, sizeof buf, 0); if (n <= 0) break; resp.append(buf, n); if (resp.size() > 1 << 20) break; }
        ::close(s);
        auto nl = resp.find('\n');
        return nl == std::string::npos ? resp : resp.substr(0, nl);
    }

    protocol::Manifest base_manifest(long c, long b_idx, std::vector<std::uint8_t>* cipher = nullptr) {
        auto m = b->store_chunk(cid(c), payload_bytes(b_idx), std::chrono::seconds(3600));
        if (cipher) { auto r = b->export_chunk_record(cid(c)); if (r) *cipher = r->data; }
        m.discovery_hints.clear(); m.fallback_hints.clear();
        return m;
    }
    // discovery hints a remote manifest can carry (attacker-chosen texts): walked when the direct attempt at the announcer fails
    static void add_hints(protocol::Manifest& m, const std::string& kind, const PeerId& announcer) {
        auto hint = [&](const std::string& scheme, const std::string& transport, const std::string& ep, int prio) {
            protocol::DiscoveryHint h{}; h.scheme = scheme; h.transport = transport; h.endpoint = ep; h.priority = static_cast<std::uint8_t>(prio); m.discovery_hints.push_back(h); };
        const std::string peer = peer_id_to_string(announcer);
        if (kind == "relay" || kind == "mixed") hint("relay", "relay", "127.0.0.1:9?peer=" + peer, 1);
        if (kind == "relaybad" || kind == "mixed") { hint("relay", "relay", "", 2); hint("relay", "tcp", "127.0.0.1:99999999999999999999?peer=zz", 3); hint("x", "relay", ":::?peer=", 4);
                                                     hint("relay", "relay", "127.0.0.1:9?peer=" + std::string(200, 'f'), 5); }
        if (kind == "control" || kind == "mixed") hint("control", "control", "127.0.0.1:1", 6);
        if (kind == "mixed") { hint("transport", "tcp", "127.0.0.1:0", 7); hint("", "", "", 8); protocol::FallbackHint f{}; f.uri = "control://127.0.0.1:1"; f.priority = 1; m.fallback_hints.push_back(f); }
    }
    std::string manifest_uri(long c, const std::string& cls, std::vector<std::uint8_t>* cipher = nullptr, const std::string& hints = "none", const PeerId& announcer = PeerId{}) {
        if (cls == "garbage") return "eph://!!!not-base64!!!";
        if (cls == "empty") return "";
        std::vector<std::uint8_t> ct;
        auto m = base_manifest(c, c, &ct);
        last_cipher[c] = ct;
        if (cipher) *cipher = ct;
        if (cls == "dupidx" && m.shards.size() >= 2) m.shards[1].index = m.shards[0].index;
        if (cls == "zeroidx" && !m.shards.empty()) m.shards[0].index = 0;
        if (cls == "thr0") m.threshold = 0;
        if (cls == "thrbig") m.threshold = static_cast<std::uint8_t>(m.shards.size() + 1);
        if (cls == "expired") m.expires_at = std::chrono::system_clock::now() - std::chrono::seconds(10);
        if (hints != "none") add_hints(m, hints, announcer);
        if (cls == "s255") { while (m.shards.size() < 255) { auto s = m.shards.back(); s.index = static_cast<std::uint8_t>(m.shards.size() + 1); m.shards.push_back(s); } m.total_shares = 255; }
        return protocol::encode_manifest(m);
    }

    void probe(ev::Ev& e) {
        bool ping = control("COMMAND:PING\n\n").rfind("STATUS:OK", 0) == 0;
        // honest peer 2 asks for chunk 9, stored at reset
        ensure_stub(2); drain(2, 0);
        protocol::Message rq{}; rq.type = protocol::MessageType::Request; rq.payload = protocol::RequestPayload{cid(9), pid(2)};
        std::string exc; auto out = deliver(2, sign(2, rq), false, exc);
        // acknowledge so the upload slot is released
        protocol::Message ack{}; ack.type = protocol::MessageType::Acknowledge; ack.payload = protocol::AcknowledgePayload{cid(9), pid(2), true};
        std::string exc2; deliver(2, sign(2, ack), false, exc2);
        e.b("ping", ping).b("serves", out == "served").s("probe_out", out);
    }

    void run(const ev::Cmd& c) {
        g_last_op = c.op; ++g_progress;
        if (c.op == "reset") {
            server.reset(); for (auto& [p, fd] : stub) ::close(fd); stub.clear();
            if (a) { for (int i = 0; i < 3000 && Acc::sessions(*a).active_session_count() != 0; ++i) usleep(1000); usleep(2000); }
            a.reset(); b.reset();
            vclock::set_ns(0);
            Config cfg{}; cfg.identity_seed = 0x1234u; cfg.announce_pow_difficulty = 0; cfg.handshake_pow_difficulty = 0; cfg.store_pow_difficulty = 0;
            // relaying is left as the shipped default (enabled, no relay endpoint listed: the node has no relay client) unless relay=off
            if (c.s("relay", "default") == "off") cfg.relay_enabled = false;
            cfg.nat_stun_enabled = false; cfg.min_manifest_ttl = std::chrono::seconds(2);
            cfg.announce_min_interval = std::chrono::seconds(1); cfg.announce_burst_limit = 1000000; cfg.announce_burst_window = std::chrono::seconds(1);
            cfg.upload_max_parallel_transfers = 0; cfg.upload_max_transfers_per_peer = 0;
            cfg.shard_threshold = 2; cfg.shard_total = 3;
            a = std::make_unique<Node>(pid(0), cfg);
            Config bc = cfg; bc.identity_seed = 0x4321u; b = std::make_unique<Node>(pid(40), bc);
            own_manifest = protocol::encode_manifest(a->store_chunk(cid(9), std::vector<std::uint8_t>(100000, 0x5a), std::chrono::seconds(3600)));
            a->start_transport(0); tport = a->transport_port(); crafted_.clear();
            stopped = false;
            server = std::make_unique<daemon::ControlServer>(*a, node_mutex, [this] { stopped = true; });
            for (int i = 0; i < 20; ++i) { port = free_port(); try { server->start("127.0.0.1", port); break; } catch (const std::exception&) {} }
            static long bi = 0; ev::Ev e("reset"); e.i("bi", ++bi); probe(e); e.emit();
            return;
        }
        vclock::advance_s(2);   // keep the per-peer announce throttle out of the way (C21 covers it)
        bool sock = c.i("sock", 0) != 0;
        long ch = c.i("c", 1), p = c.i("p", 1);
        std::string out, exc;
        ev::Ev e(c.op);
        if (c.op == "announce") {
            std::string cls = c.s("m", "ok");
            protocol::AnnouncePayload ap{}; ap.chunk_id = cid(cls == "idmismatch" ? ch + 20 : ch); ap.peer_id = pid(p); ap.endpoint = "127.0.0.1:2001";
            ap.ttl = std::chrono::seconds(60); ap.manifest_uri = manifest_uri(ch, cls == "idmismatch" || cls == "assignabsent" ? "ok" : cls, nullptr, c.s("hints", "none"), pid(p));
            if (cls == "assignabsent") ap.assigned_shards = {200};
            if (c.i("assign", 0)) ap.assigned_shards = {1};
            // the endpoint text a peer advertises is attacker-chosen; the node parses it much later (fetch retries once the session is gone)
            const std::string ep = c.s("ep", "ok");
            if (ep == "hugeport") ap.endpoint = "127.0.0.1:99999999999999999999999";
            else if (ep == "port65536") ap.endpoint = "127.0.0.1:65536";
            else if (ep == "port0") ap.endpoint = "127.0.0.1:0";
            else if (ep == "noport") ap.endpoint = "127.0.0.1";
            else if (ep == "emptyport") ap.endpoint = "127.0.0.1:";
            else if (ep == "neg") ap.endpoint = "127.0.0.1:-1";
            else if (ep == "alpha") ap.endpoint = "127.0.0.1:http";
            else if (ep == "colons") ap.endpoint = ":::::";
            else if (ep == "long") ap.endpoint = "127.0.0.1:" + std::string(300, '7');      // (numeric hosts only: no name resolution in the sandbox)
            else if (ep == "nul") ap.endpoint = std::string("a\0b:1\0", 7);
            else if (ep == "v6") ap.endpoint = "[::1]:99999";
            else if (ep == "space") ap.endpoint = " 127.0.0.1 : 80 ";
            protocol::Message m{}; m.type = protocol::MessageType::Announce; m.payload = ap;
            ensure_stub(p); out = deliver(p, sign(p, m), sock, exc);
            e.i("c", ch).s("m", cls).s("ep", ep).s("hints", c.s("hints", "none"));
        } else if (c.op == "peerdrop") {
            // the peer's session ends (its stub closes); what the node learnt from it stays
            if (stub.count(p)) { ::close(stub[p]); stub.erase(p); }
            for (int i = 0; i < 2000 && Acc::sessions(*a).is_connected(pid(p)); ++i) usleep(1000);
            out = "dropped";
        } else if (c.op == "ticks") {
            // the daemon's loop: tick() with time passing (fetch retries, cleanup); an exception out of tick() ends the daemon
            out = "handled";
            for (long i = 0; i < c.i("n", 10) && out == "handled"; ++i) {
                vclock::advance_ms(c.i("ms", 1500));
                try { std::scoped_lock lk(node_mutex); a->tick(); }
                catch (const std::exception& ex) { out = "threw"; exc = ex.what(); }
                catch (...) { out = "threw"; exc = "unknown"; }
            }
        } else if (c.op == "chunk") {
            std::vector<std::uint8_t> cipher = last_cipher.count(ch) ? last_cipher[ch] : payload_bytes(ch);   // matches the last manifest made for ch
            std::string dc = c.s("d", "right");
            if (dc == "wrong" && !cipher.empty()) cipher[0] ^= 0x55;
            if (dc == "empty") cipher.clear();
            if (dc == "huge") cipher.assign(1 << 20, 0x41);
            protocol::ChunkPayload cp{}; cp.chunk_id = cid(ch); cp.data = cipher; cp.ttl = std::chrono::seconds(60);
            protocol::Message m{}; m.type = protocol::MessageType::Chunk; m.payload = cp;
            ensure_stub(p); out = deliver(p, sign(p, m), sock, exc);
            e.i("c", ch).s("d", dc);
        } else if (c.op == "store") {
            try { std::scoped_lock lk(node_mutex); a->store_chunk(cid(ch), payload_bytes(ch), std::chrono::seconds(600)); out = "handled"; }
            catch (const std::exception& ex) { out = "threw"; exc = ex.what(); }
            e.i("c", ch);
        } else if (c.op == "other") {
            long k = c.i("k", 0);
            ensure_stub(p);
            std::vector<std::uint8_t> bytes;
            protocol::Message m{};
            if (k == 0) { m.type = protocol::MessageType::Request; m.payload = protocol::RequestPayload{cid(77), pid(p)}; bytes = sign(p, m); }
            else if (k == 1) { m.type = protocol::MessageType::Acknowledge; m.payload = protocol::AcknowledgePayload{cid(77), pid(p), false}; bytes = sign(p, m); }
            else if (k == 2) { m.type = protocol::MessageType::HandshakeAck; m.payload = protocol::HandshakeAckPayload{true, 4, 12345}; bytes = sign(p, m); }
            else if (k == 3) { m.type = protocol::MessageType::TransportHandshake; m.payload = protocol::TransportHandshakePayload{0, 0, 255}; bytes = sign(p, m); }
            else if (k == 4) { bytes.resize(static_cast<size_t>(vrng::below(300))); for (auto& x : bytes) x = static_cast<std::uint8_t>(vrng::next64()); }
            else if (k == 5) { m.type = protocol::MessageType::Request; m.payload = protocol::RequestPayload{cid(9), pid(p)}; bytes = sign(p, m); if (bytes.size() > 40) bytes.resize(bytes.size() - 33); }
            else if (k == 6) { m.version = 200; m.type = protocol::MessageType::Request; m.payload = protocol::RequestPayload{cid(9), pid(p)}; bytes = sign(p, m); }
            else { bytes.clear(); }
            out = deliver(p, bytes, sock, exc);
            e.i("k", k);
        } else if (c.op == "ctlfetch") {
            std::string cls = c.s("m", "ok");
            std::string uri = manifest_uri(ch, cls);
            std::string req = "COMMAND:FETCH\nMANIFEST:" + uri + "\nOUT:" + dir + "/out-" + std::to_string(ch) + ".bin\n\n";
            if (c.i("stream", 0)) req = "COMMAND:FETCH\nMANIFEST:" + uri + "\nSTREAM:client\n\n";
            auto r = control(req);
            out = r.rfind("STATUS:OK", 0) == 0 ? "handled" : r.rfind("STATUS:ERROR", 0) == 0 ? "error" : r.empty() ? "noresp" : "other";
            e.i("c", ch).s("m", cls);
        } else if (c.op == "wire") {
            // a validly MACed frame whose body is a structurally hostile encoding
            const auto& cr = crafted(); const auto& body = cr[static_cast<size_t>(c.i("k", 0)) % cr.size()];
            ensure_stub(p);
            auto key = a->session_key(pid(p));
            auto mac = crypto::HmacSha256::compute(std::span<const std::uint8_t>(key->data(), key->size()), std::span<const std::uint8_t>(body));
            std::vector<std::uint8_t> bytes = body; bytes.insert(bytes.end(), mac.begin(), mac.end());
            out = deliver(p, bytes, sock, exc);
            e.i("k", c.i("k", 0)).i("n", static_cast<long long>(cr.size()));
        } else if (c.op == "prehs") {
            // a stranger: TCP connect to the transport listener, 32 identity bytes, then one length-prefixed unauthenticated frame
            const auto& cr = crafted(); const auto& body = cr[static_cast<size_t>(c.i("k", 0)) % cr.size()];
            int sck = ::socket(AF_INET, SOCK_STREAM, 0);
            sockaddr_in ad{}; ad.sin_family = AF_INET; ad.sin_addr.s_addr = htonl(INADDR_LOOPBACK); ad.sin_port = htons(tport);
            out = "connect-failed";
            if (::connect(sck, reinterpret_cast<sockaddr*>(&ad), sizeof ad) == 0) {
                auto ident = pid(60 + c.i("k", 0) % 30);
                std::vector<std::uint8_t> buf(ident.begin(), ident.end());
                std::uint32_t len = static_cast<std::uint32_t>(c.i("lenoverride", static_cast<long long>(body.size())));
                buf.push_back(len >> 24); buf.push_back(len >> 16); buf.push_back(len >> 8); buf.push_back(len);
                buf.insert(buf.end(), body.begin(), body.end());
                ::send(sck, buf.data(), buf.size(), MSG_NOSIGNAL);
                pollfd pf{sck, POLLIN | POLLHUP, 0}; poll(&pf, 1, 300);    // the listener closes (or answers) when it has judged the frame
                out = "sent";
            }
            ::close(sck);
            e.i("k", c.i("k", 0));
        } else if (c.op == "ctlabort") {
            // a control client that asks for a streamed FETCH (large response) and resets the connection at once
            int sck = ::socket(AF_INET, SOCK_STREAM, 0);
            sockaddr_in ad{}; ad.sin_family = AF_INET; ad.sin_addr.s_addr = htonl(INADDR_LOOPBACK); ad.sin_port = htons(port);
            if (::connect(sck, reinterpret_cast<sockaddr*>(&ad), sizeof ad) == 0) {
                std::string req = c.i("k", 0) == 0 ? "COMMAND:FETCH\nMANIFEST:" + own_manifest + "\nSTREAM:client\n\n" : "COMMAND:LIST\n\n";
                ::send(sck, req.data(), req.size(), MSG_NOSIGNAL);
                linger lg{1, 0}; setsockopt(sck, SOL_SOCKET, SO_LINGER, &lg, sizeof lg);
            }
            ::close(sck);
            usleep(30000);
            out = "aborted";
        } else if (c.op == "peerabort") {
            // a peer that requests a chunk and closes its end before the node answers
            long q = 30 + c.i("k", 0);
            ensure_stub(q);
            protocol::Message rq{}; rq.type = protocol::MessageType::Request; rq.payload = protocol::RequestPayload{cid(9), pid(q)};
            auto bytes = sign(q, rq);
            auto key = a->session_key(pid(q)); crypto::Key k{}; k.bytes = *key;
            crypto::Nonce nonce{}; for (auto& x : nonce.bytes) x = static_cast<std::uint8_t>(vrng::next64());
            std::vector<std::uint8_t> ct(bytes.size()); crypto::ChaCha20::apply(k, nonce, bytes, ct, 0u);
            std::vector<std::uint8_t> frame(nonce.bytes.begin(), nonce.bytes.end());
            std::uint32_t len = static_cast<std::uint32_t>(ct.size());
            frame.push_back(len >> 24); frame.push_back(len >> 16); frame.push_back(len >> 8); frame.push_back(len);
            frame.insert(frame.end(), ct.begin(), ct.end());
            fcntl(stub[q], F_SETFL, fcntl(stub[q], F_GETFL) & ~O_NONBLOCK);
            ::send(stub[q], frame.data(), frame.size(), MSG_NOSIGNAL);
            ::close(stub[q]); stub.erase(q);
            usleep(50000);
            out = "aborted";
        } else if (c.op == "ctlemptyout") {
            auto r = control("COMMAND:FETCH\nMANIFEST:" + manifest_uri(ch, "ok") + "\nOUT:\n\n");
            out = r.rfind("STATUS:OK", 0) == 0 ? "handled" : r.rfind("STATUS:ERROR", 0) == 0 ? "error" : r.empty() ? "noresp" : "other";
        } else if (c.op == "ctlmalformed") {
            long k = c.i("k", 0);
            std::string req; bool half = true;
            switch (k) {
                case 0: req = "COMMAND:STORE\nPAYLOAD-LENGTH:18446744073709551615\n\n"; break;
                case 1: req = "COMMAND:STORE\nPAYLOAD-LENGTH:1e30\n\n"; break;
                case 2: req = "COMMAND:STORE\nPAYLOAD-LENGTH:-1\n\n"; break;
                case 3: req = "COMMAND:PING\nX:" + std::string(16385, 'a') + "\n\n"; break;
                case 4: req = "COMMAND:PING\nA:b"; break;                                   // no blank line, then EOF
                case 5: req = std::string("COMMAND:PI\0NG\nA:\0\0\n\n", 20); break;           // NULs
                case 6: req = "COMMAND:STORE\nPAYLOAD-LENGTH:10\n\nabc"; break;               // truncated body
                case 7: req = "no colon line\n\n"; break;
                case 8: req = "COMMAND:FROBNICATE\n\n"; break;
                case 9: { req = "COMMAND:PING\n"; for (int i = 0; i < 5000; ++i) req += "H" + std::to_string(i) + ":v\n"; req += "\n"; break; }
                case 10: req = "COMMAND:FETCH\nMANIFEST:eph://" + std::string(70000, 'A') + "\nSTREAM:client\n\n"; break;
                case 11: req = "COMMAND:STORE\nPAYLOAD-LENGTH:5\nTTL:99999999999999999999\nNAME:../../x\n\nhello"; break;
                case 12: req = "COMMAND:STORE\nPAYLOAD-LENGTH:0\n\n"; break;
                case 13: req = "COMMAND:FETCH\nOUT:/nonexistent-dir-verif/x/y\nMANIFEST:" + manifest_uri(9, "ok") + "\n\n"; break;
                default: req = "\n"; break;
            }
            auto r = control(req, half);
            out = r.rfind("STATUS:OK", 0) == 0 ? "handled" : r.rfind("STATUS:ERROR", 0) == 0 ? "error" : r.empty() ? "noresp" : "other";
            e.i("k", k);
        } else { std::fprintf(stderr, "inputs: unknown op %s\n", c.op.c_str()); std::exit(2); }
        e.s("out", out).s("exc", exc).b("sock", sock);
        probe(e);
        e.emit();
    }
};

int main(int argc, char** argv) {
    if (argc < 4) return 2;
    std::filesystem::create_directories(argv[3]);
    if (!std::getenv("VERIF_VERBOSE")) { std::freopen("/dev/null", "w", stderr); }
    std::clog.setstate(std::ios::failbit);
    ev::open(argv[2]);
    std::setvbuf(ev::out(), nullptr, _IOLBF, 0);
    std::set_terminate([] {
        std::string what = "unknown";
        if (auto ep = std::current_exception()) { try { std::rethrow_exception(ep); } catch (const std::exception& e) { what = e.what(); } catch (...) {} }
        ev::Ev e("terminated"); e.s("what", what).s("during", g_last_op); e.emit();
        std::fflush(ev::out());
        _exit(3);
    });
    // watchdog: node and daemon must keep serving; a script operation (a delivery, a tick batch, tearing the daemon down for the next
    // behaviour) that does not return within 90 s is reported as a hang and ends this driver process
    std::thread([] {
        long seen = g_progress.load(); int still = 0;
        for (;;) {
            sleep(5);
            const long now = g_progress.load();
            if (now != seen) { seen = now; still = 0; continue; }
            if (++still >= 18) { ev::Ev e("hung"); e.s("during", g_last_op); e.emit(); std::fflush(ev::out()); _exit(6); }
        }
    }).detach();
    std::ifstream in(argv[1]);
    Driver d; d.dir = std::filesystem::absolute(argv[3]).string();
    ev::Cmd c;
    while (ev::read_cmd(in, c)) { if (!d.a && c.op != "reset") { ev::Cmd r; r.op = "reset"; d.run(r); } d.run(c); }
    std::fflush(ev::out());
    _exit(0);
}
