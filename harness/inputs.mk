EXTRA_inputs := daemon/ControlPlane.o daemon/ControlClient.o daemon/ControlServer.o daemon/StructuredLogger.o
