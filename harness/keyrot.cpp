// Driver for C39: two real Nodes connected over loopback under the virtual clock; ticks of the two
// nodes are placed at chosen instants; after every step the session key each end holds for the
// other and the connection state are logged.
//   keyrot <script> <trace-out> <workdir>
#include "common/ev.hpp"
#include "common/vclock.hpp"
#include "common/vrng.hpp"
#include "ephemeralnet/core/Node.hpp"
#include <unistd.h>
#include <atomic>
#include <filesystem>
#include <memory>
#include <mutex>
#include <thread>

using namespace ephemeralnet;
namespace ephemeralnet::test {
class NodeTestAccess {
public:
    static auto& sessions(Node& n) { return n.sessions_; }
    static auto& mtx(Node& n) { return n.scheduler_mutex_; }
    static std::optional<std::uint64_t> work(Node& n, const PeerId& p) { return n.generate_handshake_work(p); }
};
}
using Acc = ephemeralnet::test::NodeTestAccess;
static long long now_ms() { return vclock::now_ns() / 1'000'000LL; }

struct Driver {
    std::unique_ptr<Node> a, b;
    std::vector<std::array<std::uint8_t, 32>> keys;   // distinct keys seen -> small ids
    std::atomic<int> got_a{0}, got_b{0};   // messages received intact (payload equals what was sent)
    int kid(const std::optional<std::array<std::uint8_t, 32>>& k) {
        if (!k) return -1;
        for (size_t i = 0; i < keys.size(); ++i) if (keys[i] == *k) return static_cast<int>(i);
        keys.push_back(*k); return static_cast<int>(keys.size() - 1);
    }
    void fin(ev::Ev& e) {
        e.i("t", now_ms()).i("ka", kid(a->session_key(b->id()))).i("kb", kid(b->session_key(a->id())))
         .b("ca", Acc::sessions(*a).is_connected(b->id())).b("cb", Acc::sessions(*b).is_connected(a->id()));
        e.emit();
    }
    long hpow = 0;
    Config cfg(long rot, std::uint32_t seed) {
        Config c{}; c.identity_seed = seed; c.key_rotation_interval = std::chrono::seconds(rot);
        c.handshake_pow_difficulty = static_cast<std::uint8_t>(hpow); c.announce_pow_difficulty = 0; c.relay_enabled = false; c.nat_stun_enabled = false;
        c.cleanup_interval = std::chrono::seconds(100000); c.handshake_cooldown = std::chrono::seconds(0);
        return c;
    }
    void teardown() {
        // destroy in an order that lets reader threads finish: stop both transports first
        if (a) a->stop_transport();
        if (b) b->stop_transport();
        a.reset(); b.reset();
    }
    void run(const ev::Cmd& c) {
        if (c.op == "reset") {
            teardown(); keys.clear(); got_a = 0; got_b = 0;
            hpow = c.i("hpow", 0);
            vclock::set_ns(0);
            a = std::make_unique<Node>(ev::id32(1, 0xA0), cfg(c.i("ia", 5), 0x1111u + c.i("seed", 0)));
            b = std::make_unique<Node>(ev::id32(2, 0xA0), cfg(c.i("ib", 5), 0x2222u + c.i("seed", 0)));
            const std::vector<std::uint8_t> expect{1, 2, 3, 4, 5, 6, 7, 8};
            a->set_message_handler([this, expect](const network::TransportMessage& m) { if (m.payload == expect) ++got_a; });
            b->set_message_handler([this, expect](const network::TransportMessage& m) { if (m.payload == expect) ++got_b; });
            a->start_transport(0); b->start_transport(0);
            // A learns B's public key, then (skew ms later) connects; B registers the session in its handshake handler
            auto wba = Acc::work(*b, a->id());
            bool h1 = a->perform_handshake(b->id(), b->public_identity(), wba.value_or(0));
            vclock::advance_ms(c.i("skew", 0));
            bool con = h1 && a->connect_peer(b->id(), "127.0.0.1", b->transport_port());
            for (int i = 0; i < 2000 && con && !Acc::sessions(*b).is_connected(a->id()); ++i) usleep(1000);
            static long bi = 0; ev::Ev e("reset"); e.i("bi", ++bi).i("ia", a->config().key_rotation_interval.count() * 1000).i("ib", b->config().key_rotation_interval.count() * 1000)
                .i("skew", c.i("skew", 0)).b("connected", con);
            fin(e);
        } else if (c.op == "tick") {
            (c.s("n") == "a" ? a : b)->tick();
            ev::Ev e("tick"); e.s("n", c.s("n")); fin(e);
        } else if (c.op == "adv") {
            vclock::advance_ms(c.i("ms")); ev::Ev e("adv"); e.i("ms", c.i("ms")); fin(e);
        } else if (c.op == "send") {
            bool from_a = c.s("from") == "a";
            std::vector<std::uint8_t> payload{1, 2, 3, 4, 5, 6, 7, 8};
            int before = from_a ? got_b.load() : got_a.load();
            bool sent = from_a ? a->send_secure(b->id(), payload) : b->send_secure(a->id(), payload);
            bool delivered = false;
            for (int i = 0; i < 300 && sent; ++i) { if ((from_a ? got_b.load() : got_a.load()) > before) { delivered = true; break; } usleep(1000); }
            ev::Ev e("send"); e.s("from", c.s("from")).b("sent", sent).b("delivered", delivered); fin(e);
        } else if (c.op == "rehs") {
            // the end `from` handshakes again and reconnects over the still-open connection (what Node::request_chunk does before a fetch):
            // the other end's handshake handler re-derives and registers the handshake key as well
            Node& x = c.s("from") == "a" ? *a : *b;
            Node& y = c.s("from") == "a" ? *b : *a;
            auto w = Acc::work(y, x.id());
            bool hs = x.perform_handshake(y.id(), y.public_identity(), w.value_or(0));
            bool con = hs && x.connect_peer(y.id(), "127.0.0.1", y.transport_port());
            for (int i = 0; i < 300; ++i) { if (Acc::sessions(y).is_connected(x.id()) && Acc::sessions(x).is_connected(y.id())) break; usleep(1000); }
            usleep(3000);
            ev::Ev e("rehs"); e.s("from", c.s("from")).b("hs", hs).b("con", con); fin(e);
        } else if (c.op == "tickrace") {
            // a tick of end n is in flight (it has taken its "now" and waits for the node's scheduler lock, as it does behind a control
            // request or a receive thread) while the other end handshakes again and reconnects, adv ms later; then the tick goes on.
            // The key material registered meanwhile is younger than the tick's "now": no rotation is due
            Node& x = c.s("n") == "a" ? *a : *b;     // the ticking end
            Node& y = c.s("n") == "a" ? *b : *a;     // the end that handshakes again
            const long long tbase = now_ms();
            bool hs = false, con = false;
            std::thread ticker;
            {
                std::unique_lock lk(Acc::mtx(x));
                ticker = std::thread([&] { x.tick(); });
                usleep(120000);     // the tick has read the clock and waits for the lock
                vclock::advance_ms(c.i("adv", 50));
                auto w = Acc::work(x, y.id());
                hs = y.perform_handshake(x.id(), x.public_identity(), w.value_or(0));
                con = hs && y.connect_peer(x.id(), "127.0.0.1", x.transport_port());
                for (int i = 0; i < 300; ++i) { if (Acc::sessions(x).is_connected(y.id()) && Acc::sessions(y).is_connected(x.id())) break; usleep(1000); }
                usleep(3000);
            }
            ticker.join();
            ev::Ev e("tickrace"); e.s("n", c.s("n")).i("tbase", tbase).b("hs", hs).b("con", con); fin(e);
        } else if (c.op == "intrude") {
            // somebody else offers node n a handshake under the PEER's id: a valid but different public value and work that does not
            // verify.  It is refused (C20); the key of the open session must stay what both ends agreed on
            Node& n = c.s("n") == "a" ? *a : *b;
            Node& peer = c.s("n") == "a" ? *b : *a;
            std::uint32_t other = peer.public_identity() ^ 0x5A5Au;
            if (other < 2) other = 12345u;
            // (only meaningful when handshakes need work: with difficulty 0 every nonce verifies and the offer would be a valid one)
            bool accepted = hpow > 0 && n.perform_handshake(peer.id(), other, 0xBAD0BAD0BAD0ull + static_cast<std::uint64_t>(c.i("k", 0)));
            ev::Ev e("intrude"); e.s("n", c.s("n")).b("accepted", accepted); fin(e);
        } else { std::fprintf(stderr, "keyrot: unknown op %s\n", c.op.c_str()); std::exit(2); }
    }
};

int main(int argc, char** argv) {
    if (argc < 4) return 2;
    std::filesystem::create_directories(argv[3]);
    if (!std::getenv("VERIF_VERBOSE")) std::freopen("/dev/null", "w", stderr);
    ev::open(argv[2]);
    std::ifstream in(argv[1]);
    Driver d; ev::Cmd c;
    while (ev::read_cmd(in, c)) d.run(c);
    d.teardown();
    std::fflush(ev::out());
    _exit(0);
}
