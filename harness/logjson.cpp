// Driver for C37: the real StructuredLogger::log with std::clog redirected into a buffer.
// Script:  log level=info|warning|error event=<hex> n=<count> k0=<hex> v0=<hex> k1=... ; strings are raw bytes (hex).
// Event:   {"op":"log","event":[..],"fields":[[[name bytes],[value bytes]],...],"out":[bytes written to clog]}
//   logjson <script> <trace-out>
#include "common/ev.hpp"
#include "parsers_sup.hpp"
#include "ephemeralnet/daemon/StructuredLogger.hpp"

#include <fcntl.h>
#include <unistd.h>
#include <iostream>
#include <sstream>
#include <thread>
#include <vector>

using ephemeralnet::daemon::StructuredLogger;

static std::string jbytes(const std::string& s) {
    std::string a = "[";
    for (size_t i = 0; i < s.size(); ++i) { if (i) a += ","; a += std::to_string(static_cast<unsigned>(static_cast<unsigned char>(s[i]))); }
    return a + "]";
}

int main(int argc, char** argv) {
    if (argc < 3) { std::fprintf(stderr, "usage: logjson <script> <trace>\n"); return 2; }
    std::ifstream in(argv[1]);
    ev::open(argv[2]);
    std::ostringstream capture;
    std::streambuf* old = std::clog.rdbuf(capture.rdbuf());
    ev::Cmd c;
    while (ev::read_cmd(in, c)) {
        if (c.op == "clog") {
            // several threads log at the same time; the bytes are taken at the descriptor (fd 2), where records of different threads meet.
            // Every record carries a marker (alphanumeric, survives escaping); the line(s) holding it are that record's output.
            const long threads = c.i("threads", 4), count = c.i("count", 25);
            std::clog.rdbuf(old);
            char path[] = "/tmp/verif-logjson-XXXXXX";
            const int tmp = ::mkstemp(path);
            if (tmp < 0) { std::perror("mkstemp"); return 2; }
            std::clog.flush(); std::cerr.flush();
            const int saved = ::dup(2);
            ::dup2(tmp, 2);
            auto event_of = [](long t, long i) { return "net.\"peer\" joined\nZQ" + std::to_string(t) + "x" + std::to_string(i) + "QZ"; };
            auto fields_of = [](long t, long i) {
                StructuredLogger::FieldList f;
                f.emplace_back("remote \\ id", "10.0.0." + std::to_string(t) + ":\t" + std::to_string(4000 + i));
                f.emplace_back("cmd", std::string("ST\x01OR\x1b[31mE \"") + std::to_string(i) + "\"");
                return f;
            };
            std::vector<std::thread> th;
            for (long t = 0; t < threads; ++t) th.emplace_back([&, t] { for (long i = 0; i < count; ++i) StructuredLogger::instance().log(StructuredLogger::Level::Info, event_of(t, i), fields_of(t, i)); });
            for (auto& x : th) x.join();
            std::clog.flush(); std::cerr.flush();
            ::dup2(saved, 2); ::close(saved);
            std::string all; { char buf[65536]; ::lseek(tmp, 0, SEEK_SET); ssize_t n; while ((n = ::read(tmp, buf, sizeof buf)) > 0) all.append(buf, static_cast<size_t>(n)); }
            ::close(tmp); ::unlink(path);
            std::clog.rdbuf(capture.rdbuf());
            std::vector<std::string> lines; { size_t a = 0; while (a < all.size()) { size_t b = all.find('\n', a); if (b == std::string::npos) b = all.size() - 1; lines.push_back(all.substr(a, b - a + 1)); a = b + 1; } }
            std::vector<bool> used(lines.size(), false);
            for (long t = 0; t < threads; ++t) for (long i = 0; i < count; ++i) {
                const std::string marker = "ZQ" + std::to_string(t) + "x" + std::to_string(i) + "QZ";
                std::string mine;
                for (size_t k = 0; k < lines.size(); ++k) if (lines[k].find(marker) != std::string::npos) { mine += lines[k]; used[k] = true; }
                const auto f = fields_of(t, i);
                std::vector<std::string> jf;
                for (const auto& kv : f) jf.push_back("[" + jbytes(kv.first) + "," + jbytes(kv.second) + "]");
                ev::Ev("log").s("level", "info").s("src", "concurrent").raw("event", jbytes(event_of(t, i))).raw("fields", ev::jlist(jf)).raw("out", jbytes(mine)).emit();
            }
            for (size_t k = 0; k < lines.size(); ++k) if (!used[k])      // output that belongs to no record
                ev::Ev("log").s("level", "info").s("src", "concurrent-stray").raw("event", jbytes("")).raw("fields", "[]").raw("out", jbytes(lines[k])).emit();
            continue;
        }
        if (c.op != "log") continue;
        const std::string lvl = c.s("level", "info");
        const auto level = lvl == "error" ? StructuredLogger::Level::Error : lvl == "warning" ? StructuredLogger::Level::Warning : StructuredLogger::Level::Info;
        const std::string event = sup::unhex(c.s("event"));
        StructuredLogger::FieldList fields;
        std::vector<std::string> jf;
        for (long long i = 0; i < c.i("n"); ++i) {
            fields.emplace_back(sup::unhex(c.s("k" + std::to_string(i))), sup::unhex(c.s("v" + std::to_string(i))));
            jf.push_back("[" + jbytes(fields.back().first) + "," + jbytes(fields.back().second) + "]");
        }
        capture.str(std::string());
        StructuredLogger::instance().log(level, event, fields);
        const std::string out = capture.str();
        ev::Ev("log").s("level", lvl).raw("event", jbytes(event)).raw("fields", ev::jlist(jf)).raw("out", jbytes(out)).emit();
    }
    std::clog.rdbuf(old);
    std::fflush(ev::out());
    return 0;
}
