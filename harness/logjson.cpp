// Driver for C37: the real StructuredLogger::log with std::clog redirected into a buffer.
// Script:  log level=info|warning|error event=<hex> n=<count> k0=<hex> v0=<hex> k1=... ; strings are raw bytes (hex).
// Event:   {"op":"log","event":[..],"fields":[[[name bytes],[value bytes]],...],"out":[bytes written to clog]}
//   logjson <script> <trace-out>
#include "common/ev.hpp"
#include "parsers_sup.hpp"
#include "ephemeralnet/daemon/StructuredLogger.hpp"

#include <iostream>
#include <sstream>

using ephemeralnet::daemon::StructuredLogger;

static std::string jbytes(const std::string& s) {
    std::string a = "[";
    for (size_t i = 0; i < s.size(); ++i) { if (i) a += ","; a += std::to_string(static_cast<unsigned>(static_cast<unsigned char>(s[i]))); }
    return a + "]";
}

int main(int argc, char** argv) {
    if (argc < 3) { std::fprintf(stderr, "usage: logjson <script> <trace>\n"); return 2; }
    std::ifstream in(argv[1]);
    ev::open(argv[2]);
    std::ostringstream capture;
    std::streambuf* old = std::clog.rdbuf(capture.rdbuf());
    ev::Cmd c;
    while (ev::read_cmd(in, c)) {
        if (c.op != "log") continue;
        const std::string lvl = c.s("level", "info");
        const auto level = lvl == "error" ? StructuredLogger::Level::Error : lvl == "warning" ? StructuredLogger::Level::Warning : StructuredLogger::Level::Info;
        const std::string event = sup::unhex(c.s("event"));
        StructuredLogger::FieldList fields;
        std::vector<std::string> jf;
        for (long long i = 0; i < c.i("n"); ++i) {
            fields.emplace_back(sup::unhex(c.s("k" + std::to_string(i))), sup::unhex(c.s("v" + std::to_string(i))));
            jf.push_back("[" + jbytes(fields.back().first) + "," + jbytes(fields.back().second) + "]");
        }
        capture.str(std::string());
        StructuredLogger::instance().log(level, event, fields);
        const std::string out = capture.str();
        ev::Ev("log").s("level", lvl).raw("event", jbytes(event)).raw("fields", ev::jlist(jf)).raw("out", jbytes(out)).emit();
    }
    std::clog.rdbuf(old);
    std::fflush(ev::out());
    return 0;
}
