# C37: the structured logger lives in the daemon sources
EXTRA_logjson := daemon/StructuredLogger.o
