// C17 / C18 driver: the REAL protocol::encode_manifest / protocol::decode_manifest.
//   manifest <script> <trace.ndjson>
// script lines
//   rt  tag=.. idseed=N thr=N tot=N exps=<16 hex: two's complement of floor(seconds)> expf=<ns>
//       nsh=N shseed=N meta=<k/v,...> disc=<sch/tr/ep/pr,...> fb=<uri/pr,...> tcb=N adv=<str>
//       hasdig=0|1 digseed=N
//         <str> is  h<hex bytes>  (literal)  or  g<len>.<seed>  (generated pattern)
//   dec kind=.. x=<hex of the characters>   |   dec kind=.. g=<len>.<seed>.<alphabet 0|1|2>      [nox=1: log the input summarised only]
// Every operation runs in a forked worker; the calls of the code under test are under a watchdog (5 s CPU); a worker that dies (sanitizer
// abort, signal, watchdog) gives a "crash" event and the next worker continues after it; an operation
// during which UBSan printed a report gives a "crash" event with "recovered":true.
// Events (one json object per line):
//   {"op":"rt","tag","m":M,"exact":b,"enc":"ok"|"error","enc_type","uri":S,"dec":"ok"|"invalid_argument"|"other"|"none","dec_type","d":M}
//   {"op":"dec","kind","x":S,"exact":b,"res":"ok"|"invalid_argument"|"other","type","d":M}
//   {"op":"crash","phase":"enc"|"dec","in":"rt"|"dec","tag","why":"sanitizer/<kind>"|"timeout"|"signal/<n>"|"exit/<n>"}
// Strings are summarised: S = {"n":length,"h":[fnv1a32 high 16, low 16],"b":[bytes]} with every byte
// when n <= kFull, else the first and last 16 bytes.
#include "common/ev.hpp"
#include "ephemeralnet/protocol/Manifest.hpp"
// The code under test is compiled inside this translation unit (harness/manifest.mk: -I$(REPO)/src,
// -fsanitize-recover=undefined): in the asan flavour UBSan then reports and continues, so an input that
// triggers undefined behaviour costs one event instead of a dead worker (ASan errors still abort).
// UBSan reports each source location once per process: later inputs reaching the same location are not
// reported again by that worker.
#include "protocol/Manifest.cpp"

#include <cxxabi.h>
#include <fcntl.h>
#include <signal.h>
#include <sys/mman.h>
#include <sys/stat.h>
#include <sys/time.h>
#include <sys/wait.h>
#include <unistd.h>

#include <cstring>
#include <typeinfo>

using namespace ephemeralnet;
namespace P = ephemeralnet::protocol;

static constexpr std::size_t kFull = 300;        // strings up to this size are logged completely
static constexpr std::size_t kExactUri = 1600;   // manifests whose URI is at most this long are "exact"
static_assert(std::is_same_v<std::chrono::system_clock::duration, std::chrono::nanoseconds>, "time_point is expected to count nanoseconds");

static std::string summ(const std::string& s, std::size_t full = kFull) {
    std::uint32_t h = 2166136261u;
    for (unsigned char c : s) { h ^= c; h *= 16777619u; }
    std::string a = "{\"n\":" + std::to_string(s.size()) + ",\"h\":[" + std::to_string(h >> 16) + "," + std::to_string(h & 0xffffu) + "],\"b\":[";
    bool first = true;
    auto put = [&](std::size_t i) { if (!first) a += ","; first = false; a += std::to_string(static_cast<unsigned>(static_cast<unsigned char>(s[i]))); };
    if (s.size() <= full) { for (std::size_t i = 0; i < s.size(); ++i) put(i); }
    else { for (std::size_t i = 0; i < 16; ++i) put(i); for (std::size_t i = s.size() - 16; i < s.size(); ++i) put(i); }
    return a + "]}";
}
template <class C> static std::string jbytes(const C& c) {
    std::string a = "[";
    bool f = true;
    for (auto b : c) { if (!f) a += ","; f = false; a += std::to_string(static_cast<unsigned>(static_cast<std::uint8_t>(b))); }
    return a + "]";
}
static bool all_full(const P::Manifest& m) {
    for (auto& e : m.metadata) if (e.first.size() > kFull || e.second.size() > kFull) return false;
    for (auto& h : m.discovery_hints) if (h.scheme.size() > kFull || h.transport.size() > kFull || h.endpoint.size() > kFull) return false;
    for (auto& h : m.fallback_hints) if (h.uri.size() > kFull) return false;
    return m.security.advisory.size() <= kFull;
}
static std::string jmanifest(const P::Manifest& m) {
    std::string s = "{\"id\":" + jbytes(m.chunk_id) + ",\"hash\":" + jbytes(m.chunk_hash) + ",\"nonce\":" + jbytes(m.nonce.bytes);
    s += ",\"thr\":" + std::to_string(m.threshold) + ",\"tot\":" + std::to_string(m.total_shares);
    // expiry: floor(seconds) as 8 bytes two's complement big-endian + nanoseconds within the second
    long long ns = m.expires_at.time_since_epoch().count();
    long long sec = ns / 1000000000LL, f = ns % 1000000000LL;
    if (f < 0) { f += 1000000000LL; --sec; }
    std::array<std::uint8_t, 8> sb{};
    for (int k = 0; k < 8; ++k) sb[7 - k] = static_cast<std::uint8_t>((static_cast<unsigned long long>(sec) >> (8 * k)) & 0xff);
    s += ",\"exp\":{\"s\":" + jbytes(sb) + ",\"f\":" + std::to_string(f) + "}";
    s += ",\"shards\":[";
    for (std::size_t i = 0; i < m.shards.size(); ++i) { if (i) s += ","; s += "{\"i\":" + std::to_string(m.shards[i].index) + ",\"v\":" + jbytes(m.shards[i].value) + "}"; }
    s += "],\"meta\":[";
    bool first = true;
    for (auto& e : m.metadata) { if (!first) s += ","; first = false; s += "{\"k\":" + summ(e.first) + ",\"v\":" + summ(e.second) + "}"; }
    s += "],\"disc\":[";
    for (std::size_t i = 0; i < m.discovery_hints.size(); ++i) {
        auto& h = m.discovery_hints[i];
        if (i) s += ",";
        s += "{\"sch\":" + summ(h.scheme) + ",\"tr\":" + summ(h.transport) + ",\"ep\":" + summ(h.endpoint) + ",\"pr\":" + std::to_string(h.priority) + "}";
    }
    s += "],\"tcb\":" + std::to_string(m.security.token_challenge_bits) + ",\"adv\":" + summ(m.security.advisory);
    s += std::string(",\"hasdig\":") + (m.security.has_attestation_digest ? "true" : "false") + ",\"dig\":" + jbytes(m.security.attestation_digest);
    s += ",\"fb\":[";
    for (std::size_t i = 0; i < m.fallback_hints.size(); ++i) { if (i) s += ","; s += "{\"uri\":" + summ(m.fallback_hints[i].uri) + ",\"pr\":" + std::to_string(m.fallback_hints[i].priority) + "}"; }
    return s + "]}";
}

// ---- script values -------------------------------------------------------------------------
[[noreturn]] static void die(const std::string& why) { std::fprintf(stderr, "manifest driver: %s\n", why.c_str()); std::fflush(stderr); _exit(2); }
static int hexv(char c) { if (c >= '0' && c <= '9') return c - '0'; if (c >= 'a' && c <= 'f') return c - 'a' + 10; if (c >= 'A' && c <= 'F') return c - 'A' + 10; die("bad hex digit"); }
static std::string unhex(const std::string& h) {
    if (h.size() % 2) die("odd hex length");
    std::string r;
    r.reserve(h.size() / 2);
    for (std::size_t i = 0; i < h.size(); i += 2) r.push_back(static_cast<char>(hexv(h[i]) * 16 + hexv(h[i + 1])));
    return r;
}
static std::uint8_t pat(unsigned long long seed, unsigned long long i) {
    unsigned long long x = (seed + 1) * 0x9E3779B97F4A7C15ull + i * 0xBF58476D1CE4E5B9ull;
    x ^= x >> 29; x *= 0x94D049BB133111EBull; x ^= x >> 32;
    return static_cast<std::uint8_t>(x & 0xff);
}
static std::string sval(const std::string& d) {
    if (d.empty()) die("empty string descriptor");
    if (d[0] == 'h') return unhex(d.substr(1));
    if (d[0] == 'g') {
        auto dot = d.find('.');
        std::size_t len = std::stoull(d.substr(1, dot - 1));
        unsigned long long seed = dot == std::string::npos ? 0 : std::stoull(d.substr(dot + 1));
        std::string r(len, '\0');
        for (std::size_t i = 0; i < len; ++i) r[i] = static_cast<char>(pat(seed, i));
        return r;
    }
    die("bad string descriptor " + d);
}
static std::vector<std::string> split(const std::string& s, char sep) {
    std::vector<std::string> r;
    std::string cur;
    for (char c : s) { if (c == sep) { r.push_back(cur); cur.clear(); } else cur += c; }
    r.push_back(cur);
    return r;
}
template <std::size_t N> static void fill(std::array<std::uint8_t, N>& a, unsigned long long seed) { for (std::size_t i = 0; i < N; ++i) a[i] = pat(seed, i); }

static P::Manifest build(const ev::Cmd& c) {
    P::Manifest m{};
    unsigned long long ids = c.i("idseed", 1);
    fill(m.chunk_id, ids); fill(m.chunk_hash, ids + 1000); fill(m.nonce.bytes, ids + 2000);
    m.threshold = static_cast<std::uint8_t>(c.i("thr", 2));
    m.total_shares = static_cast<std::uint8_t>(c.i("tot", 3));
    {   // expiry = exps (two's complement floor seconds) * 1e9 + expf, must fit the time_point
        std::string sb = unhex(c.s("exps", "0000000000000000"));
        if (sb.size() != 8) die("exps must be 8 bytes");
        unsigned long long u = 0;
        for (unsigned char ch : sb) u = (u << 8) | ch;
        __int128 ns = static_cast<__int128>(static_cast<long long>(u)) * 1000000000 + c.i("expf", 0);
        if (ns > static_cast<__int128>(std::numeric_limits<long long>::max()) || ns < static_cast<__int128>(std::numeric_limits<long long>::min())) die("expiry outside time_point");
        m.expires_at = std::chrono::system_clock::time_point{std::chrono::nanoseconds{static_cast<long long>(ns)}};
    }
    long long nsh = c.i("nsh", 0), shseed = c.i("shseed", 0);
    for (long long i = 0; i < nsh; ++i) { P::KeyShard s{}; s.index = static_cast<std::uint8_t>((shseed + i + 1) & 0xff); fill(s.value, shseed * 1000 + i); m.shards.push_back(s); }
    if (c.has("meta") && c.s("meta") != "-") for (auto& e : split(c.s("meta"), ',')) { auto f = split(e, '/'); if (f.size() != 2) die("meta entry"); m.metadata[sval(f[0])] = sval(f[1]); }
    if (c.has("disc") && c.s("disc") != "-") for (auto& e : split(c.s("disc"), ',')) {
        auto f = split(e, '/'); if (f.size() != 4) die("disc entry");
        P::DiscoveryHint h{}; h.scheme = sval(f[0]); h.transport = sval(f[1]); h.endpoint = sval(f[2]); h.priority = static_cast<std::uint8_t>(std::atoi(f[3].c_str()));
        m.discovery_hints.push_back(std::move(h));
    }
    if (c.has("fb") && c.s("fb") != "-") for (auto& e : split(c.s("fb"), ',')) {
        auto f = split(e, '/'); if (f.size() != 2) die("fb entry");
        P::FallbackHint h{}; h.uri = sval(f[0]); h.priority = static_cast<std::uint8_t>(std::atoi(f[1].c_str()));
        m.fallback_hints.push_back(std::move(h));
    }
    m.security.token_challenge_bits = static_cast<std::uint8_t>(c.i("tcb", 0));
    m.security.advisory = sval(c.s("adv", "h"));
    m.security.has_attestation_digest = c.i("hasdig", 0) != 0;
    if (c.has("digseed")) fill(m.security.attestation_digest, c.i("digseed"));
    return m;
}

// ---- exception classification -------------------------------------------------------------------
static std::string type_name(const std::type_info& t) {
    int st = 0;
    char* d = abi::__cxa_demangle(t.name(), nullptr, nullptr, &st);
    std::string r = (st == 0 && d) ? d : t.name();
    std::free(d);
    return r;
}
struct Outcome { std::string res, type; };

// ---- worker / supervisor ------------------------------------------------------------------------------
static std::string classify_text(const std::string& t, int status) {
    auto slug = [](std::string s) { std::string r; for (char ch : s) r += (std::isalnum(static_cast<unsigned char>(ch)) ? static_cast<char>(std::tolower(ch)) : '-'); while (!r.empty() && r.back() == '-') r.pop_back(); return r; };
    auto p = t.find("runtime error: ");
    if (p != std::string::npos) {
        std::string msg = t.substr(p + 15, t.find('\n', p) - p - 15);
        // "signed integer overflow: 9 * 1000000000 cannot be ..." -> signed-integer-overflow
        auto colon = msg.find(':');
        std::string head = colon == std::string::npos ? msg : msg.substr(0, colon);
        if (head.size() > 40) head = head.substr(0, 40);
        return "sanitizer/" + slug(head);
    }
    p = t.find("AddressSanitizer: ");
    if (p != std::string::npos) {
        std::string msg = t.substr(p + 18, t.find_first_of(" \n", p + 18) - p - 18);
        return "sanitizer/" + slug(msg);
    }
    p = t.find("LeakSanitizer");
    if (p != std::string::npos) return "sanitizer/leak";
    if (WIFSIGNALED(status)) {
        if (WTERMSIG(status) == SIGALRM || WTERMSIG(status) == SIGPROF) return "timeout";
        return "signal/" + std::to_string(WTERMSIG(status));
    }
    if (status < 0) return "";
    return "exit/" + std::to_string(WIFEXITED(status) ? WEXITSTATUS(status) : -1);
}
static std::string classify(const std::string& errfile, int status) {
    std::ifstream in(errfile);
    std::stringstream ss;
    ss << in.rdbuf();
    return classify_text(ss.str(), status);
}
// text the sanitizer runtime wrote to the worker's stderr (a file) since mark
static off_t g_mark = 0;
static std::string g_errfile;
static std::string ub_since_mark() {
    struct stat st{};
    if (fstat(2, &st) != 0 || st.st_size <= g_mark) return "";
    std::ifstream in(g_errfile);
    in.seekg(g_mark);
    std::stringstream ss;
    ss << in.rdbuf();
    g_mark = st.st_size;
    std::string k = classify_text(ss.str(), -1);
    return k.empty() ? "sanitizer/unclassified-output" : k;
}

struct Shared { volatile long idx; volatile int phase; };   // phase 0 idle, 1 enc, 2 dec
static Shared* g_sh;

// watchdog around the code under test only: 5 s of CPU time of this process (robust against a loaded
// machine; a loop burns CPU) with a 120 s wall-clock backstop; both signals terminate the worker
static void watchdog(bool on) {
    struct itimerval t{};
    t.it_value.tv_sec = on ? 5 : 0;
    setitimer(ITIMER_PROF, &t, nullptr);
    alarm(on ? 120 : 0);
}

static void crash_event(const ev::Cmd& c, const char* phase, const std::string& why, bool recovered) {
    ev::Ev e("crash");
    e.s("in", c.op).s("tag", c.op == "rt" ? c.s("tag", "") : c.s("kind", "")).s("phase", phase).s("why", why).i("line", g_sh->idx + 1).b("recovered", recovered);
    e.emit();
    std::fflush(ev::out());
}

static void run_one(const ev::Cmd& c) {
    if (c.op == "rt") {
        P::Manifest m = build(c);
        std::string mj = jmanifest(m);
        ev::Ev e("rt");
        e.s("tag", c.s("tag", ""));
        e.raw("m", mj);
        std::string uri;
        Outcome enc{"ok", ""};
        g_sh->phase = 1;
        watchdog(true);
        try { uri = P::encode_manifest(m); }
        catch (const std::exception& ex) { enc = {"error", type_name(typeid(ex))}; }
        catch (...) { enc = {"error", "unknown"}; }
        watchdog(false);
        g_sh->phase = 0;
        if (std::string ub = ub_since_mark(); !ub.empty()) { crash_event(c, "enc", ub, true); return; }
        bool exact = all_full(m) && enc.res == "ok" && uri.size() <= kExactUri;
        if (enc.res != "ok") exact = all_full(m) && m.shards.size() + m.metadata.size() + m.discovery_hints.size() + m.fallback_hints.size() <= 8;
        e.b("exact", exact).s("enc", enc.res).s("enc_type", enc.type);
        if (enc.res == "ok") {
            e.raw("uri", summ(uri, exact ? kExactUri : 0));
            Outcome dec{"ok", ""};
            P::Manifest d{};
            g_sh->phase = 2;
            watchdog(true);
            try { d = P::decode_manifest(uri); }
            catch (const std::exception& ex) { dec = {dynamic_cast<const std::invalid_argument*>(&ex) ? "invalid_argument" : "other", type_name(typeid(ex))}; }
            catch (...) { dec = {"other", "unknown"}; }
            watchdog(false);
            g_sh->phase = 0;
            if (std::string ub = ub_since_mark(); !ub.empty()) { crash_event(c, "dec", ub, true); return; }
            e.s("dec", dec.res).s("dec_type", dec.type);
            if (dec.res == "ok") e.raw("d", jmanifest(d));
        } else {
            e.s("dec", "none").s("dec_type", "");
        }
        e.emit();
    } else if (c.op == "dec") {
        std::string x;
        if (c.has("x")) x = unhex(c.s("x"));
        else {
            auto f = split(c.s("g", "0.0.0"), '.');
            std::size_t len = std::stoull(f[0]);
            unsigned long long seed = f.size() > 1 ? std::stoull(f[1]) : 0;
            int alpha = f.size() > 2 ? std::atoi(f[2].c_str()) : 0;
            static const char b64[] = "ABCDEFGHIJKLMNOPQRSTUVWXYZabcdefghijklmnopqrstuvwxyz0123456789+/=";
            x = alpha == 0 ? "" : "eph://";
            for (std::size_t i = 0; i < len; ++i) {
                std::uint8_t r = pat(seed, i);
                x.push_back(alpha == 0 ? static_cast<char>(r) : alpha == 1 ? b64[r % 64] : b64[r % 65]);
            }
        }
        Outcome dec{"ok", ""};
        P::Manifest d{};
        g_sh->phase = 2;
        watchdog(true);
        try { d = P::decode_manifest(x); }
        catch (const std::exception& ex) { dec = {dynamic_cast<const std::invalid_argument*>(&ex) ? "invalid_argument" : "other", type_name(typeid(ex))}; }
        catch (...) { dec = {"other", "unknown"}; }
        watchdog(false);
        g_sh->phase = 0;
        if (std::string ub = ub_since_mark(); !ub.empty()) { crash_event(c, "dec", ub, true); return; }
        bool exact = !c.has("nox") && x.size() <= kExactUri && (dec.res != "ok" || all_full(d));
        ev::Ev e("dec");
        e.s("kind", c.s("kind", "")).raw("x", summ(x, exact ? kExactUri : 0)).b("exact", exact).s("res", dec.res).s("type", dec.type);
        if (dec.res == "ok" && exact) e.raw("d", jmanifest(d));
        e.emit();
    } else {
        die("unknown op " + c.op);
    }
    std::fflush(ev::out());
}

int main(int argc, char** argv) {
    if (argc < 3) { std::fprintf(stderr, "usage: manifest <script> <trace>\n"); return 2; }
    std::ifstream in(argv[1]);
    if (!in) { std::perror(argv[1]); return 2; }
    std::vector<ev::Cmd> cmds;
    ev::Cmd c;
    while (ev::read_cmd(in, c)) cmds.push_back(c);
    ev::open(argv[2]);
    setvbuf(ev::out(), nullptr, _IOFBF, 1 << 20);
    g_sh = static_cast<Shared*>(mmap(nullptr, sizeof(Shared), PROT_READ | PROT_WRITE, MAP_SHARED | MAP_ANONYMOUS, -1, 0));
    if (g_sh == MAP_FAILED) { std::perror("mmap"); return 2; }
    std::string errfile = std::string(argv[2]) + ".stderr";
    long start = 0;
    int crashes = 0;
    long timeout_at = -1;
    int timeout_tries = 0;
    int confirmed_timeouts = 0;   // once a time-out has been confirmed, later ones are taken at the first occurrence
    const int kMaxCrashes = 40;
    const long n = static_cast<long>(cmds.size());
    while (start < n) {
        std::fflush(ev::out());
        g_sh->idx = start; g_sh->phase = 0;
        pid_t pid = fork();
        if (pid < 0) { std::perror("fork"); return 2; }
        if (pid == 0) {
            int fd = ::open(errfile.c_str(), O_WRONLY | O_CREAT | O_TRUNC, 0644);
            if (fd >= 0) { dup2(fd, 2); ::close(fd); }
            g_errfile = errfile; g_mark = 0;
            for (long i = start; i < n; ++i) {
                g_sh->idx = i;
                run_one(cmds[i]);
            }
            std::fflush(ev::out());
            _exit(0);
        }
        int status = 0;
        if (waitpid(pid, &status, 0) < 0) { std::perror("waitpid"); return 2; }
        if (WIFEXITED(status) && WEXITSTATUS(status) == 0) break;
        if (WIFEXITED(status) && WEXITSTATUS(status) == 2) {   // the driver's own die(): machinery
            std::ifstream ef(errfile); std::stringstream ss; ss << ef.rdbuf();
            std::fprintf(stderr, "%s", ss.str().c_str());
            return 2;
        }
        long i = g_sh->idx;
        int phase = g_sh->phase;
        // the worker's unflushed events are lost with it only if it died inside an operation:
        // it flushes after every event, so everything before operation i is in the file.
        std::fseek(ev::out(), 0, SEEK_END);
        g_sh->idx = i;
        std::string why = classify(errfile, status);
        // On an oversubscribed (virtualised) machine even CPU-time accounting is inflated now and then: a time-out
        // is reported only if the same operation exceeds the watchdog three times in a row (a loop always does).
        if (why == "timeout" && confirmed_timeouts == 0 && (i != timeout_at || ++timeout_tries < 3)) {
            if (i != timeout_at) { timeout_at = i; timeout_tries = 1; }
            start = i;
            continue;
        }
        if (why == "timeout") ++confirmed_timeouts;
        crash_event(cmds[i], phase == 1 ? "enc" : phase == 2 ? "dec" : "driver", why, false);
        start = i + 1;
        if (++crashes >= kMaxCrashes || confirmed_timeouts >= 4) {
            // every dead worker costs a fork of a sanitizer-instrumented process: after kMaxCrashes (or 4 time-outs) the rest of
            // the script is not executed (the verdict is a violation anyway); the trace says so explicitly
            for (long j = start; j < n; ++j) { ev::Ev s("skipped"); s.i("line", j + 1).emit(); }
            break;
        }
    }
    std::fflush(ev::out());
    return 0;
}
