# C17/C18: the driver needs protocol/Manifest.o only (keeps the asan flavour quick to build)
EXCL_manifest := $(patsubst %.cpp,%.o,$(filter-out protocol/Manifest.cpp,$(CORE_SRC)))
