# C17/C18: harness/manifest.cpp #includes $(REPO)/src/protocol/Manifest.cpp (nothing else of the repo is needed);
# UBSan in recover mode for this TU so that an input reaching undefined behaviour does not cost a worker process
EXCL_manifest := $(patsubst %.cpp,%.o,$(CORE_SRC))
CXXFLAGS_manifest := -I$(REPO)/src -fsanitize-recover=undefined
