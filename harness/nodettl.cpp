// Driver for the TTL life-cycle of a real Node (C01 node level, C02, C03, C05).
//   nodettl <script> <trace-out> <workdir>
// One Node "A" under test per behaviour, a helper publisher Node "B" that produces real
// manifests + ciphertexts, and peer stubs: socketpair ends adopted as sessions of A, so that what
// A sends to a peer (CHUNK / negative ACK) is read back synchronously and decoded.
#include "common/ev.hpp"
#include "common/vclock.hpp"
#include "common/vrng.hpp"
#include "ephemeralnet/core/Node.hpp"
#include "ephemeralnet/crypto/ChaCha20.hpp"
#include "ephemeralnet/protocol/Manifest.hpp"
#include "ephemeralnet/protocol/Message.hpp"

#include <sys/socket.h>
#include <fcntl.h>
#include <poll.h>
#include <unistd.h>
#include <algorithm>
#include <filesystem>
#include <memory>
#include <set>
#include <cmath>

using namespace ephemeralnet;

namespace ephemeralnet::test {
class NodeTestAccess {
public:
    static auto& store(Node& n) { return n.chunk_store_; }
    static auto& dht(Node& n) { return n.dht_; }
    static auto& cache(Node& n) { return n.manifest_cache_; }
    static auto& plans(Node& n) { return n.swarm_plans_; }
    static auto& pending(Node& n) { return n.pending_chunk_fetches_; }
    static auto& sessions(Node& n) { return n.sessions_; }
    static auto last_cleanup(Node& n) { return n.last_cleanup_; }
    static std::recursive_mutex& mtx(Node& n) { return n.scheduler_mutex_; }
    static void handle_request(Node& n, const protocol::RequestPayload& p, const PeerId& s) { n.handle_request(p, s); }
    static void handle_acknowledge(Node& n, const protocol::AcknowledgePayload& p, const PeerId& s) { n.handle_acknowledge(p, s); }
    static void handle_chunk(Node& n, const protocol::ChunkPayload& p, const PeerId& s) { n.handle_chunk(p, s); }
    static void handle_announce(Node& n, const protocol::AnnouncePayload& p, const PeerId& s, std::uint8_t v) { n.handle_announce(p, s, v); }
};
}
using Acc = ephemeralnet::test::NodeTestAccess;

static constexpr long kClampMs = 2'000'000'000L;
static long long clampms(long long ms) { return std::max<long long>(-kClampMs, std::min<long long>(kClampMs, ms)); }
static long long st_ms(std::chrono::steady_clock::time_point tp) {
    if (tp == std::chrono::steady_clock::time_point::max()) return kClampMs;
    if (tp == std::chrono::steady_clock::time_point{}) return -kClampMs;
    return clampms(vclock::steady_to_ns(tp) / 1'000'000LL);
}
static long long sy_ms(std::chrono::system_clock::time_point tp) {
    if (tp == std::chrono::system_clock::time_point{}) return -kClampMs;
    // avoid overflow in the subtraction for extreme values
    auto ns = std::chrono::duration_cast<std::chrono::nanoseconds>(tp.time_since_epoch()).count();
    long double ms = (static_cast<long double>(ns) - static_cast<long double>(vclock::kSystemEpochNs)) / 1e6L;
    if (ms > kClampMs) return kClampMs;
    if (ms < -kClampMs) return -kClampMs;
    return static_cast<long long>(std::floor(ms));
}
static long long now_ms() { return vclock::now_ns() / 1'000'000LL; }

static std::vector<std::uint8_t> payload_bytes(long k) {
    std::vector<std::uint8_t> v(static_cast<size_t>(1 + (k * 13) % 40 + (k % 4 == 3 ? 3000 : 0)));
    for (size_t i = 0; i < v.size(); ++i) v[i] = static_cast<std::uint8_t>(1 + ((k * 31 + static_cast<long>(i) * 7) % 255));
    return v;
}
static int classify(const std::vector<std::uint8_t>& data) {
    for (long k = 0; k < 8; ++k) if (data == payload_bytes(k)) return static_cast<int>(k);
    return -2;
}
static ChunkId cid(long c) { return ev::id32(c, 0xC0); }
static PeerId pid(long p) { return ev::id32(p, 0xA0); }

struct PeerStub { int fd = -1; };

struct Driver {
    std::unique_ptr<Node> a, b;
    std::map<std::string, long> chunk_of, peer_of;
    std::map<long, PeerStub> stubs;
    // manifests made by "mk": per slot m
    struct Made { long c; long b; std::string uri; std::vector<std::uint8_t> cipher; long long exp_ms; protocol::Manifest manifest; };
    std::map<long, Made> made;
    std::string workdir;

    Driver() {
        for (long k = 0; k < 64; ++k) { chunk_of[chunk_id_to_string(cid(k))] = k; peer_of[peer_id_to_string(pid(k))] = k; }
    }
    ~Driver() { close_stubs(); }
    void close_stubs() { for (auto& [p, s] : stubs) if (s.fd >= 0) ::close(s.fd); stubs.clear(); }

    long cnum(const std::string& key) { auto it = chunk_of.find(key); return it == chunk_of.end() ? -1 : it->second; }
    long pnum(const PeerId& id) { if (a && id == a->id()) return 0; auto it = peer_of.find(peer_id_to_string(id)); return it == peer_of.end() ? -1 : it->second; }

    // ------- projection of everything the node holds that has a lifetime --------------------------
    std::string proj() {
        std::unique_lock<std::recursive_mutex> lk(Acc::mtx(*a));
        std::vector<std::string> chunks, listed, cache, shard, loc, pend, plans;
        auto snap = Acc::store(*a).snapshot();
        std::sort(snap.begin(), snap.end(), [](auto& x, auto& y) { return x.key < y.key; });
        for (auto& s : snap) chunks.push_back("[" + std::to_string(cnum(s.key)) + "," + std::to_string(st_ms(s.expires_at)) + "]");
        std::map<long, long long> cm;
        for (auto& [k, m] : Acc::cache(*a)) cm[cnum(k)] = sy_ms(m.expires_at);
        for (auto& [c, e] : cm) cache.push_back("[" + std::to_string(c) + "," + std::to_string(e) + "]");
        for (long c = 0; c < 16; ++c) if (auto r = Acc::dht(*a).shard_record(cid(c))) shard.push_back("[" + std::to_string(c) + "," + std::to_string(st_ms(r->expires_at)) + "]");
        auto locs = Acc::dht(*a).snapshot_locators();
        std::sort(locs.begin(), locs.end(), [](auto& x, auto& y) { return x.id < y.id; });
        for (auto& l : locs) {
            std::vector<std::string> hs;
            auto holders = l.holders;
            std::sort(holders.begin(), holders.end(), [](auto& x, auto& y) { return x.id < y.id; });
            for (auto& h : holders) hs.push_back("[" + std::to_string(pnum(h.id)) + "," + std::to_string(st_ms(h.expires_at)) + "]");
            loc.push_back("[" + std::to_string(cnum(chunk_id_to_string(l.id))) + "," + std::to_string(st_ms(l.expires_at)) + "," + ev::jlist(hs) + "]");
        }
        std::map<long, std::string> pm;
        for (auto& [k, s] : Acc::pending(*a)) pm[cnum(k)] = "[" + std::to_string(cnum(k)) + "," + std::to_string(sy_ms(s.manifest_expires)) + "," + std::to_string(s.attempts) + "]";
        for (auto& [c, s] : pm) pend.push_back(s);
        std::set<long> ps;
        for (auto& [k, p] : Acc::plans(*a)) ps.insert(cnum(k));
        for (auto c : ps) plans.push_back(std::to_string(c));
        lk.unlock();
        auto ls = a->stored_chunks();
        std::sort(ls.begin(), ls.end(), [](auto& x, auto& y) { return x.key < y.key; });
        for (auto& s : ls) listed.push_back(std::to_string(cnum(s.key)));
        return "{\"chunks\":" + ev::jlist(chunks) + ",\"listed\":" + ev::jlist(listed) + ",\"cache\":" + ev::jlist(cache) + ",\"shard\":" + ev::jlist(shard) +
               ",\"loc\":" + ev::jlist(loc) + ",\"pend\":" + ev::jlist(pend) + ",\"plans\":" + ev::jlist(plans) + "}";
    }
    void fin(ev::Ev& e) { e.i("t", now_ms()).raw("proj", proj()); e.emit(); late_serves(); }

    // what a peer obtains when it decrypts a CHUNK message with the manifest A holds for the chunk at that moment
    int chunk_class(long id, const protocol::ChunkPayload& cp) {
        std::optional<protocol::Manifest> man;
        { std::unique_lock<std::recursive_mutex> lk(Acc::mtx(*a)); auto it = Acc::cache(*a).find(chunk_id_to_string(cid(id))); if (it != Acc::cache(*a).end()) man = it->second; }
        std::optional<ChunkData> plain;
        if (man && man->threshold > 0 && man->shards.size() >= man->threshold) {
            std::vector<crypto::ShamirShare> shares;
            for (auto& sh : man->shards) { crypto::ShamirShare x{}; x.index = sh.index; x.value = sh.value; shares.push_back(x); }
            try {
                crypto::Key k{}; k.bytes = crypto::Shamir::combine(shares, man->threshold);
                plain = crypto::CryptoManager::decrypt_with_key(k, cid(id), std::span<const std::uint8_t>(cp.data), man->nonce);
            } catch (const std::exception&) {}
        }
        return plain ? classify(*plain) : -3;
    }
    // a request that had to wait in the upload queue is answered later (at an acknowledgement or a tick): whatever reaches a peer
    // outside its own peerreq step is a serve of that chunk at THIS instant
    bool in_late = false;
    void late_serves() {
        if (in_late) return;
        in_late = true;
        std::vector<long> ps;
        for (auto& kv : stubs) ps.push_back(kv.first);
        for (long p : ps) {
            for (auto& m : drain_stub(p)) {
                if (m.type != protocol::MessageType::Chunk) continue;
                if (auto* cp = std::get_if<protocol::ChunkPayload>(&m.payload)) {
                    const long id = cnum(chunk_id_to_string(cp->chunk_id));
                    if (id < 0) continue;
                    ev::Ev e("get"); e.i("c", id).s("via", "peerlate").i("p", p).s("res", "hit").i("b", chunk_class(id, *cp));
                    e.i("t", now_ms()).raw("proj", proj()); e.emit();
                }
            }
        }
        in_late = false;
    }

    // ------- peer stub: a socketpair end adopted by A as the session of peer p -----------------------
    void ensure_stub(long p) {
        if (stubs.count(p)) return;
        crypto::Key secret{};
        for (size_t i = 0; i < secret.bytes.size(); ++i) secret.bytes[i] = static_cast<std::uint8_t>(p * 17 + i);
        a->register_shared_secret(pid(p), secret);
        auto key = a->session_key(pid(p));
        int sv[2];
        if (socketpair(AF_UNIX, SOCK_STREAM, 0, sv) != 0) { std::perror("socketpair"); std::exit(2); }
        Acc::sessions(*a).register_peer_key(pid(p), *key);
        if (!Acc::sessions(*a).adopt_outbound_socket(pid(p), sv[0], true)) { std::fprintf(stderr, "adopt failed\n"); std::exit(2); }
        fcntl(sv[1], F_SETFL, fcntl(sv[1], F_GETFL) | O_NONBLOCK);
        stubs[p].fd = sv[1];
    }
    // read every complete frame A has written to peer p; returns decoded messages
    std::vector<protocol::Message> drain_stub(long p) {
        std::vector<protocol::Message> out;
        auto it = stubs.find(p);
        if (it == stubs.end()) return out;
        std::vector<std::uint8_t> buf;
        for (int spin = 0; spin < 3; ++spin) {
            std::uint8_t tmp[65536]; ssize_t n;
            while ((n = ::read(it->second.fd, tmp, sizeof tmp)) > 0) buf.insert(buf.end(), tmp, tmp + n);
            struct pollfd pf{it->second.fd, POLLIN, 0};
            if (poll(&pf, 1, spin == 0 ? 5 : 1) <= 0) break;
        }
        auto key = a->session_key(pid(p));
        size_t off = 0;
        while (key && buf.size() - off >= 16) {
            crypto::Nonce nonce{}; std::copy(buf.begin() + off, buf.begin() + off + 12, nonce.bytes.begin());
            std::uint32_t len = (buf[off + 12] << 24) | (buf[off + 13] << 16) | (buf[off + 14] << 8) | buf[off + 15];
            if (buf.size() - off - 16 < len) break;
            std::vector<std::uint8_t> ct(buf.begin() + off + 16, buf.begin() + off + 16 + len), pt(len);
            crypto::Key k{}; k.bytes = *key;
            crypto::ChaCha20::apply(k, nonce, ct, pt, 0u);
            if (auto m = protocol::decode_signed(pt, std::span<const std::uint8_t>(key->data(), key->size()))) out.push_back(*m);
            off += 16 + len;
        }
        return out;
    }

    void run(const ev::Cmd& c) {
        const std::string& op = c.op;
        if (op == "reset") {
            // A never starts its listener, so SessionManager::stop() is a no-op and the adopted sessions'
            // reader threads must be gone before the node is destroyed: close our ends and wait for them.
            close_stubs();
            if (a) { for (int i = 0; i < 5000 && Acc::sessions(*a).active_session_count() != 0; ++i) usleep(1000); usleep(2000); }
            a.reset(); b.reset(); made.clear();
            vclock::set_ns(0);
            // jitter: every clock read inside the node advances virtual time a little, as real time would
            // between two reads within one call (a frozen clock hides "remaining = expiry - now" truncation slips)
            vclock::set_autostep_ns(c.i("jitter_us", 0) * 1000);
            vrng::seed(static_cast<std::uint64_t>(c.i("rseed", 7)));
            Config cfg{};
            cfg.identity_seed = 0x1234u;
            cfg.announce_pow_difficulty = 0; cfg.handshake_pow_difficulty = 0; cfg.store_pow_difficulty = 0;
            cfg.relay_enabled = false; cfg.nat_stun_enabled = false;
            cfg.announce_min_interval = std::chrono::seconds(1); cfg.announce_burst_limit = 1000000; cfg.announce_burst_window = std::chrono::seconds(1);
            cfg.min_manifest_ttl = std::chrono::seconds(c.i("min", 2));
            cfg.max_manifest_ttl = std::chrono::seconds(c.i("max", 4));
            cfg.default_chunk_ttl = std::chrono::seconds(c.i("default", 3));
            cfg.cleanup_interval = std::chrono::seconds(c.i("cleanup", 1));
            cfg.key_rotation_interval = std::chrono::seconds(c.i("rot", 300));
            cfg.shard_threshold = static_cast<std::uint8_t>(c.i("thr", 2));
            cfg.shard_total = static_cast<std::uint8_t>(c.i("total", 3));
            if (c.has("apow")) cfg.announce_pow_difficulty = static_cast<std::uint8_t>(c.i("apow"));
            if (c.has("hpow")) cfg.handshake_pow_difficulty = static_cast<std::uint8_t>(c.i("hpow"));
            if (c.has("spow")) cfg.store_pow_difficulty = static_cast<std::uint8_t>(c.i("spow"));
            Config raw = cfg;
            a = std::make_unique<Node>(pid(0), cfg);
            Config bc{}; bc.identity_seed = 0x4321u; bc.announce_pow_difficulty = 0; bc.handshake_pow_difficulty = 0; bc.relay_enabled = false; bc.nat_stun_enabled = false;
            bc.min_manifest_ttl = std::chrono::seconds(1); bc.max_manifest_ttl = std::chrono::hours(24);
            b = std::make_unique<Node>(pid(40), bc);
            const auto& sc = a->config();
            static long bi = 0;
            ev::Ev e("reset");
            e.i("bi", ++bi).i("rmin", clampms(raw.min_manifest_ttl.count() * 1000)).i("rmax", clampms(raw.max_manifest_ttl.count() * 1000)).i("rdef", clampms(raw.default_chunk_ttl.count() * 1000))
             .i("rrot", clampms(raw.key_rotation_interval.count() * 1000)).i("rapow", raw.announce_pow_difficulty).i("rhpow", raw.handshake_pow_difficulty).i("rspow", raw.store_pow_difficulty)
             .i("min", clampms(sc.min_manifest_ttl.count() * 1000)).i("max", clampms(sc.max_manifest_ttl.count() * 1000)).i("deflt", clampms(sc.default_chunk_ttl.count() * 1000))
             .i("rot", clampms(sc.key_rotation_interval.count() * 1000)).i("apow", sc.announce_pow_difficulty).i("hpow", sc.handshake_pow_difficulty).i("spow", sc.store_pow_difficulty)
             .i("cleanup", clampms(sc.cleanup_interval.count() * 1000)).i("tol", c.i("jitter_us", 0) ? 20 : 0);
            fin(e);
        } else if (op == "store") {
            long id = c.i("c"), pb = c.i("b"); long long ttl = c.i("ttl");
            auto m = a->store_chunk(cid(id), payload_bytes(pb), std::chrono::seconds(ttl));
            long long dl = -kClampMs, sexp = -kClampMs, aexp = -kClampMs;
            {
                std::unique_lock<std::recursive_mutex> lk(Acc::mtx(*a));
                for (auto& s : Acc::store(*a).snapshot()) if (s.id == cid(id)) dl = st_ms(s.expires_at);
                if (auto r = Acc::dht(*a).shard_record(cid(id))) sexp = st_ms(r->expires_at);
                for (auto& l : Acc::dht(*a).snapshot_locators()) if (l.id == cid(id)) for (auto& h : l.holders) if (h.id == a->id()) aexp = st_ms(h.expires_at);
            }
            ev::Ev e("store"); e.i("c", id).i("b", pb).i("ttl", clampms(ttl * 1000)).i("dl", dl).i("mexp", sy_ms(m.expires_at)).i("sexp", sexp).i("aexp", aexp);
            fin(e);
        } else if (op == "selfann") {
            // the public announce_chunk(): the operator (or a library user) re-announces a chunk with a TTL of its own
            long id = c.i("c"); long long ttl = c.i("ttl");
            a->announce_chunk(cid(id), std::chrono::seconds(ttl));
            ev::Ev e("selfann"); e.i("c", id).i("ttl", clampms(ttl * 1000)); fin(e);
        } else if (op == "fetch") {
            long id = c.i("c");
            auto d = a->fetch_chunk(cid(id));
            ev::Ev e("get"); e.i("c", id).s("via", "fetch").s("res", d ? "hit" : "miss").i("b", d ? classify(*d) : -9); fin(e);
        } else if (op == "export") {
            long id = c.i("c");
            auto r = a->export_chunk_record(cid(id));
            ev::Ev e("get"); e.i("c", id).s("via", "export").s("res", r ? "hit" : "miss").i("b", -8); fin(e);
        } else if (op == "peerreq") {
            long id = c.i("c"), p = c.i("p", 1);
            ensure_stub(p);
            drain_stub(p);
            protocol::RequestPayload rq{cid(id), pid(p)};
            Acc::handle_request(*a, rq, pid(p));
            auto msgs = drain_stub(p);
            std::string res = "none"; int cls = -9;
            for (auto& m : msgs) {
                if (m.type == protocol::MessageType::Chunk) {
                    res = "hit";
                    if (auto* cp = std::get_if<protocol::ChunkPayload>(&m.payload)) {
                        // decrypt what the peer would obtain, using the manifest A holds for the chunk
                        std::optional<protocol::Manifest> man;
                        { std::unique_lock<std::recursive_mutex> lk(Acc::mtx(*a)); auto it = Acc::cache(*a).find(chunk_id_to_string(cid(id))); if (it != Acc::cache(*a).end()) man = it->second; }
                        std::optional<ChunkData> plain;
                        if (man && man->threshold > 0 && man->shards.size() >= man->threshold) {
                            std::vector<crypto::ShamirShare> shares;
                            for (auto& sh : man->shards) { crypto::ShamirShare x{}; x.index = sh.index; x.value = sh.value; shares.push_back(x); }
                            try {
                                crypto::Key k{}; k.bytes = crypto::Shamir::combine(shares, man->threshold);
                                plain = crypto::CryptoManager::decrypt_with_key(k, cid(id), std::span<const std::uint8_t>(cp->data), man->nonce);
                            } catch (const std::exception&) {}
                        }
                        cls = plain ? classify(*plain) : -3;
                    }
                } else if (m.type == protocol::MessageType::Acknowledge) {
                    if (auto* ap = std::get_if<protocol::AcknowledgePayload>(&m.payload)) if (!ap->accepted && res == "none") res = "miss";
                }
            }
            ev::Ev e("get"); e.i("c", id).s("via", "peerreq").i("p", p).s("res", res).i("b", cls); fin(e);
        } else if (op == "peerack") {
            // the peer acknowledges a transfer: its slot is released and requests that waited for it are dispatched
            long id = c.i("c"), p = c.i("p", 1);
            ensure_stub(p);
            protocol::AcknowledgePayload ap{cid(id), pid(p), c.i("ok", 1) != 0};
            Acc::handle_acknowledge(*a, ap, pid(p));
            ev::Ev e("mk"); e.s("what", "peerack").i("c", id).i("p", p); fin(e);
        } else if (op == "list") {
            std::vector<long long> ids;
            for (auto& s : a->stored_chunks()) ids.push_back(cnum(s.key));
            std::sort(ids.begin(), ids.end());
            ev::Ev e("list"); e.ints("ids", ids); fin(e);
        } else if (op == "tick") {
            auto before = Acc::last_cleanup(*a);
            a->tick();
            bool cleaned = Acc::last_cleanup(*a) != before;
            auto rep = a->audit_ttl();
            ev::Ev e("tick"); e.b("cleaned", cleaned).b("healthy", rep.healthy())
                .i("a_local", rep.expired_local_chunks.size()).i("a_loc", rep.expired_locator_chunks.size()).i("a_contacts", rep.expired_contacts.size())
                .i("a_missing", rep.missing_announcements.size()).i("a_orphan", rep.orphan_announcements.size());
            fin(e);
        } else if (op == "drain") {
            std::vector<long long> ids;
            for (auto& k : a->drain_cleanup_notifications()) ids.push_back(cnum(k));
            ev::Ev e("drain"); e.ints("ids", ids); fin(e);
        } else if (op == "adv") {
            vclock::advance_ms(c.i("ms"));
            ev::Ev e("adv"); e.i("ms", c.i("ms")); fin(e);
        } else if (op == "mk") {
            // manifest slot m for chunk c / payload b whose expiry is now + e ms (any sign / size)
            long m = c.i("m"), id = c.i("c"), pb = c.i("b"); long long e_ms = c.i("e");
            auto man = b->store_chunk(cid(id), payload_bytes(pb), std::chrono::seconds(3600));
            auto rec = b->export_chunk_record(cid(id));
            man.expires_at = std::chrono::system_clock::now() + std::chrono::milliseconds(e_ms);
            // eabs=<s>: an absolute expiry in seconds since the epoch (the codec carries any 64-bit second count within +-9223372036:
            // expiries centuries in the past or in the future, where subtracting "now" in nanoseconds leaves the 64-bit range)
            if (c.has("eabs")) man.expires_at = std::chrono::system_clock::time_point(std::chrono::duration_cast<std::chrono::system_clock::duration>(std::chrono::seconds(c.i("eabs"))));
            if (c.has("thr")) man.threshold = static_cast<std::uint8_t>(c.i("thr"));
            if (c.has("drop")) man.shards.resize(std::min<size_t>(man.shards.size(), static_cast<size_t>(c.i("drop"))));
            man.discovery_hints.clear(); man.fallback_hints.clear();
            Made md{id, pb, protocol::encode_manifest(man), rec ? rec->data : std::vector<std::uint8_t>{}, 0, man};
            // the expiry the codec actually carries (whole seconds)
            md.exp_ms = sy_ms(protocol::decode_manifest(md.uri).expires_at);
            made[m] = md;
            ev::Ev e("mk"); e.i("m", m).i("c", id).i("b", pb).i("exp", md.exp_ms).i("thr", man.threshold).i("nshards", man.shards.size()); fin(e);
        } else if (op == "ingest" || op == "request") {
            long m = c.i("m"); auto& md = made.at(m);
            bool ok = op == "ingest" ? a->ingest_manifest(md.uri) : a->request_chunk(pid(c.i("p", 1)), "", 0, md.uri);
            // request_chunk returns false when it cannot connect; whether the manifest was admitted shows in proj
            ev::Ev e("manifest"); e.s("via", op).i("m", m).i("c", md.c).i("exp", md.exp_ms).b("ok", ok).i("thr", md.manifest.threshold).i("nshards", md.manifest.shards.size()); fin(e);
        } else if (op == "recv" || op == "chunkin") {
            long m = c.i("m"); auto& md = made.at(m);
            auto cipher = md.cipher;
            long corrupt = c.i("corrupt", 0);
            if (corrupt == 1 && !cipher.empty()) cipher[cipher.size() / 2] ^= 0x40;
            if (corrupt == 2) cipher.push_back(0x11);
            if (corrupt == 3 && !cipher.empty()) cipher.pop_back();
            bool ok = false; int cls = -9; long long dl = -kClampMs;
            if (op == "recv") {
                auto r = a->receive_chunk(md.uri, cipher);
                ok = r.has_value(); if (r) cls = classify(*r);
            } else {
                long p = c.i("p", 1);
                ensure_stub(p); drain_stub(p);
                protocol::ChunkPayload cp{}; cp.chunk_id = cid(md.c); cp.data = cipher; cp.ttl = std::chrono::seconds(c.i("ttl", 60));
                Acc::handle_chunk(*a, cp, pid(p));
                for (auto& msg : drain_stub(p)) if (msg.type == protocol::MessageType::Acknowledge) if (auto* ap = std::get_if<protocol::AcknowledgePayload>(&msg.payload)) ok = ap->accepted;
                cls = md.b;
            }
            { std::unique_lock<std::recursive_mutex> lk(Acc::mtx(*a)); for (auto& s : Acc::store(*a).snapshot()) if (s.id == cid(md.c)) dl = st_ms(s.expires_at); }
            ev::Ev e("replica"); e.s("via", op).i("m", m).i("c", md.c).i("b", md.b).i("exp", md.exp_ms).i("corrupt", corrupt).b("ok", ok).i("cls", cls).i("dl", dl)
                .i("thr", md.manifest.threshold).i("nshards", md.manifest.shards.size()); fin(e);
        } else if (op == "announce") {
            long m = c.i("m"), p = c.i("p", 1); auto& md = made.at(m);
            protocol::AnnouncePayload ap{};
            ap.chunk_id = cid(md.c); ap.peer_id = pid(p); ap.endpoint = c.i("noep", 0) ? "" : ("127.0.0.1:" + std::to_string(2000 + p));
            ap.ttl = std::chrono::seconds(c.i("ttl", 0)); ap.manifest_uri = md.uri;
            if (c.i("assign", 0) && !md.manifest.shards.empty()) ap.assigned_shards.push_back(md.manifest.shards.front().index);
            Acc::handle_announce(*a, ap, pid(p), protocol::kCurrentMessageVersion);
            ev::Ev e("manifest"); e.s("via", "announce").i("m", m).i("c", md.c).i("p", p).i("exp", md.exp_ms).i("attl", clampms(c.i("ttl", 0) * 1000)).i("assign", c.i("assign", 0))
                .i("thr", md.manifest.threshold).i("nshards", md.manifest.shards.size()); fin(e);
        } else {
            std::fprintf(stderr, "nodettl: unknown op %s\n", op.c_str()); std::exit(2);
        }
    }
};

int main(int argc, char** argv) {
    if (argc < 4) { std::fprintf(stderr, "usage: nodettl <script> <trace> <workdir>\n"); return 2; }
    std::filesystem::create_directories(argv[3]);
    std::filesystem::current_path(argv[3]);
    // the node logs to cerr/clog; keep the run quiet
    if (!std::getenv("VERIF_VERBOSE")) { std::freopen("/dev/null", "w", stderr); }
    ev::open(argv[2]);
    std::set_terminate([] {
        std::string what = "unknown";
        if (auto ep = std::current_exception()) { try { std::rethrow_exception(ep); } catch (const std::exception& e) { what = e.what(); } catch (...) {} }
        ev::Ev e("terminated"); e.s("what", what).i("t", now_ms()); e.emit();
        std::fflush(ev::out());
        _exit(3);
    });
    std::ifstream in(argv[1]);
    if (!in) { std::perror(argv[1]); return 2; }
    Driver d;
    ev::Cmd c;
    while (ev::read_cmd(in, c)) {
        if (!d.a && c.op != "reset") { ev::Cmd r; r.op = "reset"; d.run(r); }
        d.run(c);
    }
    std::fflush(ev::out());
    _exit(0);   // skip destructors of nodes with detached reader threads
}
