// Supervisor shared by the pure-function drivers of the "parsers" group (stun, updatejson):
// the cases run in a forked child, on a thread with a fixed-size stack, with a per-case watchdog.
// A case that kills the child (signal, sanitizer abort, stack overflow, time-out) is reported by
// the parent as one {"op":"died",...} event and the run goes on with the next case, so a crash is
// an observation in the trace, never the end of the run.
#pragma once
#include "common/ev.hpp"

#include <pthread.h>
#include <signal.h>
#include <sys/mman.h>
#include <sys/resource.h>
#include <sys/wait.h>
#include <unistd.h>
#include <fcntl.h>
#include <cstring>
#include <functional>
#include <string>

namespace sup {

struct Shared { volatile long current; volatile long stack_lo; volatile long stack_hi; };
inline Shared*& shared() { static Shared* s = nullptr; return s; }

struct Options {
    std::size_t stack_bytes = 8u << 20;   // stack of the thread that runs the cases
    unsigned watchdog_s = 5;              // per case
    std::string stderr_path;              // the child's stderr goes here (sanitizer reports)
};

#if defined(__SANITIZE_ADDRESS__)
constexpr bool kAsan = true;
#else
constexpr bool kAsan = false;
#endif

// plain flavour: tell a stack overflow (fault inside the guard area below the case thread's stack)
// from any other SIGSEGV.  Runs on the alternate stack.
inline void segv_handler(int sig, siginfo_t* si, void*) {
    long a = reinterpret_cast<long>(si->si_addr);
    Shared* s = shared();
    bool overflow = s && a >= s->stack_lo - (1L << 16) && a < s->stack_lo + (1L << 16);
    _exit(overflow ? 86 : (sig == SIGBUS ? 88 : 87));
}

struct ThreadArg { const std::function<void(long)>* fn; long first; long n; unsigned watchdog; };
inline void* thread_main(void* p) {
    auto* a = static_cast<ThreadArg*>(p);
    if (!kAsan) {
        static char alt[1 << 16];
        stack_t ss{}; ss.ss_sp = alt; ss.ss_size = sizeof alt; sigaltstack(&ss, nullptr);
        pthread_attr_t at; pthread_getattr_np(pthread_self(), &at);
        void* lo = nullptr; std::size_t sz = 0; pthread_attr_getstack(&at, &lo, &sz); pthread_attr_destroy(&at);
        shared()->stack_lo = reinterpret_cast<long>(lo); shared()->stack_hi = reinterpret_cast<long>(lo) + static_cast<long>(sz);
    }
    for (long k = a->first; k < a->n; ++k) {
        shared()->current = k;
        alarm(a->watchdog);
        (*a->fn)(k);
        alarm(0);
        std::fflush(ev::out());
    }
    shared()->current = a->n;
    return nullptr;
}

// first line of the child's stderr that names a sanitizer finding -> short kind
inline std::string sanitizer_kind(const std::string& path, std::string& first_line) {
    std::ifstream in(path);
    std::string line, kind;
    while (std::getline(in, line)) {
        auto p = line.find("ERROR: AddressSanitizer: ");
        if (p != std::string::npos) {
            std::string rest = line.substr(p + 25);
            kind = rest.substr(0, rest.find_first_of(" \t"));
            first_line = line; break;
        }
        p = line.find("runtime error: ");
        if (p != std::string::npos) { kind = "undefined-behaviour"; first_line = line; break; }
        p = line.find("ERROR: LeakSanitizer");
        if (p != std::string::npos) { kind = "leak"; first_line = line; break; }
    }
    return kind;
}

// Runs fn(0..n-1).  died(k, how, detail) is called in the parent for a case that killed the child;
// how: "sanitizer/<kind>" | "stack-overflow" | "hang" | "signal/<n>" | "exit/<n>"
inline void run(long n, const std::function<void(long)>& fn, const std::function<void(long, const std::string&, const std::string&)>& died,
                const Options& opt) {
    shared() = static_cast<Shared*>(mmap(nullptr, sizeof(Shared), PROT_READ | PROT_WRITE, MAP_SHARED | MAP_ANONYMOUS, -1, 0));
    long next = 0;
    int round = 0;
    while (next < n) {
        std::fflush(ev::out());
        shared()->current = next;
        std::string errp = opt.stderr_path + "." + std::to_string(round++);
        pid_t pid = fork();
        if (pid == 0) {
            int fd = ::open(errp.c_str(), O_WRONLY | O_CREAT | O_TRUNC, 0644);
            if (fd >= 0) { dup2(fd, 2); ::close(fd); }
            if (!kAsan) {
                struct sigaction sa{}; sa.sa_sigaction = segv_handler; sa.sa_flags = SA_SIGINFO | SA_ONSTACK;
                sigaction(SIGSEGV, &sa, nullptr); sigaction(SIGBUS, &sa, nullptr);
            }
            pthread_attr_t at; pthread_attr_init(&at); pthread_attr_setstacksize(&at, opt.stack_bytes);
            ThreadArg arg{&fn, next, n, opt.watchdog_s};
            pthread_t th; if (pthread_create(&th, &at, thread_main, &arg) != 0) _exit(99);
            pthread_join(th, nullptr);
            std::fflush(ev::out());
            _exit(0);
        }
        int st = 0; waitpid(pid, &st, 0);
        long cur = shared()->current;
        if (WIFEXITED(st) && WEXITSTATUS(st) == 0 && cur >= n) { ::unlink(errp.c_str()); break; }
        std::string first, how;
        std::string kind = sanitizer_kind(errp, first);
        if (!kind.empty()) how = "sanitizer/" + kind;
        else if (WIFEXITED(st) && WEXITSTATUS(st) == 86) how = "stack-overflow";
        else if (WIFEXITED(st) && WEXITSTATUS(st) == 87) how = "signal/11";
        else if (WIFEXITED(st) && WEXITSTATUS(st) == 88) how = "signal/7";
        else if (WIFSIGNALED(st) && WTERMSIG(st) == SIGALRM) how = "hang";
        else if (WIFSIGNALED(st)) how = "signal/" + std::to_string(WTERMSIG(st));
        else how = "exit/" + std::to_string(WEXITSTATUS(st));
        if (cur >= n) cur = n - 1;
        died(cur, how, first);
        next = cur + 1;
    }
}

// exact-size heap copy: any read outside [p, p+n) is outside the allocation (ASan red zone)
struct Exact {
    std::uint8_t* p; std::size_t n;
    explicit Exact(const std::string& bytes) : p(static_cast<std::uint8_t*>(::operator new(bytes.size() ? bytes.size() : 0))), n(bytes.size()) {
        if (n) std::memcpy(p, bytes.data(), n);
    }
    ~Exact() { ::operator delete(p); }
    Exact(const Exact&) = delete; Exact& operator=(const Exact&) = delete;
};
inline std::string unhex(const std::string& h) {
    std::string out; out.reserve(h.size() / 2);
    auto v = [](char c) { return c <= '9' ? c - '0' : (c | 32) - 'a' + 10; };
    for (std::size_t i = 0; i + 1 < h.size(); i += 2) out.push_back(static_cast<char>(v(h[i]) * 16 + v(h[i + 1])));
    return out;
}
}  // namespace sup
