// Driver for C19 (proof-of-work surfaces), node / library side.      pow <script> <trace-out>
// src/core/Node.cpp and src/security/StoreProof.cpp are compiled INTO this translation unit, so that the
// anonymous-namespace functions are called directly:
//   ephemeralnet::{announce_pow_digest, announce_pow_valid, compute_announce_pow, handshake_pow_digest,
//                  handshake_pow_valid, compute_handshake_pow, count_leading_zero_bits}            (Node.cpp)
//   ephemeralnet::security::{pow_digest, count_leading_zero_bits} + public store_pow_valid / compute_store_pow
//   ephemeralnet::bootstrap::{digest_meets_difficulty, solve_token_challenge}                      (linked)
// Script format and event shapes: harness/pow_common.hpp, spec/PowTrace.tla.  No verdict is computed here.
#include "core/Node.cpp"
#include "security/StoreProof.cpp"

#include "ephemeralnet/bootstrap/TokenChallenge.hpp"
#include "pow_common.hpp"

using namespace powh;
namespace en = ephemeralnet;

// Where the real solvers start their search (seed -> first 64-bit draw of std::mt19937_64), if the tree still derives it this way; used
// only to FIND inputs whose search walks across a power-of-two boundary of the nonce (seek), never to judge anything.
namespace ephemeralnet {
template <class P> static std::optional<std::uint64_t> verif_hs_start(const P& a, const P& b, std::uint32_t pub) {
    if constexpr (requires { derive_handshake_seed(a, b, pub); }) {
        std::mt19937_64 g(derive_handshake_seed(a, b, pub));
        std::uniform_int_distribution<std::uint64_t> d(0, std::numeric_limits<std::uint64_t>::max());
        return d(g);
    } else { return std::nullopt; }
}
template <class A> static std::optional<std::uint64_t> verif_ann_start(const A& payload) {
    if constexpr (requires { derive_pow_seed(payload); }) {
        std::mt19937_64 g(derive_pow_seed(payload));
        std::uniform_int_distribution<std::uint64_t> d(0, std::numeric_limits<std::uint64_t>::max());
        return d(g);
    } else { return std::nullopt; }
}
}  // namespace ephemeralnet

static en::protocol::AnnouncePayload announce_payload(const Fields& f, std::uint64_t nonce) {
    en::protocol::AnnouncePayload p;
    p.chunk_id = arr32(fld(f, "cid"));
    p.peer_id = arr32(fld(f, "peer"));
    p.endpoint = str(fld(f, "ep"));
    p.manifest_uri = str(fld(f, "uri"));
    p.assigned_shards = fld(f, "shards");
    p.ttl = std::chrono::seconds(static_cast<std::int64_t>(from_be(fld(f, "ttl"))));
    p.work_nonce = nonce;
    return p;
}
static std::uint32_t pub_of(const Fields& f) {
    if (fld(f, "pub").size() != 4) die("pub must be 4 bytes");
    return static_cast<std::uint32_t>(from_be(fld(f, "pub")));
}
template <class A> static Bytes vec(const A& a) { return Bytes(a.begin(), a.end()); }

int main(int argc, char** argv) {
    if (argc < 3) die("usage: pow <script> <trace-out>");
    std::ifstream in(argv[1]);
    if (!in) die("cannot read script");
    ev::open(argv[2]);

    SurfaceOps hs{"node",
        [](const Fields& f, std::uint64_t n, std::uint8_t d) { return en::handshake_pow_valid(arr32(fld(f, "init")), arr32(fld(f, "resp")), pub_of(f), n, d); },
        [](const Fields& f, std::uint64_t n) { return vec(en::handshake_pow_digest(arr32(fld(f, "init")), arr32(fld(f, "resp")), pub_of(f), n)); },
        [](const Fields& f, std::uint8_t d) -> std::optional<std::uint64_t> {
            std::uint64_t n = 0;
            if (!en::compute_handshake_pow(arr32(fld(f, "init")), arr32(fld(f, "resp")), pub_of(f), d, n)) return std::nullopt;
            return n;
        }};
    SurfaceOps ann{"node",
        [](const Fields& f, std::uint64_t n, std::uint8_t d) { return en::announce_pow_valid(announce_payload(f, n), d); },
        [](const Fields& f, std::uint64_t n) { return vec(en::announce_pow_digest(announce_payload(f, n))); },
        [](const Fields& f, std::uint8_t d) -> std::optional<std::uint64_t> {
            auto p = announce_payload(f, 0x5555555555555555ull);
            if (!en::compute_announce_pow(p, d)) return std::nullopt;
            return p.work_nonce;
        }};
    auto store_input = [](const Fields& f, std::string& keep) {
        en::security::StoreWorkInput inp;
        inp.chunk_id = arr32(fld(f, "cid"));
        if (fld(f, "size").size() != 8) die("size must be 8 bytes");
        inp.payload_size = from_be(fld(f, "size"));
        keep = str(fld(f, "fname"));
        inp.filename_hint = keep;
        return inp;
    };
    SurfaceOps store{"lib",
        [&](const Fields& f, std::uint64_t n, std::uint8_t d) { std::string k; const auto inp = store_input(f, k); return en::security::store_pow_valid(inp, n, d); },
        [&](const Fields& f, std::uint64_t n) { std::string k; const auto inp = store_input(f, k); return vec(en::security::pow_digest(inp, n)); },
        [&](const Fields& f, std::uint8_t d) { std::string k; const auto inp = store_input(f, k); return en::security::compute_store_pow(inp, d); }};
    TokenOps tok{"lib",
        [](const Fields& f, std::uint8_t d, std::uint64_t max) {
            en::protocol::Manifest m;
            m.chunk_id = arr32(fld(f, "cid"));
            m.chunk_hash = arr32(fld(f, "hash"));
            en::protocol::DiscoveryHint h;
            h.scheme = "control";
            h.transport = "control";
            h.endpoint = str(fld(f, "ep"));
            return en::bootstrap::solve_token_challenge(m, h, d, max);
        },
        [](const Bytes& dg, std::uint8_t d) { return en::bootstrap::digest_meets_difficulty(std::span<const std::uint8_t>(dg.data(), dg.size()), d); },
        [](const Bytes& m) { return vec(en::crypto::Sha256::digest(std::span<const std::uint8_t>(m.data(), m.size()))); }};

    ev::Cmd c;
    long line = 0;
    while (ev::read_cmd(in, c)) {
        ++line;
        if (c.s("on", "both") == "cli") continue;
        if (c.op == "lz") {
            const Bytes d = unhex(c.s("dig"));
            const auto a = arr32(d);
            ev::Ev e("lz");
            e.i("src", line).bytes("dig", d);
            e.i("node", static_cast<long long>(en::count_leading_zero_bits(a)));
            e.i("store", static_cast<long long>(en::security::count_leading_zero_bits(std::span<const std::uint8_t>(a.data(), a.size()))));
            e.i("cli", -1).i("tokrec", 1);
            e.ints("tok", accepted([&](std::uint8_t k) { return en::bootstrap::digest_meets_difficulty(std::span<const std::uint8_t>(a.data(), a.size()), k); }));
            e.emit();
        } else if (c.op == "case") {
            const auto s = c.s("surface");
            run_case(line, c, s == "handshake" ? hs : s == "announce" ? ann : s == "store" ? store : (die("unknown surface " + s), hs));
        } else if (c.op == "seek") {
            // seek surface=handshake|announce k=<bits> span=<n> d=<difficulty> tries=<n> f.<fields>: vary the last 8 bytes of the responder /
            // announcing peer id until the solver's walk starts within `span` below a multiple of 2^k, then run an ordinary case on that input
            const auto s = c.s("surface");
            const long k = c.i("k", 32), span = c.i("span", 3000);
            const std::uint64_t mask = k >= 64 ? ~0ull : ((1ull << k) - 1);
            Fields f = read_fields(c, s);
            const std::string vary = s == "handshake" ? "resp" : "peer";
            bool found = false; long long tried = 0;
            for (long long i = 0; i < c.i("tries", 6000000) && !found; ++i, ++tried) {
                for (auto& kv : f) if (kv.first == vary) { const Bytes t = be64(static_cast<std::uint64_t>(i) * 0x9E3779B97F4A7C15ull + 1); std::copy(t.begin(), t.end(), kv.second.end() - 8); }
                std::optional<std::uint64_t> st;
                if (s == "handshake") st = en::verif_hs_start(arr32(fld(f, "init")), arr32(fld(f, "resp")), pub_of(f));
                else st = en::verif_ann_start(announce_payload(f, 0));
                if (!st.has_value()) break;
                const std::uint64_t below = (mask - (*st & mask)) + 1;      // steps until the low k bits wrap
                found = below <= static_cast<std::uint64_t>(span);
            }
            ev::Ev("seek").i("src", line).s("surface", s).i("k", k).i("found", found ? 1 : 0).i("tried", tried).emit();
            if (found) {
                ev::Cmd c2 = c;
                c2.op = "case";
                for (const auto& kv : f) if (kv.first == vary) { std::string hx; static const char* dg = "0123456789abcdef"; for (auto b : kv.second) { hx.push_back(dg[b >> 4]); hx.push_back(dg[b & 15]); } c2.kv["f." + vary] = hx; }
                run_case(line, c2, s == "handshake" ? hs : ann);
            }
        } else if (c.op == "tok") {
            run_tok(line, c, tok);
        } else {
            die("unknown command " + c.op);
        }
    }
    std::fclose(ev::out());
    return 0;
}
