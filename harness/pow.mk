# C19: pow.cpp #includes src/core/Node.cpp and src/security/StoreProof.cpp (anonymous-namespace digests / counters / solvers)
EXCL_pow := core/Node.o security/StoreProof.o
CXXFLAGS_pow := -I$(REPO)/src
# C19, CLI side: pow_cli.cpp #includes src/main.cpp (main renamed) for the CLI's own counter / handshake PoW copies
EXTRA_pow_cli := daemon/ControlPlane.o daemon/ControlClient.o daemon/ControlServer.o daemon/StructuredLogger.o
CXXFLAGS_pow_cli := -O0 -DEPH_MAIN_CPP='"$(REPO)/src/main.cpp"'
