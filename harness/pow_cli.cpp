// Driver for C19, CLI side.      pow_cli <script> <trace-out>
// The whole of src/main.cpp is compiled into this translation unit (main renamed), which exposes the CLI's OWN copies
// in its anonymous namespace: count_leading_zero_bits, transport_handshake_digest, transport_pow_valid,
// compute_transport_pow and compute_bootstrap_token (the CLI's wrapper around bootstrap::solve_token_challenge; the CLI's
// STORE command calls security::compute_store_pow of the library directly, which harness/pow.cpp covers).
// Script format and event shapes: harness/pow_common.hpp, spec/PowTrace.tla.  No verdict is computed here.
#include "pow_common.hpp"

#define main eph_cli_main
#include EPH_MAIN_CPP
#undef main

namespace {
std::uint32_t cli_pub_of(const powh::Fields& f) {
    if (powh::fld(f, "pub").size() != 4) powh::die("pub must be 4 bytes");
    return static_cast<std::uint32_t>(powh::from_be(powh::fld(f, "pub")));
}
template <class A> powh::Bytes cli_vec(const A& a) { return powh::Bytes(a.begin(), a.end()); }
}  // namespace

int main(int argc, char** argv) {
    if (argc < 3) powh::die("usage: pow_cli <script> <trace-out>");
    std::ifstream in(argv[1]);
    if (!in) powh::die("cannot read script");
    ev::open(argv[2]);

    powh::SurfaceOps hs{"cli",
        [](const powh::Fields& f, std::uint64_t n, std::uint8_t d) {
            return transport_pow_valid(powh::arr32(powh::fld(f, "init")), powh::arr32(powh::fld(f, "resp")), cli_pub_of(f), n, d); },
        [](const powh::Fields& f, std::uint64_t n) {
            return cli_vec(transport_handshake_digest(powh::arr32(powh::fld(f, "init")), powh::arr32(powh::fld(f, "resp")), cli_pub_of(f), n)); },
        [](const powh::Fields& f, std::uint8_t d) {
            return compute_transport_pow(powh::arr32(powh::fld(f, "init")), powh::arr32(powh::fld(f, "resp")), cli_pub_of(f), d); }};
    powh::TokenOps tok{"cli",
        [](const powh::Fields& f, std::uint8_t d, std::uint64_t max) -> std::optional<std::uint64_t> {
            ephemeralnet::protocol::Manifest m;
            m.chunk_id = powh::arr32(powh::fld(f, "cid"));
            m.chunk_hash = powh::arr32(powh::fld(f, "hash"));
            m.security.token_challenge_bits = d;
            ephemeralnet::protocol::DiscoveryHint h;
            h.scheme = "control";
            h.transport = "control";
            h.endpoint = powh::str(powh::fld(f, "ep"));
            FetchDiscoveryOptions o;
            o.auto_token = true;
            o.max_attempts = max;
            const auto t = compute_bootstrap_token(m, h, o);
            if (!t.has_value()) return std::nullopt;
            if (t->empty() || t->find_first_not_of("0123456789") != std::string::npos) powh::die("token is not a decimal number: " + *t);
            return static_cast<std::uint64_t>(std::strtoull(t->c_str(), nullptr, 10));
        },
        [](const powh::Bytes& dg, std::uint8_t d) { return ephemeralnet::bootstrap::digest_meets_difficulty(std::span<const std::uint8_t>(dg.data(), dg.size()), d); },
        [](const powh::Bytes& m) { return cli_vec(ephemeralnet::crypto::Sha256::digest(std::span<const std::uint8_t>(m.data(), m.size()))); }};

    ev::Cmd c;
    long line = 0;
    while (ev::read_cmd(in, c)) {
        ++line;
        if (c.s("on", "both") == "node") continue;
        if (c.op == "lz") {
            const powh::Bytes d = powh::unhex(c.s("dig"));
            if (d.size() != 32) powh::die("digest must be 32 bytes");
            ev::Ev e("lz");
            e.i("src", line).bytes("dig", d).i("node", -1).i("store", -1);
            e.i("cli", static_cast<long long>(count_leading_zero_bits(std::span<const std::uint8_t>(d.data(), d.size()))));
            e.i("tokrec", 0).ints("tok", {});
            e.emit();
        } else if (c.op == "case") {
            if (c.s("surface") != "handshake") continue;        // the CLI has its own copy of the handshake surface only
            powh::run_case(line, c, hs);
        } else if (c.op == "tok") {
            powh::run_tok(line, c, tok);
        } else {
            powh::die("unknown command " + c.op);
        }
    }
    std::fclose(ev::out());
    return 0;
}
