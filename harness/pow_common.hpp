// Shared part of the two C19 drivers (harness/pow.cpp: node + library code, harness/pow_cli.cpp: the CLI's own
// copies in src/main.cpp).  Nothing here decides anything: a case is run on the REAL validator / digest / solver
// (std::function hooks filled in by the driver) and inputs + answers are logged; spec/PowTrace.tla recomputes the
// digest from the logged fields and decides.
//
// script (one case per line; HEX may be "-" for the empty string):
//   lz   dig=HEX64 [on=node|cli]
//   case surface=handshake|announce|store d=<0..255> f.<field>=HEX ... [nonce=HEX16 kind=given|witness|clisolved]
//        [muts=none|one|all] [mseed=N] [on=node|cli]
//        without nonce=: the real solver is called at difficulty d; then the validator is probed at ALL difficulties
//        0..255 on the solved nonce, nonce+1, nonce-1 and on every single-field mutation (nonce kept).
//        with nonce=: one probe of that nonce.
//   tok  d=<bits> max=<attempts> check=prev|full|none f.cid=HEX64 f.hash=HEX64 f.ep=HEX [muts=..] [mseed=N] [on=..]
// fields (all logged as byte arrays):  handshake: init(32) resp(32) pub(4, big-endian image of the 32-bit key)
//   announce: cid(32) peer(32) ep uri shards ttl(8, big-endian two's complement seconds)
//   store: cid(32) size(8, big-endian) fname          token: cid(32) hash(32) ep
#pragma once
#include "common/ev.hpp"

#include <algorithm>
#include <cstdint>
#include <cstring>
#include <functional>
#include <optional>
#include <string>
#include <vector>

namespace powh {
using Bytes = std::vector<std::uint8_t>;
using Fields = std::vector<std::pair<std::string, Bytes>>;   // in the surface's field order

[[noreturn]] inline void die(const std::string& m) {
    std::fprintf(stderr, "pow harness: %s\n", m.c_str());
    std::exit(2);
}
inline int hexval(char c) {
    if (c >= '0' && c <= '9') return c - '0';
    if (c >= 'a' && c <= 'f') return c - 'a' + 10;
    if (c >= 'A' && c <= 'F') return c - 'A' + 10;
    return -1;
}
inline Bytes unhex(const std::string& s) {
    Bytes v;
    if (s == "-" || s.empty()) return v;
    if (s.size() % 2) die("odd hex string " + s);
    for (size_t i = 0; i + 1 < s.size(); i += 2) {
        const int a = hexval(s[i]), b = hexval(s[i + 1]);
        if (a < 0 || b < 0) die("bad hex " + s);
        v.push_back(static_cast<std::uint8_t>(a * 16 + b));
    }
    return v;
}
inline Bytes be64(std::uint64_t v) {
    Bytes b(8);
    for (int i = 0; i < 8; ++i) b[i] = static_cast<std::uint8_t>(v >> (56 - 8 * i));
    return b;
}
inline std::uint64_t from_be(const Bytes& b) {
    std::uint64_t v = 0;
    for (auto x : b) v = (v << 8) | x;
    return v;
}
inline std::array<std::uint8_t, 32> arr32(const Bytes& b) {
    if (b.size() != 32) die("32-byte field expected");
    std::array<std::uint8_t, 32> a{};
    std::copy(b.begin(), b.end(), a.begin());
    return a;
}
inline const Bytes& fld(const Fields& f, const std::string& k) {
    for (const auto& kv : f) if (kv.first == k) return kv.second;
    die("missing field " + k);
}
inline std::string str(const Bytes& b) { return std::string(b.begin(), b.end()); }

struct Rng {   // splitmix64: mutation positions only
    std::uint64_t s;
    std::uint64_t next() { std::uint64_t z = (s += 0x9E3779B97F4A7C15ull); z = (z ^ (z >> 30)) * 0xBF58476D1CE4E5B9ull; z = (z ^ (z >> 27)) * 0x94D049BB133111EBull; return z ^ (z >> 31); }
    std::uint64_t below(std::uint64_t n) { return n ? next() % n : 0; }
};

struct FieldSpec { const char* name; bool fixed; };
inline std::vector<FieldSpec> field_specs(const std::string& surface) {
    if (surface == "handshake") return {{"init", true}, {"resp", true}, {"pub", true}};
    if (surface == "announce") return {{"cid", true}, {"peer", true}, {"ep", false}, {"uri", false}, {"shards", false}, {"ttl", true}};
    if (surface == "store") return {{"cid", true}, {"size", true}, {"fname", false}};
    if (surface == "token") return {{"cid", true}, {"hash", true}, {"ep", false}};
    die("unknown surface " + surface);
}
inline Fields read_fields(const ev::Cmd& c, const std::string& surface) {
    Fields f;
    for (const auto& fs : field_specs(surface)) {
        if (!c.has(std::string("f.") + fs.name)) die(std::string("script line lacks f.") + fs.name);
        f.emplace_back(fs.name, unhex(c.s(std::string("f.") + fs.name)));
    }
    return f;
}

struct Mutation { std::string field, variant; Fields fields; };
// every single-field mutation (all=true) or one variant per field (all=false); plus, for neighbouring variable-length
// fields, the boundary shift (last byte of one moved to the front of the next: same concatenation, other lengths)
inline std::vector<Mutation> mutations(const std::string& surface, const Fields& base, bool all, Rng& rng, bool keep_nonempty) {
    std::vector<Mutation> out;
    const auto specs = field_specs(surface);
    for (size_t i = 0; i < specs.size(); ++i) {
        const Bytes& b = base[i].second;
        std::vector<std::pair<std::string, Bytes>> vars;
        if (!b.empty()) {
            Bytes m = b;
            const auto bit = rng.below(8 * m.size());
            m[bit / 8] ^= static_cast<std::uint8_t>(0x80u >> (bit % 8));
            vars.emplace_back("flip", m);
        }
        if (specs[i].fixed) {
            Bytes m = b; m[0] ^= 0x80u; vars.emplace_back("flipmsb", m);
            m = b; m.back() ^= 0x01u; vars.emplace_back("fliplsb", m);
        } else {
            Bytes m = b; m.push_back(static_cast<std::uint8_t>(rng.below(256))); vars.emplace_back("append", m);
            m = b; m.push_back(0); vars.emplace_back("append0", m);
            if (b.size() > (keep_nonempty ? 1u : 0u)) { m = b; m.pop_back(); vars.emplace_back("drop", m); }
            if (b.size() > 1) { m.assign(b.begin() + 1, b.end()); vars.emplace_back("dropfirst", m); }
            if (b.size() > 1 && !keep_nonempty) vars.emplace_back("clear", Bytes{});
        }
        if (vars.empty()) continue;
        if (!all) { auto pick = vars[rng.below(vars.size())]; vars.assign(1, pick); }
        for (auto& v : vars) { Mutation mu{specs[i].name, v.first, base}; mu.fields[i].second = v.second; out.push_back(mu); }
        if (i + 1 < specs.size() && !specs[i].fixed && !specs[i + 1].fixed && !b.empty() && (all || rng.below(2) == 0)) {
            Mutation mu{std::string(specs[i].name) + "+" + specs[i + 1].name, "shift", base};
            mu.fields[i].second.pop_back();
            mu.fields[i + 1].second.insert(mu.fields[i + 1].second.begin(), b.back());
            out.push_back(mu);
        }
    }
    return out;
}

struct SurfaceOps {   // hooks into the REAL code
    std::string impl;
    std::function<bool(const Fields&, std::uint64_t, std::uint8_t)> valid;
    std::function<Bytes(const Fields&, std::uint64_t)> digest;                       // may be empty (digest function unreachable)
    std::function<std::optional<std::uint64_t>(const Fields&, std::uint8_t)> solve;
};

inline std::vector<long long> accepted(const std::function<bool(std::uint8_t)>& ok) {
    std::vector<long long> a;
    for (int d = 0; d <= 255; ++d) if (ok(static_cast<std::uint8_t>(d))) a.push_back(d);
    return a;
}

inline void emit_probe(long src, const std::string& surface, const SurfaceOps& ops, const std::string& kind, const std::string& field,
                       const std::string& variant, int d0, int found, const Fields& f, std::uint64_t nonce) {
    ev::Ev e("probe");
    e.i("src", src).s("surface", surface).s("impl", ops.impl).s("kind", kind).s("field", field).s("variant", variant).i("d0", d0).i("found", found);
    for (const auto& kv : f) e.bytes(kv.first.c_str(), kv.second);
    e.bytes("nonce", be64(nonce));
    e.bytes("dig", ops.digest ? ops.digest(f, nonce) : Bytes{});
    e.ints("acc", accepted([&](std::uint8_t d) { return ops.valid(f, nonce, d); }));
    e.emit();
}

inline void run_case(long src, const ev::Cmd& c, const SurfaceOps& ops) {
    const std::string surface = c.s("surface");
    const Fields f = read_fields(c, surface);
    const int d0 = static_cast<int>(c.i("d"));
    if (d0 < 0 || d0 > 255) die("difficulty out of range");
    if (c.has("nonce")) {
        const Bytes nb = unhex(c.s("nonce"));
        if (nb.size() != 8) die("nonce must be 8 bytes");
        emit_probe(src, surface, ops, c.s("kind", "given"), "", "", d0, 1, f, from_be(nb));
        return;
    }
    const auto solved = ops.solve(f, static_cast<std::uint8_t>(d0));
    const std::uint64_t n = solved.value_or(0x0123456789abcdefull);
    emit_probe(src, surface, ops, "solved", "", "", d0, solved.has_value() ? 1 : 0, f, n);
    if (!solved.has_value()) return;
    emit_probe(src, surface, ops, "plus", "", "", d0, 1, f, n + 1);
    emit_probe(src, surface, ops, "minus", "", "", d0, 1, f, n - 1);
    const std::string muts = c.s("muts", "one");
    if (muts == "none") return;
    Rng rng{static_cast<std::uint64_t>(c.i("mseed", 1)) * 0x2545F4914F6CDD1Dull + 7};
    for (const auto& mu : mutations(surface, f, muts == "all", rng, false))
        emit_probe(src, surface, ops, "mut", mu.field, mu.variant, d0, 1, mu.fields, n);
}

// ---- token surface: observed through the solver's search -------------------------------------------------------
struct TokenOps {
    std::string impl;
    std::function<std::optional<std::uint64_t>(const Fields&, std::uint8_t, std::uint64_t)> solve;     // (fields, bits, max attempts)
    std::function<bool(const Bytes& digest, std::uint8_t)> meets;                                     // bootstrap::digest_meets_difficulty
    std::function<Bytes(const Bytes& material)> sha;                                                  // crypto::Sha256::digest
};
inline void emit_tok(long src, const TokenOps& ops, const std::string& kind, const std::string& field, const std::string& variant, int d0,
                     std::uint64_t max, const std::string& check, long long base, const Fields& f, const std::optional<std::uint64_t>& r) {
    ev::Ev e("tok");
    e.i("src", src).s("surface", "token").s("impl", ops.impl).s("kind", kind).s("field", field).s("variant", variant).i("d0", d0);
    e.i("max", static_cast<long long>(std::min<std::uint64_t>(max, 0x7fffffffull))).s("check", check).i("base", base);
    for (const auto& kv : f) e.bytes(kv.first.c_str(), kv.second);
    e.i("found", r.has_value() ? 1 : 0);
    e.bytes("nonce", be64(r.value_or(0)));
    e.i("n", r.has_value() && *r < 0x7fffffffull ? static_cast<long long>(*r) : -1);
    if (r.has_value()) {
        // material composed here (the library composes its own inside the solver): binds digest_meets_difficulty on real digests
        Bytes m = fld(f, "cid");
        const Bytes& h = fld(f, "hash");
        const Bytes& ep = fld(f, "ep");
        m.insert(m.end(), h.begin(), h.end());
        m.insert(m.end(), ep.begin(), ep.end());
        const Bytes nb = be64(*r);
        m.insert(m.end(), nb.begin(), nb.end());
        const Bytes dg = ops.sha(m);
        e.i("hrec", 1).ints("hacc", accepted([&](std::uint8_t d) { return ops.meets(dg, d); }));
    } else {
        e.i("hrec", 0).ints("hacc", {});
    }
    e.emit();
}
inline void run_tok(long src, const ev::Cmd& c, const TokenOps& ops) {
    const Fields f = read_fields(c, "token");
    const int d0 = static_cast<int>(c.i("d"));
    const std::uint64_t max = static_cast<std::uint64_t>(c.i("max", 500000));
    const auto r = ops.solve(f, static_cast<std::uint8_t>(d0), max);
    emit_tok(src, ops, "solved", "", "", d0, max, r.has_value() ? c.s("check", "prev") : "none", -1, f, r);
    const std::string muts = c.s("muts", "one");
    if (!r.has_value() || muts == "none" || *r >= 0x7ffffff0ull) return;
    Rng rng{static_cast<std::uint64_t>(c.i("mseed", 1)) * 0x2545F4914F6CDD1Dull + 11};
    for (const auto& mu : mutations("token", f, muts == "all", rng, true)) {
        const auto r2 = ops.solve(mu.fields, static_cast<std::uint8_t>(d0), *r + 1);      // tries 0..base
        emit_tok(src, ops, "mut", mu.field, mu.variant, d0, *r + 1, r2.has_value() ? "none" : "last", static_cast<long long>(*r), mu.fields, r2);
    }
}
}  // namespace powh
