// Driver for the real relay server (C25, C26).
//   relay <script> <trace-out>
// Replays a script of client steps on a REAL ephemeralnet::relay::RelayServer + EventLoop, fully
// single-threaded and deterministic: every client is one end of a socketpair whose other end is
// handed to the server the way accept_new_clients() registers an accepted socket; after every
// client step the real EventLoop::run() is executed batch by batch (a driver-owned eventfd watcher,
// added through the public EventLoop::add(), calls EventLoop::stop() so run() returns after one
// epoll batch) and the client ends are drained, until nothing moves any more (quiescence).  One
// ndjson event per step: what was sent (structured, with byte counts), what every client has newly
// received (lexed into tokens / protocol lines / other bytes), which clients have seen EOF, and the
// server's session count, registration count and number of descriptors it still holds.
//
// script ops (see common/ev.hpp for the syntax):
//   reset n=<clients>            new EventLoop + RelayServer
//   open c=<k>                   connect client k
//   send c=<k> p=<parts> [split=<bytes>]   parts: comma separated, ':' arguments
//        reg:<id> regcr:<id> regbad  con:<self>:<target> concr:<self>:<target>
//        id:<from>:<to> (bytes [from,to) of the client's 32-byte identity)  tok:<seq>
//        pong ping empty crlf unk part  raw:<kind>:<len>[:<seed>]  hex:<bytes>
//   close c=<k>   shutwr c=<k>   final   end
#include <atomic>
#include <cctype>
#include <chrono>
#include <cstdint>
#include <functional>
#include <memory>
#include <string>
#include <unordered_map>
#include <array>
#include <optional>
#include <vector>
#include <new>

#include "common/ev.hpp"
#include "ephemeralnet/Types.hpp"
#include "ephemeralnet/relay/EventLoop.hpp"
// Private members of RelayServer are reached without touching the source: the class body is read
// with `private` spelled `public` (access control does not change layout or mangling with g++).
// When the guarded hooks of proposed/C25-relay-verif-hooks.patch are present they are used instead.
#define private public
#include "ephemeralnet/relay/RelayServer.hpp"
#undef private

#include <csignal>
#include <cstring>
#include <dirent.h>
#include <fcntl.h>
#include <poll.h>
#include <sys/eventfd.h>
#include <sys/resource.h>
#include <sys/socket.h>
#include <unistd.h>

using ephemeralnet::relay::EventLoop;
using ephemeralnet::relay::RelayServer;
using ephemeralnet::relay::RelayServerConfig;

namespace {

constexpr int kMaxClients = 16;

// numeric id v is spelled as 64 hex digits whose last eight are 0a0b0000 + v, so that every id contains hex letters and an
// upper-case (mode 1) or mixed-case (mode 2) spelling of the same peer id exists
constexpr unsigned long long kIdBase = 0x0a0b0000ULL;
std::string hex_id(long long v, int mode = 0) {
    char b[80];
    std::snprintf(b, sizeof b, "%056d%08llx", 0, (static_cast<unsigned long long>(v) + kIdBase) & 0xffffffffULL);
    std::string s = b;
    if (mode == 1) for (auto& ch : s) ch = static_cast<char>(std::toupper(static_cast<unsigned char>(ch)));
    if (mode == 2) { bool up = true; for (auto& ch : s) if (std::isalpha(static_cast<unsigned char>(ch))) { if (up) ch = static_cast<char>(std::toupper(static_cast<unsigned char>(ch))); up = !up; } }
    return s;
}
std::string hex2(int v) { char b[8]; std::snprintf(b, sizeof b, "%02x", v & 0xff); return b; }
std::string token_bytes(int c, int k) { return std::string("\x02T") + hex2(c) + hex2(k) + "\x03\n"; }
std::string identity_bytes(int c) {
    std::string s = std::string("\x04I") + hex2(c);
    for (int i = 0; i < 27; ++i) s.push_back(static_cast<char>('a' + (i % 26)));
    s.push_back('\x05');
    return s;  // 32 bytes, no newline
}
int hexval(char ch) { if (ch >= '0' && ch <= '9') return ch - '0'; if (ch >= 'a' && ch <= 'f') return ch - 'a' + 10; if (ch >= 'A' && ch <= 'F') return ch - 'A' + 10; return -1; }

// ---- lexer of what a client receives ----------------------------------------------------
struct Lexer {
    std::string pend;   // unconsumed bytes (possible token / identity prefix)
    std::string line;   // ordinary bytes since the last newline
    std::vector<std::string> items;  // JSON records produced since the last event
    long long total = 0;
    long long run = 0;  // bytes of unclassified lines / pieces not yet reported (coalesced into one "bytes" item)
    void flush_run() { if (run > 0) { items.push_back("{\"k\":\"bytes\",\"n\":" + std::to_string(run > 2000000000LL ? 2000000000LL : run) + "}"); run = 0; } }
    void item(const std::string& j) { flush_run(); items.push_back(j); }
    void end_line() {
        const std::string& l = line;
        const std::string n = ",\"n\":" + std::to_string(l.size() + 1) + "}";
        std::string t = l;
        if (!t.empty() && t.back() == '\r') t.pop_back();
        if (t == "OK") item("{\"k\":\"ok\"" + n);
        else if (t.rfind("ERROR ", 0) == 0 && t.size() < 60) item("{\"k\":\"err\",\"s\":" + ev::jstr(t.substr(6)) + n);
        else if (t.rfind("BEGIN ", 0) == 0) {
            long long id = -1;
            const std::string h = t.substr(6);
            if (h.size() == 64) {
                bool ok = true; unsigned long long v = 0;
                for (size_t i = 0; i < 64 && ok; ++i) { int d = hexval(h[i]); if (d < 0) ok = false; else if (i < 56) ok = (d == 0); else v = v * 16 + static_cast<unsigned>(d); }
                if (ok && v >= kIdBase && v - kIdBase < 0x7fffffffULL) id = static_cast<long long>(v - kIdBase);
            }
            item("{\"k\":\"begin\",\"s\":" + std::to_string(id) + n);
        } else run += static_cast<long long>(l.size()) + 1;
        line.clear();
    }
    void ordinary(char ch) { if (ch == '\n') end_line(); else line.push_back(ch); }
    void flush_other() { if (!line.empty()) { run += static_cast<long long>(line.size()); line.clear(); } }
    void feed(const char* d, size_t n) {
        total += static_cast<long long>(n);
        pend.append(d, n);
        size_t i = 0;
        while (i < pend.size()) {
            const char ch = pend[i];
            if (ch == '\x02' || ch == '\x04') {
                // a data token is \x02 T hh hh \x03 \n, an identity block \x04 I hh a..z... \x05 (32 bytes): as soon as
                // the bytes at hand cannot be one any more the lead byte is an ordinary byte; a well-formed but
                // incomplete prefix waits for more input
                const size_t need = ch == '\x02' ? 8 : 32;
                const size_t have = std::min(need, pend.size() - i);
                const char* p = pend.data() + i;
                bool fits = true;
                for (size_t k = 1; k < have && fits; ++k) {
                    if (ch == '\x02') fits = k == 1 ? p[k] == 'T' : k <= 5 ? hexval(p[k]) >= 0 : k == 6 ? p[k] == '\x03' : p[k] == '\n';
                    else fits = k == 1 ? p[k] == 'I' : k <= 3 ? hexval(p[k]) >= 0 : k == 31 ? p[k] == '\x05' : p[k] == static_cast<char>('a' + ((k - 4) % 26));
                }
                if (fits && have < need) break;
                if (fits) {
                    flush_other();
                    if (ch == '\x02') item("{\"k\":\"t\",\"f\":" + std::to_string(hexval(p[2]) * 16 + hexval(p[3])) + ",\"q\":" + std::to_string(hexval(p[4]) * 16 + hexval(p[5])) + ",\"n\":8}");
                    else item("{\"k\":\"id\",\"f\":" + std::to_string(hexval(p[2]) * 16 + hexval(p[3])) + ",\"n\":32}");
                    i += need;
                    continue;
                }
            }
            ordinary(ch);
            ++i;
        }
        pend.erase(0, i);
    }
    // at quiescence: bytes that are not (yet) a line are reported as part of a "bytes" run; an incomplete
    // token / identity prefix stays pending unless `all`
    void quiesce(bool all) {
        if (all && !pend.empty()) { for (char ch : pend) ordinary(ch); pend.clear(); }
        flush_other();
        flush_run();
    }
};

struct Client {
    int fd = -1;        // client end (-1: not open / closed by the script)
    int sfd = -1;       // server end as handed over (number only; the server owns it)
    bool opened = false, closed = false, eof = false, shut = false;
    bool stalled = false;   // the script stopped reading this client's socket (a slow receiver): the relay must hold what it cannot deliver yet
    Lexer lex;
};

struct World {
    std::unique_ptr<EventLoop> loop;
    std::unique_ptr<RelayServer> server;
    int ctl = -1;
    int nclients = 0;
    Client cl[kMaxClients + 1];
    long base_fds = 0;
    bool dead = false;  // the server threw / is unusable until the next reset
};
World W;
int g_trace_fd = -1;
long g_step = 0;

long count_fds() {
    long n = 0;
    DIR* d = ::opendir("/proc/self/fd");
    if (!d) return -1;
    while (auto* e = ::readdir(d)) if (e->d_name[0] != '.') ++n;
    ::closedir(d);
    return n;
}
long client_ends_open() { long n = 0; for (int c = 1; c <= kMaxClients; ++c) if (W.cl[c].fd >= 0) ++n; return n; }

std::size_t session_count() {
#ifdef EPHEMERALNET_VERIF_RELAY_HOOKS
    return W.server->session_count();
#else
    return W.server->sessions_.size();
#endif
}
std::size_t registration_count() {
#ifdef EPHEMERALNET_VERIF_RELAY_HOOKS
    return W.server->registration_count();
#else
    return W.server->registered_.size();
#endif
}
bool adopt(int fd) {
#ifdef EPHEMERALNET_VERIF_RELAY_HOOKS
    return W.server->adopt_client(fd);
#else
    // same statements as RelayServer::accept_new_clients() after accept()
    RelayServer* srv = W.server.get();
    srv->configure_socket(fd);
    auto session = std::make_shared<RelayServer::ClientSession>(fd);
    srv->sessions_.emplace(fd, session);
    auto callback = [srv, weak = std::weak_ptr<RelayServer::ClientSession>(session)](int cfd, std::uint32_t events) {
        auto locked = weak.lock();
        if (!locked) { srv->loop_.remove(cfd); return; }
        srv->on_client_event(locked, events);
    };
    srv->loop_.add(fd, EventLoop::kEventReadable, callback);
    return true;
#endif
}

void watchdog(int) {
    char b[160];
    int n = std::snprintf(b, sizeof b, "{\"op\":\"crash\",\"kind\":\"hang\",\"step\":%ld}\n", g_step);
    if (g_trace_fd >= 0) { ssize_t w = ::write(g_trace_fd, b, static_cast<size_t>(n)); (void)w; }
    _exit(70);
}

void teardown() {
    for (int c = 1; c <= kMaxClients; ++c) { if (W.cl[c].fd >= 0) ::close(W.cl[c].fd); W.cl[c] = Client{}; }
    if (W.server) { try { W.server->stop(); } catch (...) {} }
    W.server.reset();
    W.loop.reset();
    if (W.ctl >= 0) { ::close(W.ctl); W.ctl = -1; }
    W.dead = false;
}

// one batch of the real event loop.  returns false when the server threw.
bool pump(std::string& why) {
    const std::uint64_t one = 1;
    ssize_t w = ::write(W.ctl, &one, sizeof one); (void)w;
    // errno is whatever the thread's last failing call left behind (an interrupted epoll_wait, say); a successful call does not clear
    // it.  The batch starts with a hostile leftover so that code which consults errno without a failed call shows.
    static const int kLeftover[] = {EINTR, EAGAIN, 0, EINTR, ECONNRESET, EBADF, EINTR, EPIPE};
    static unsigned leftover = 0;
    errno = kLeftover[leftover++ % (sizeof kLeftover / sizeof kLeftover[0])];
    try {
        W.loop->run();
    } catch (const std::bad_alloc&) { why = "bad_alloc"; return false; }
    catch (const std::exception& ex) { why = std::string("exception:") + ex.what(); return false; }
    catch (...) { why = "exception"; return false; }
    return true;
}

// read whatever the clients can read; returns number of bytes + EOF transitions seen
long drain() {
    long moved = 0;
    char buf[65536];
    for (int c = 1; c <= W.nclients; ++c) {
        Client& k = W.cl[c];
        if (k.fd < 0 || k.eof || k.stalled) continue;
        while (true) {
            const ssize_t n = ::recv(k.fd, buf, sizeof buf, MSG_DONTWAIT);
            if (n > 0) { k.lex.feed(buf, static_cast<size_t>(n)); moved += n; continue; }
            if (n == 0) { k.eof = true; ++moved; break; }
            if (errno == EAGAIN || errno == EWOULDBLOCK) break;
            if (errno == EINTR) continue;
            k.eof = true; ++moved; break;  // ECONNRESET etc.: the server end is gone
        }
    }
    return moved;
}

// does the server still have unread input on a descriptor whose client end we hold open?  (while our
// end is open and we have not seen EOF the server end number cannot have been released and reused)
bool server_input_pending() {
    for (int c = 1; c <= W.nclients; ++c) {
        const Client& k = W.cl[c];
        if (!k.opened || k.eof || k.sfd < 0 || k.fd < 0) continue;
        pollfd p{k.sfd, POLLIN, 0};
        if (::poll(&p, 1, 0) > 0 && (p.revents & (POLLIN | POLLHUP | POLLERR)) && !(p.revents & POLLNVAL)) return true;
    }
    return false;
}

// run the server until nothing moves.  false: the server died (why set)
bool quiesce(std::string& why) {
    int stable = 0, stuck = 0;
    std::size_t sc = session_count(), rc = registration_count();
    for (long iter = 0; iter < 4000000; ++iter) {
        if (!pump(why)) return false;
        const long moved = drain();
        const std::size_t sc2 = session_count(), rc2 = registration_count();
        const bool changed = moved != 0 || sc2 != sc || rc2 != rc;
        sc = sc2; rc = rc2;
        if (changed) { stable = 0; stuck = 0; continue; }
        if (server_input_pending()) {
            // input is waiting but the server does not move: give it a bounded number of batches
            if (++stuck >= 20) return true;
            stable = 0;
            continue;
        }
        if (++stable >= 3) return true;
    }
    why = "livelock";
    return false;
}

std::string observe() {
    std::string rxd = "[";
    bool first = true;
    for (int c = 1; c <= W.nclients; ++c) {
        Client& k = W.cl[c];
        k.lex.quiesce(false);
        if (k.lex.items.empty()) continue;
        if (!first) rxd += ",";
        first = false;
        rxd += "{\"c\":" + std::to_string(c) + ",\"items\":" + ev::jlist(k.lex.items) + "}";
        k.lex.items.clear();
    }
    rxd += "]";
    std::string eof = "[";
    first = true;
    for (int c = 1; c <= W.nclients; ++c) if (W.cl[c].eof) { if (!first) eof += ","; first = false; eof += std::to_string(c); }
    eof += "]";
    std::string rxn = "[";
    for (int c = 1; c <= W.nclients; ++c) { if (c > 1) rxn += ","; rxn += std::to_string(W.cl[c].lex.total > 2000000000LL ? 2000000000LL : W.cl[c].lex.total); }
    rxn += "]";
    return "\"rxd\":" + rxd + ",\"eof\":" + eof + ",\"rxn\":" + rxn + ",\"sc\":" + std::to_string(session_count()) +
           ",\"rc\":" + std::to_string(registration_count()) + ",\"fds\":" + std::to_string(count_fds() - W.base_fds - client_ends_open());
}

void emit_raw(const std::string& s) { std::fputs(s.c_str(), ev::out()); std::fflush(ev::out()); }

void emit_crash(const std::string& kind) {
    emit_raw("{\"op\":\"crash\",\"kind\":" + ev::jstr(kind) + ",\"step\":" + std::to_string(g_step) + "}\n");
    W.dead = true;
}

std::vector<std::string> split(const std::string& s, char sep) {
    std::vector<std::string> out; std::string cur;
    for (char ch : s) { if (ch == sep) { out.push_back(cur); cur.clear(); } else cur.push_back(ch); }
    out.push_back(cur);
    return out;
}

std::string raw_bytes(const std::string& kind, long len, unsigned seed) {
    std::string s;
    if (len < 0) len = 0;
    if (kind == "nul") s.assign(static_cast<size_t>(len), '\0');
    else if (kind == "line") { s.assign(static_cast<size_t>(len), 'A'); s.push_back('\n'); }
    else if (kind == "noline") s.assign(static_cast<size_t>(len), 'B');
    else if (kind == "regline") { s = "REGISTER " + std::string(static_cast<size_t>(len), 'f') + "\n"; }
    else if (kind == "connline") { s = "CONNECT " + std::string(static_cast<size_t>(len), 'a') + " " + std::string(static_cast<size_t>(len), 'b') + "\n"; }
    else if (kind == "spaces") { s = "CONNECT" + std::string(static_cast<size_t>(len), ' ') + "\n"; }
    else {  // bin / binnl: pseudo-random bytes (bin: never a newline, never the token / identity lead bytes)
        unsigned x = seed * 2654435761u + 12345u;
        for (long i = 0; i < len; ++i) {
            x = x * 1664525u + 1013904223u;
            unsigned char b = static_cast<unsigned char>(x >> 24);
            if (kind == "bin" && (b == '\n' || b == 2 || b == 4)) b = 0xff;
            if (kind == "binnl" && (b == 2 || b == 4)) b = 0xfe;
            s.push_back(static_cast<char>(b));
        }
    }
    return s;
}

// builds the bytes of a send step and the JSON description of its parts
bool build_parts(int c, const std::string& spec, std::string& bytes, std::string& json) {
    std::vector<std::string> descr;
    for (const auto& part : split(spec, ',')) {
        if (part.empty()) continue;
        const auto a = split(part, ':');
        const std::string& k = a[0];
        std::string b, j;
        auto num = [&](size_t i) { return i < a.size() ? std::atoll(a[i].c_str()) : 0LL; };
        if (k == "reg" || k == "regcr" || k == "regU" || k == "regM") { b = "REGISTER " + hex_id(num(1), k == "regU" ? 1 : k == "regM" ? 2 : 0) + (k == "regcr" ? "\r\n" : "\n"); j = "\"k\":\"reg\",\"i\":" + std::to_string(num(1)); }
        else if (k == "regbad") { b = "REGISTER zz\n"; j = "\"k\":\"misc\""; }
        else if (k == "con" || k == "concr" || k == "conU" || k == "conM") {
            // conU / conM: the same target peer id spelled in upper / mixed case
            b = "CONNECT " + hex_id(num(1)) + " " + hex_id(num(2), k == "conU" ? 1 : k == "conM" ? 2 : 0) + (k == "concr" ? "\r\n" : "\n");
            j = "\"k\":\"con\",\"s\":" + std::to_string(num(1)) + ",\"t\":" + std::to_string(num(2));
        }
        else if (k == "id") { const auto idb = identity_bytes(c); long long f = num(1), t = num(2); if (f < 0) f = 0; if (t > 32) t = 32; if (t < f) t = f; b = idb.substr(static_cast<size_t>(f), static_cast<size_t>(t - f)); j = "\"k\":\"id\""; }
        else if (k == "tok") { b = token_bytes(c, static_cast<int>(num(1))); j = "\"k\":\"tok\",\"q\":" + std::to_string(num(1)); }
        else if (k == "pong") { b = "PONG\n"; j = "\"k\":\"misc\""; }
        else if (k == "ping") { b = "PING\n"; j = "\"k\":\"misc\""; }
        else if (k == "empty") { b = "\n"; j = "\"k\":\"misc\""; }
        else if (k == "crlf") { b = "\r\n"; j = "\"k\":\"misc\""; }
        else if (k == "unk") { b = "HELLO relay\n"; j = "\"k\":\"misc\""; }
        else if (k == "part") { b = "zz"; j = "\"k\":\"misc\""; }
        else if (k == "raw") { b = raw_bytes(a.size() > 1 ? a[1] : "bin", num(2), static_cast<unsigned>(num(3))); j = "\"k\":\"raw\",\"kind\":" + ev::jstr(a.size() > 1 ? a[1] : "bin"); }
        else if (k == "hex") { const std::string h = a.size() > 1 ? a[1] : ""; for (size_t i = 0; i + 1 < h.size(); i += 2) b.push_back(static_cast<char>(hexval(h[i]) * 16 + hexval(h[i + 1]))); j = "\"k\":\"raw\",\"kind\":\"hex\""; }
        else return false;
        descr.push_back("{" + j + ",\"n\":" + std::to_string(b.size()) + "}");
        bytes += b;
    }
    json = ev::jlist(descr);
    return true;
}

// write all bytes to the client's socket, letting the server run whenever the socket is full or
// after every `chunk` bytes (chunk = 0: as much as fits)
static bool g_auto_unstalled = false;
bool send_all(Client& k, const std::string& bytes, long chunk, std::string& why) {
    size_t off = 0;
    int idle = 0;
    while (off < bytes.size()) {
        size_t want = bytes.size() - off;
        if (chunk > 0 && static_cast<size_t>(chunk) < want) want = static_cast<size_t>(chunk);
        const ssize_t n = ::send(k.fd, bytes.data() + off, want, MSG_DONTWAIT | MSG_NOSIGNAL);
        if (n > 0) {
            idle = 0;
            off += static_cast<size_t>(n);
            if (chunk > 0 && off < bytes.size()) { if (!quiesce(why)) return false; }
            continue;
        }
        if (n < 0 && (errno == EAGAIN || errno == EWOULDBLOCK)) {
            if (!quiesce(why)) return false;
            if (k.eof) break;
            // the sender is blocked and nothing moves while a receiver is stalled (a relay that stops reading the sender): the slow
            // receiver starts reading again so that the behaviour can go on; the event says so
            if (++idle >= 40) { for (int c = 1; c <= W.nclients; ++c) if (W.cl[c].stalled) { W.cl[c].stalled = false; g_auto_unstalled = true; } idle = 0; }
            continue;
        }
        if (n < 0 && errno == EINTR) continue;
        break;  // EPIPE / ECONNRESET: the server has closed this client; the rest cannot be sent
    }
    return true;
}

}  // namespace

int main(int argc, char** argv) {
    if (argc < 3) { std::fprintf(stderr, "usage: relay <script> <trace-out>\n"); return 2; }
    std::ifstream in(argv[1]);
    if (!in) { std::perror(argv[1]); return 2; }
    ev::open(argv[2]);
    g_trace_fd = ::fileno(ev::out());
    std::signal(SIGPIPE, SIG_IGN);   // as src/relay/main.cpp does
    std::signal(SIGALRM, watchdog);
    // the relay writes "listening" banners etc. to stdout only from start(), which is not used
    // bound the heap so that unbounded buffering inside the server ends in std::bad_alloc (caught around
    // EventLoop::run and reported) instead of exhausting the machine; 0 disables (sanitizer builds)
    long data_mb = 160;
    if (const char* e = std::getenv("RELAY_DATA_LIMIT_MB")) data_mb = std::atol(e);
    if (data_mb > 0) { rlimit rl{static_cast<rlim_t>(data_mb) << 20, static_cast<rlim_t>(data_mb) << 20}; ::setrlimit(RLIMIT_DATA, &rl); }
    long wd_s = 120;
    if (const char* e = std::getenv("RELAY_WATCHDOG_S")) wd_s = std::atol(e);

    ev::Cmd cmd;
    bool skipping = false;
    while (ev::read_cmd(in, cmd)) {
        ++g_step;
        ::alarm(static_cast<unsigned>(wd_s));
        if (cmd.op == "end") break;
        if (cmd.op == "reset") {
            teardown();
            skipping = false;
            W.nclients = static_cast<int>(cmd.i("n", 3));
            if (W.nclients > kMaxClients) W.nclients = kMaxClients;
            W.loop = std::make_unique<EventLoop>();
            RelayServerConfig cfg;
            cfg.listen_host = "127.0.0.1";
            cfg.listen_port = 0;
            W.server = std::make_unique<RelayServer>(*W.loop, cfg);
            W.ctl = ::eventfd(0, EFD_NONBLOCK | EFD_CLOEXEC);
            EventLoop* lp = W.loop.get();
            const int ctl = W.ctl;
            W.loop->add(W.ctl, EventLoop::kEventReadable, [lp, ctl](int, std::uint32_t) {
                std::uint64_t v = 0;
                ssize_t r = ::read(ctl, &v, sizeof v); (void)r;
                lp->stop();
            });
            W.base_fds = count_fds();
            ev::Ev("reset").i("n", W.nclients).i("hooks",
#ifdef EPHEMERALNET_VERIF_RELAY_HOOKS
                1
#else
                0
#endif
            ).emit();
            std::fflush(ev::out());
            continue;
        }
        if (skipping || W.dead || !W.server) continue;
        std::string why;
        const int c = static_cast<int>(cmd.i("c", 0));
        if (cmd.op == "open") {
            if (c < 1 || c > W.nclients || W.cl[c].opened) continue;
            int sv[2];
            if (::socketpair(AF_UNIX, SOCK_STREAM | SOCK_CLOEXEC, 0, sv) != 0) { std::perror("socketpair"); return 2; }
            W.cl[c].fd = sv[0];
            W.cl[c].sfd = sv[1];
            W.cl[c].opened = true;
            bool ok = false;
            try { ok = adopt(sv[1]); } catch (const std::exception& ex) { why = std::string("exception:") + ex.what(); }
            if (!ok) { emit_crash(why.empty() ? "adopt-failed" : why); skipping = true; continue; }
            if (!quiesce(why)) { emit_crash(why); skipping = true; continue; }
            emit_raw("{\"op\":\"open\",\"c\":" + std::to_string(c) + "," + observe() + "}\n");
            continue;
        }
        if (cmd.op == "send") {
            if (c < 1 || c > W.nclients || W.cl[c].fd < 0 || W.cl[c].shut) continue;
            std::string bytes, pj;
            if (!build_parts(c, cmd.s("p"), bytes, pj)) { std::fprintf(stderr, "bad parts: %s\n", cmd.s("p").c_str()); return 2; }
            g_auto_unstalled = false;
            if (!send_all(W.cl[c], bytes, cmd.i("split", 0), why) || !quiesce(why)) { emit_crash(why); skipping = true; continue; }
            emit_raw("{\"op\":\"send\",\"c\":" + std::to_string(c) + ",\"parts\":" + pj + ",\"unstalled\":" + (g_auto_unstalled ? "1" : "0") + "," + observe() + "}\n");
            continue;
        }
        if (cmd.op == "stall" || cmd.op == "unstall") {
            if (c < 1 || c > W.nclients || W.cl[c].fd < 0) continue;
            W.cl[c].stalled = cmd.op == "stall";
            if (!quiesce(why)) { emit_crash(why); skipping = true; continue; }
            emit_raw("{\"op\":" + ev::jstr(cmd.op) + ",\"c\":" + std::to_string(c) + "," + observe() + "}\n");
            continue;
        }
        if (cmd.op == "close" || cmd.op == "shutwr") {
            if (c < 1 || c > W.nclients || W.cl[c].fd < 0) continue;
            if (cmd.op == "close") {
                W.cl[c].lex.quiesce(true);
                ::close(W.cl[c].fd);
                W.cl[c].fd = -1;
                W.cl[c].closed = true;
            } else {
                if (W.cl[c].shut) continue;
                ::shutdown(W.cl[c].fd, SHUT_WR);
                W.cl[c].shut = true;
            }
            if (!quiesce(why)) { emit_crash(why); skipping = true; continue; }
            emit_raw("{\"op\":" + ev::jstr(cmd.op) + ",\"c\":" + std::to_string(c) + "," + observe() + "}\n");
            continue;
        }
        if (cmd.op == "final") {
            // every client end still open is closed now; afterwards the server must hold nothing
            for (int k = 1; k <= W.nclients; ++k) if (W.cl[k].fd >= 0) { ::close(W.cl[k].fd); W.cl[k].fd = -1; W.cl[k].closed = true; }
            if (!quiesce(why)) { emit_crash(why); skipping = true; continue; }
            emit_raw("{\"op\":\"final\"," + observe() + "}\n");
            continue;
        }
        std::fprintf(stderr, "unknown op %s\n", cmd.op.c_str());
        return 2;
    }
    ::alarm(0);
    teardown();
    ev::Ev("end").emit();
    std::fflush(ev::out());
    return 0;
}
