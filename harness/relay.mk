EXTRA_relay := relay/EventLoop.o relay/RelayServer.o
