# the relay driver needs only the relay sources and core/Types.o (peer id <-> hex)
EXTRA_relay := relay/EventLoop.o relay/RelayServer.o
EXCL_relay  := $(filter-out core/Types.o,$(CORE_SRC:.cpp=.o))
