// Driver for the upload scheduler (C23) and the fetch scheduler (C24) of a REAL Node.
//   sched <script> <trace-out>
// The node under test runs under the virtual clock.  Its peers are stub sessions: for every
// linked peer the driver creates a socketpair, hands one end to the node's real SessionManager
// (adopt_outbound_socket) and keeps the other end, from which it reads, decrypts and decodes
// every frame the node sends (chunk / negative ack / request / ...) right after each step.
// Requests, acknowledgements, announces and chunk arrivals are injected through the node's own
// private handlers (friend access); "send failure" = the peer has no session.
// After every step one ndjson event is written: arguments, virtual time (ms), frames sent during
// the step and the friend view of the scheduler state.
#include "common/ev.hpp"
#include "common/vclock.hpp"
#include "common/vrng.hpp"
#include "ephemeralnet/core/Node.hpp"
#include "ephemeralnet/crypto/ChaCha20.hpp"
#include "ephemeralnet/protocol/Manifest.hpp"
#include "ephemeralnet/protocol/Message.hpp"

#include <fcntl.h>
#include <sys/socket.h>
#include <unistd.h>
#include <algorithm>
#include <cstring>
#include <map>
#include <memory>
#include <thread>

using namespace ephemeralnet;

namespace ephemeralnet::test {
class NodeTestAccess {
public:
    static void request(Node& n, const protocol::RequestPayload& p, const PeerId& s) { n.handle_request(p, s); }
    static void ack(Node& n, const protocol::AcknowledgePayload& p, const PeerId& s) { n.handle_acknowledge(p, s); }
    static void announce(Node& n, const protocol::AnnouncePayload& p, const PeerId& s) { n.handle_announce(p, s, protocol::kCurrentMessageVersion); }
    static void assigned(Node& n, const protocol::AnnouncePayload& p) { n.schedule_assigned_fetch(p); }
    static void chunk(Node& n, const protocol::ChunkPayload& p, const PeerId& s) { n.handle_chunk(p, s); }
    static network::SessionManager& sessions(Node& n) { return n.sessions_; }
    static bool held(Node& n, const ChunkId& c) {
        std::unique_lock<std::recursive_mutex> g(n.scheduler_mutex_);
        return n.chunk_store_.get_record(c).has_value();
    }
    struct View {
        std::vector<std::array<long long, 3>> act;            // peer, chunk, started (ms)
        std::vector<std::array<long long, 2>> per;            // peer, count
        std::vector<std::array<long long, 2>> queue;          // peer, chunk
        std::vector<std::array<long long, 6>> fetches;        // chunk, peer, attempts, next (ms, -1 = never), in_flight, expires (ms)
        std::vector<std::array<long long, 2>> apr;            // peer, count
    };
    template <class PF, class CF>
    static View view(Node& n, PF peer_no, CF chunk_no) {
        std::unique_lock<std::recursive_mutex> g(n.scheduler_mutex_);
        View v;
        for (const auto& [k, s] : n.active_uploads_) v.act.push_back({peer_no(s.peer_id), chunk_no(s.chunk_id), vclock::steady_to_ns(s.started_at) / 1'000'000});
        for (const auto& [k, c] : n.active_uploads_per_peer_) {
            const auto id = peer_id_from_string(k);
            v.per.push_back({id ? peer_no(*id) : -1, static_cast<long long>(c)});
        }
        for (const auto& r : n.pending_uploads_) v.queue.push_back({peer_no(r.peer_id), chunk_no(r.chunk_id)});
        for (const auto& [k, s] : n.pending_chunk_fetches_) {
            long long next = s.next_attempt == std::chrono::steady_clock::time_point::max() ? -1 : vclock::steady_to_ns(s.next_attempt) / 1'000'000;
            long long exp = s.manifest_expires == std::chrono::system_clock::time_point{} ? -1 : vclock::system_to_ns(s.manifest_expires) / 1'000'000;
            v.fetches.push_back({chunk_no(s.chunk_id), peer_no(s.peer_id), static_cast<long long>(s.attempts), next, s.in_flight ? 1 : 0, exp});
        }
        for (const auto& [k, c] : n.active_peer_requests_) {
            const auto id = peer_id_from_string(k);
            v.apr.push_back({id ? peer_no(*id) : -1, static_cast<long long>(c)});
        }
        std::sort(v.act.begin(), v.act.end());
        std::sort(v.per.begin(), v.per.end());
        std::sort(v.fetches.begin(), v.fetches.end());
        std::sort(v.apr.begin(), v.apr.end());
        return v;
    }
};
}  // namespace ephemeralnet::test
using TA = ephemeralnet::test::NodeTestAccess;

namespace {
constexpr int kMaxPeers = 8;
constexpr int kMaxChunks = 16;

struct Stub {
    PeerId id{};
    bool key{false};
    int fd{-1};                 // the driver's end of the socketpair (-1: no session)
    std::vector<std::uint8_t> buf;
};
struct Source {
    bool known{false};
    ChunkId id{};
    protocol::Manifest manifest{};
    std::string uri;
    ChunkData cipher;
    long long exp_ms{-1};
};
struct Frame { long long p, kind, c, flag; };  // kind: 1 chunk, 2 ack (flag = accepted), 3 request, 4 announce, 0 other/undecodable

struct World {
    std::unique_ptr<Node> node;     // the node under test
    std::unique_ptr<Node> origin;   // produces manifests + ciphertext for chunks the node is asked to fetch
    Stub peers[kMaxPeers + 1];
    Source src[kMaxChunks + 1];
    std::map<PeerId, int> peer_no;
    std::map<ChunkId, int> chunk_no;
};
std::unique_ptr<World> W;

PeerId pid(int p) { return ev::id32(p, 0xA0); }
ChunkId cid(int c) { return ev::id32(c, 0xC0); }
long long now_ms() { return vclock::now_ns() / 1'000'000; }
int peer_of(const PeerId& id) { auto it = W->peer_no.find(id); return it == W->peer_no.end() ? -1 : it->second; }
int chunk_of(const ChunkId& id) { auto it = W->chunk_no.find(id); return it == W->chunk_no.end() ? -1 : it->second; }

// the node's reader thread notices the closed socket and removes the session; wait until the
// session table holds exactly the sessions the driver still has open (the reader does not touch
// the manager after that)
void wait_sessions() {
    size_t want = 0;
    for (int q = 1; q <= kMaxPeers; ++q) if (W->peers[q].fd >= 0) ++want;
    auto& sm = TA::sessions(*W->node);
    for (int k = 0; k < 50000 && sm.active_session_count() != want; ++k) std::this_thread::sleep_for(std::chrono::microseconds(100));
    if (sm.active_session_count() != want) { std::fprintf(stdout, "sched: session table did not settle\n"); std::exit(2); }
}
void destroy_world() {
    if (!W) return;
    for (int q = 1; q <= kMaxPeers; ++q) if (W->peers[q].fd >= 0) { ::close(W->peers[q].fd); W->peers[q].fd = -1; }
    wait_sessions();
    W.reset();
}
void unlink_peer(int p) {
    Stub& s = W->peers[p];
    if (s.fd < 0) return;
    ::close(s.fd);
    s.fd = -1;
    s.buf.clear();
    wait_sessions();
}
void link_peer(int p) {
    Stub& s = W->peers[p];
    if (s.fd >= 0) return;
    if (!s.key) return;  // a session needs a key
    int sv[2];
    if (::socketpair(AF_UNIX, SOCK_STREAM, 0, sv) != 0) { std::perror("socketpair"); std::exit(2); }
    int fl = ::fcntl(sv[0], F_GETFL, 0);
    ::fcntl(sv[0], F_SETFL, fl | O_NONBLOCK);
    if (!TA::sessions(*W->node).adopt_outbound_socket(s.id, sv[1], true)) { std::fprintf(stderr, "sched: adopt failed\n"); std::exit(2); }
    s.fd = sv[0];
}
void give_key(int p) {
    Stub& s = W->peers[p];
    crypto::Key k{};
    for (size_t i = 0; i < k.bytes.size(); ++i) k.bytes[i] = static_cast<std::uint8_t>(p * 17 + i);
    W->node->register_shared_secret(s.id, k);
    s.key = true;
}

// frames the node wrote to peer p's session since the last call
void drain(int p, const std::optional<std::array<std::uint8_t, 32>>& key_before, std::vector<Frame>& out) {
    Stub& s = W->peers[p];
    if (s.fd < 0) return;
    std::uint8_t tmp[65536];
    for (;;) {
        ssize_t n = ::recv(s.fd, tmp, sizeof tmp, 0);
        if (n > 0) { s.buf.insert(s.buf.end(), tmp, tmp + n); continue; }
        break;
    }
    size_t off = 0;
    while (s.buf.size() - off >= 16) {
        const std::uint8_t* b = s.buf.data() + off;
        std::uint32_t len = (std::uint32_t(b[12]) << 24) | (std::uint32_t(b[13]) << 16) | (std::uint32_t(b[14]) << 8) | b[15];
        if (s.buf.size() - off < 16 + size_t(len)) break;
        crypto::Nonce nonce{};
        std::copy(b, b + 12, nonce.bytes.begin());
        Frame f{p, 0, -1, 0};
        std::optional<std::array<std::uint8_t, 32>> keys[2] = {key_before, W->node->session_key(s.id)};
        for (const auto& k : keys) {
            if (!k) continue;
            crypto::Key ck{};
            ck.bytes = *k;
            std::vector<std::uint8_t> plain(len);
            crypto::ChaCha20::apply(ck, nonce, std::span<const std::uint8_t>(b + 16, len), plain, 0u);
            auto m = protocol::decode_signed(plain, std::span<const std::uint8_t>(k->data(), k->size()));
            if (!m) continue;
            if (auto* c = std::get_if<protocol::ChunkPayload>(&m->payload)) { f.kind = 1; f.c = chunk_of(c->chunk_id); }
            else if (auto* a = std::get_if<protocol::AcknowledgePayload>(&m->payload)) { f.kind = 2; f.c = chunk_of(a->chunk_id); f.flag = a->accepted ? 1 : 0; }
            else if (auto* r = std::get_if<protocol::RequestPayload>(&m->payload)) { f.kind = 3; f.c = chunk_of(r->chunk_id); }
            else if (auto* an = std::get_if<protocol::AnnouncePayload>(&m->payload)) { f.kind = 4; f.c = chunk_of(an->chunk_id); }
            break;
        }
        out.push_back(f);
        off += 16 + len;
    }
    s.buf.erase(s.buf.begin(), s.buf.begin() + static_cast<long>(off));
}

template <class A> std::string jrows(const std::vector<A>& rows) {
    std::string s = "[";
    for (size_t i = 0; i < rows.size(); ++i) {
        if (i) s += ",";
        s += "[";
        for (size_t j = 0; j < rows[i].size(); ++j) { if (j) s += ","; s += std::to_string(rows[i][j]); }
        s += "]";
    }
    return s + "]";
}

int g_mode = 3;  // bit 0: upload-side view, bit 1: fetch-side view
void emit_state(ev::Ev& e, const std::vector<Frame>& frames, int npeers, int nchunks) {
    std::vector<std::array<long long, 4>> fr;
    for (const auto& f : frames) fr.push_back({f.p, f.kind, f.c, f.flag});
    e.i("t", now_ms()).raw("fr", jrows(fr));
    auto v = TA::view(*W->node, [](const PeerId& id) { return static_cast<long long>(peer_of(id)); },
                      [](const ChunkId& id) { return static_cast<long long>(chunk_of(id)); });
    if (g_mode & 1) e.raw("act", jrows(v.act)).raw("per", jrows(v.per)).raw("q", jrows(v.queue));
    if (g_mode & 2) e.raw("pf", jrows(v.fetches)).raw("apr", jrows(v.apr));
    std::vector<long long> held, sess;
    for (int c = 1; c <= nchunks; ++c) if (TA::held(*W->node, cid(c))) held.push_back(c);
    for (int p = 1; p <= npeers; ++p) if (W->peers[p].fd >= 0 && TA::sessions(*W->node).is_connected(W->peers[p].id)) sess.push_back(p);
    if (g_mode & 2) e.ints("held", held);
    e.ints("sess", sess);
}
}  // namespace

int main(int argc, char** argv) {
    if (argc < 3) { std::fprintf(stderr, "usage: sched <script> <trace-out>\n"); return 2; }
    std::ifstream in(argv[1]);
    if (!in) { std::perror(argv[1]); return 2; }
    ev::open(argv[2]);
    // the session manager narrates on stderr; keep the driver quiet
    if (!std::getenv("SCHED_VERBOSE")) { int dn = ::open("/dev/null", O_WRONLY); if (dn >= 0) { ::dup2(dn, 2); ::close(dn); } }
    int npeers = 2, nchunks = 4;
    ev::Cmd c;
    long nreset = 0;
    while (ev::read_cmd(in, c)) {
        if (c.op == "reset") {
            destroy_world();
            vclock::set_ns(0);
            vrng::seed(0x5EED0000ull + static_cast<std::uint64_t>(++nreset));
            g_mode = c.s("mode", "all") == "up" ? 1 : c.s("mode", "all") == "fe" ? 2 : 3;
            npeers = static_cast<int>(std::min<long long>(c.i("peers", 2), kMaxPeers));
            nchunks = static_cast<int>(std::min<long long>(c.i("chunks", 4), kMaxChunks));
            Config cfg{};
            cfg.identity_seed = 0x51u;
            cfg.announce_pow_difficulty = 0;
            cfg.handshake_pow_difficulty = 0;
            cfg.store_pow_difficulty = 0;
            cfg.relay_enabled = false;
            cfg.nat_stun_enabled = false;
            cfg.min_manifest_ttl = std::chrono::seconds(1);
            cfg.max_manifest_ttl = std::chrono::hours(24);
            cfg.key_rotation_interval = std::chrono::seconds(c.i("rot", 3600));
            cfg.announce_min_interval = std::chrono::seconds(1);
            cfg.announce_burst_limit = 1000000;
            cfg.announce_burst_window = std::chrono::seconds(1);
            cfg.cleanup_interval = std::chrono::seconds(c.i("cleanup", 300));
            cfg.swarm_rebalance_interval = std::chrono::hours(12);
            cfg.upload_max_parallel_transfers = static_cast<std::uint16_t>(c.i("maxpar", 3));
            cfg.upload_max_transfers_per_peer = static_cast<std::uint16_t>(c.i("perpeer", 1));
            cfg.upload_transfer_timeout = std::chrono::seconds(c.i("uto", 30));
            cfg.upload_reconsider_interval = std::chrono::seconds(c.i("recon", 0));
            cfg.fetch_max_parallel_requests = static_cast<std::uint16_t>(c.i("flimit", 3));
            cfg.fetch_retry_attempt_limit = static_cast<std::uint8_t>(c.i("alimit", 5));
            cfg.fetch_retry_initial_backoff = std::chrono::seconds(c.i("binit", 3));
            cfg.fetch_retry_max_backoff = std::chrono::seconds(c.i("bmax", 60));
            cfg.fetch_retry_success_interval = std::chrono::seconds(c.i("succ", 15));
            cfg.fetch_availability_refresh = std::chrono::seconds(c.i("avail", 10));
            W = std::make_unique<World>();
            W->node = std::make_unique<Node>(ev::id32(1, 0x11), cfg);
            Config ocfg = cfg;
            ocfg.identity_seed = 0x52u;
            W->origin = std::make_unique<Node>(ev::id32(2, 0x11), ocfg);
            for (int p = 1; p <= kMaxPeers; ++p) { W->peers[p].id = pid(p); W->peer_no[pid(p)] = p; }
            for (int k = 1; k <= kMaxChunks; ++k) W->chunk_no[cid(k)] = k;
            const Config& eff = W->node->config();
            ev::Ev("reset").s("mode", c.s("mode", "all")).i("t", now_ms()).i("peers", npeers).i("chunks", nchunks)
                .i("maxpar", eff.upload_max_parallel_transfers).i("perpeer", eff.upload_max_transfers_per_peer)
                .i("uto", eff.upload_transfer_timeout.count()).i("recon", eff.upload_reconsider_interval.count())
                .i("flimit", eff.fetch_max_parallel_requests).i("alimit", eff.fetch_retry_attempt_limit)
                .i("binit", eff.fetch_retry_initial_backoff.count()).i("bmax", eff.fetch_retry_max_backoff.count())
                .i("succ", eff.fetch_retry_success_interval.count()).emit();
            continue;
        }
        if (!W) { std::fprintf(stderr, "sched: command before reset\n"); return 2; }
        Node& N = *W->node;
        const int p = static_cast<int>(c.i("p", 0));
        const int k = static_cast<int>(c.i("c", 0));
        if ((c.has("p") && (p < 1 || p > kMaxPeers)) || (c.has("c") && (k < 1 || k > kMaxChunks))) { std::fprintf(stderr, "sched: bad index\n"); return 2; }
        std::optional<std::array<std::uint8_t, 32>> keys_before[kMaxPeers + 1];
        for (int q = 1; q <= npeers; ++q) if (W->peers[q].key) keys_before[q] = N.session_key(W->peers[q].id);
        ev::Ev e(c.op);
        if (c.op == "adv") {
            vclock::advance_ms(c.i("ms", 0));
            e.i("ms", c.i("ms", 0));
        } else if (c.op == "peer") {   // key=1 registers the shared secret, link=1 opens a session
            if (c.i("key", 1)) give_key(p);
            if (c.i("link", 1)) link_peer(p);
            e.i("p", p).i("key", c.i("key", 1)).i("link", c.i("link", 1));
        } else if (c.op == "link") {
            if (c.i("up", 1)) { if (!W->peers[p].key) give_key(p); link_peer(p); } else unlink_peer(p);
            e.i("p", p).i("up", c.i("up", 1));
        } else if (c.op == "store") {  // the node itself stores chunk c (it can then serve it)
            ChunkData data(static_cast<size_t>(24 + k), static_cast<std::uint8_t>(0x30 + k));
            const auto m = N.store_chunk(cid(k), data, std::chrono::seconds(c.i("ttl", 3600)));
            e.i("c", k).i("ttl", c.i("ttl", 3600)).i("exp", vclock::system_to_ns(m.expires_at) / 1'000'000);
        } else if (c.op == "src") {    // the origin stores chunk c: manifest + ciphertext for announces / arrivals
            Source& s = W->src[k];
            ChunkData data(static_cast<size_t>(40 + k), static_cast<std::uint8_t>(0x60 + k));
            s.id = cid(k);
            s.manifest = W->origin->store_chunk(s.id, data, std::chrono::seconds(c.i("ttl", 3600)));
            s.uri = protocol::encode_manifest(s.manifest);
            const auto rec = W->origin->export_chunk_record(s.id);
            s.cipher = rec ? rec->data : ChunkData{};
            s.exp_ms = vclock::system_to_ns(s.manifest.expires_at) / 1'000'000;
            s.known = true;
            e.i("c", k).i("ttl", c.i("ttl", 3600)).i("exp", s.exp_ms);
        } else if (c.op == "req") {
            protocol::RequestPayload r{};
            r.chunk_id = cid(k);
            r.requester = pid(p);
            TA::request(N, r, pid(p));
            e.i("p", p).i("c", k).i("key", W->peers[p].key ? 1 : 0);
        } else if (c.op == "ack") {
            protocol::AcknowledgePayload a{};
            a.chunk_id = cid(k);
            a.peer_id = pid(p);
            a.accepted = c.i("ok", 1) != 0;
            TA::ack(N, a, pid(p));
            e.i("p", p).i("c", k).i("ok", a.accepted ? 1 : 0);
        } else if (c.op == "tick") {
            N.tick();
        } else if (c.op == "ann") {    // assigned-fetch announcement of chunk c by provider p
            const Source& s = W->src[k];
            if (!s.known) { std::fprintf(stderr, "sched: ann before src\n"); return 2; }
            protocol::AnnouncePayload a{};
            a.chunk_id = s.id;
            a.peer_id = pid(p);
            a.endpoint = "";
            const long long left = (s.exp_ms - now_ms()) / 1000;
            a.ttl = std::chrono::seconds(left > 0 ? left : 1);
            a.manifest_uri = s.uri;
            if (c.i("assign", 1)) a.assigned_shards.push_back(s.manifest.shards.front().index);
            if (c.i("direct", 0)) TA::assigned(N, a); else TA::announce(N, a, pid(p));
            e.i("p", p).i("c", k).i("direct", c.i("direct", 0)).i("assign", c.i("assign", 1)).i("exp", s.exp_ms);
        } else if (c.op == "chunk") {  // chunk c arrives from peer p (good=0: corrupted payload)
            const Source& s = W->src[k];
            if (!s.known) { std::fprintf(stderr, "sched: chunk before src\n"); return 2; }
            protocol::ChunkPayload cp{};
            cp.chunk_id = s.id;
            cp.data = s.cipher;
            if (!c.i("good", 1) && !cp.data.empty()) cp.data[cp.data.size() / 2] ^= 0x5a;
            cp.ttl = std::chrono::seconds(60);
            TA::chunk(N, cp, pid(p));
            e.i("p", p).i("c", k).i("good", c.i("good", 1)).i("key", W->peers[p].key ? 1 : 0);
        } else {
            std::fprintf(stderr, "sched: unknown op %s\n", c.op.c_str());
            return 2;
        }
        std::vector<Frame> frames;
        for (int q = 1; q <= npeers; ++q) drain(q, keys_before[q], frames);
        emit_state(e, frames, npeers, nchunks);
        e.emit();
    }
    destroy_world();
    std::fflush(ev::out());
    return 0;
}
