// Driver for the real crypto::Shamir (C10).   shamir <script> <trace-out>
// Every script line is executed in a forked child under a watchdog (CPU-time limit, wall alarm,
// address-space limit), so a split that never terminates is REPORTED (event "abnormal"), not hung.
//
//   gf                                   all 65 536 gf_mul / gf_div results of the real tables
//                                        (anonymous-namespace functions reached by TU inclusion)
//   case id= t= n= secret=<64 hex> cmode=rand|zero|topzero|ones cseed=
//        probes=<set>/<set>..            share position lists "1.3.5": the spec's own Combine is
//                                        evaluated on these subsets of the shares split returned
//        subs=<set>/<set>.. tc=<t'>      real Shamir::combine(set, tc) per set. A share token is
//                                        <pos>[i<idx>][z|h|f|r]: position in the split's result,
//                                        optional index override, value all-zero / first half
//                                        zero / byte 0 flipped / random
//   bij t=2|3 x=<idx> [y=<idx>] secret=  all 256 (t=2) / 65 536 (t=3) coefficient choices for
//                                        secret byte 0 through the interposed random_device
// std::random_device is interposed (common/vrng): split's coefficients are chosen by the script.
#include <map>
#include "common/ev.hpp"
#include "common/vrng.hpp"

#include <fcntl.h>
#include <sys/resource.h>
#include <sys/wait.h>
#include <unistd.h>
#include <csignal>
#include <cstring>
#include <exception>
#include <new>
#include <set>
#include <typeinfo>

#include "crypto/Shamir.cpp"   // = $(REPO)/src/crypto/Shamir.cpp (shamir.mk adds -I$(REPO)/src; /repo unless VERIF_REPO overrides)

using namespace ephemeralnet::crypto;

static long g_watchdog_s = 4;

static std::array<std::uint8_t, 32> hex32(const std::string& h) {
    std::array<std::uint8_t, 32> a{};
    for (size_t i = 0; i < 32 && 2 * i + 1 < h.size(); ++i) a[i] = static_cast<std::uint8_t>(std::stoul(h.substr(2 * i, 2), nullptr, 16));
    return a;
}
static std::vector<std::string> splitstr(const std::string& s, char sep) {
    std::vector<std::string> out; std::string cur;
    for (char c : s) { if (c == sep) { out.push_back(cur); cur.clear(); } else cur += c; }
    if (!s.empty()) out.push_back(cur);
    return out;
}
static std::string shares_json(const std::vector<ShamirShare>& sh) {
    std::string a = "[";
    for (size_t i = 0; i < sh.size(); ++i) {
        if (i) a += ",";
        a += "[" + std::to_string(sh[i].index) + ",[";
        for (size_t k = 0; k < 32; ++k) { if (k) a += ","; a += std::to_string(sh[i].value[k]); }
        a += "]]";
    }
    return a + "]";
}
template <class F> static std::string guarded(F&& f) {
    try { f(); return "ok"; }
    catch (const std::invalid_argument&) { return "invalid_argument"; }
    catch (const std::bad_alloc&) { return "exception:bad_alloc"; }
    catch (const std::exception& e) { return std::string("exception:") + typeid(e).name(); }
    catch (...) { return "exception:unknown"; }
}
static void begin(const char* what, long t, long n) { ev::Ev("begin").s("what", what).i("t", t).i("n", n).emit(); std::fflush(ev::out()); }

// ---- gf ------------------------------------------------------------------------------------
// The field arithmetic split()/combine() use.  When Shamir.cpp still has its file-local helpers (build_exp_table, build_log_table,
// gf_mul(a,b,exp,log)[, gf_div]) they are called directly.  A refactoring may rename, merge or remove them: then the multiplication
// table is read off the public API -- a (2, 255) split whose coefficients are scripted through the interposed random_device gives
// share[x].value[b] = secret[b] + coeff[b] * x, i.e. one product per (byte, index) -- and used only if it passes a sanity test.
struct Field {
    std::array<std::array<std::uint8_t, 256>, 256> mul{};
    std::array<std::array<int, 256>, 256> quo{};     // quo[a][b] = the c with c*b = a (b != 0), -1 if none
    bool ok = false;
    std::string src = "none", div0 = "invalid_argument";
    std::uint8_t add5a[256]{};
    std::uint8_t m(std::uint8_t a, std::uint8_t b) const { return mul[a][b]; }
    void finish() {
        for (int a = 0; a < 256; ++a) for (int b = 0; b < 256; ++b) quo[a][b] = -1;
        for (int c = 0; c < 256; ++c) for (int b = 1; b < 256; ++b) { int a = mul[c][b]; if (quo[a][b] < 0) quo[a][b] = c; }
    }
};
// (the empty pack `none` makes every call to a helper a dependent one: it is looked up only if its branch is instantiated)
template <class... None> static Field make_field_t(None... none) {
    Field f;
    if constexpr (requires { gf_mul(std::uint8_t{}, std::uint8_t{}, build_exp_table(none...), build_log_table(build_exp_table(none...), none...), none...); }) {
        const auto exp = build_exp_table(none...);
        const auto log = build_log_table(exp, none...);
        for (int a = 0; a < 256; ++a) for (int b = 0; b < 256; ++b) f.mul[a][b] = gf_mul(static_cast<std::uint8_t>(a), static_cast<std::uint8_t>(b), exp, log, none...);
        for (int a = 0; a < 256; ++a) {
            if constexpr (requires { gf_add(std::uint8_t{}, std::uint8_t{}, none...); }) f.add5a[a] = gf_add(static_cast<std::uint8_t>(a), std::uint8_t{0x5a}, none...);
            else f.add5a[a] = static_cast<std::uint8_t>(a ^ 0x5a);
        }
        f.finish();
        if constexpr (requires { gf_div(std::uint8_t{}, std::uint8_t{}, exp, log, none...); }) {
            for (int a = 0; a < 256; ++a) for (int b = 1; b < 256; ++b) f.quo[a][b] = gf_div(static_cast<std::uint8_t>(a), static_cast<std::uint8_t>(b), exp, log, none...);
            f.div0 = guarded([&] { (void)gf_div(std::uint8_t{7}, std::uint8_t{0}, exp, log, none...); });
            if (f.div0 == "ok") f.div0 = "value";
        }
        f.ok = true; f.src = "internal";
    } else {
        // black box: 8 splits cover the 256 coefficient values (32 secret bytes each)
        bool good = true;
        for (int round = 0; round < 8 && good; ++round) {
            std::array<std::uint8_t, 32> secret{};
            std::vector<unsigned> draws;
            for (int b = 0; b < 32; ++b) draws.push_back(0xA5A500u | static_cast<unsigned>(round * 32 + b));
            vrng::seed(4242); vrng::script(draws);
            std::vector<ShamirShare> sh;
            if (guarded([&] { sh = Shamir::split(secret, 2, 255); }) != "ok" || sh.size() != 255) { good = false; break; }
            for (const auto& s : sh) for (int b = 0; b < 32; ++b) f.mul[static_cast<size_t>(round * 32 + b)][s.index] = s.value[static_cast<size_t>(b)];
        }
        for (int a = 0; a < 256; ++a) f.add5a[a] = static_cast<std::uint8_t>(a ^ 0x5a);
        // sanity: 1 is neutral, 0 annihilates, commutative, every non-zero row is a permutation
        for (int a = 0; a < 256 && good; ++a) {
            if (f.mul[a][1] != a || f.mul[0][a] != 0) good = false;
            std::set<int> seen;
            for (int b = 1; b < 256; ++b) { if (f.mul[a][b] != f.mul[b][a]) good = false; seen.insert(f.mul[a][b]); }
            if (a && seen.size() != 255) good = false;
        }
        f.finish();
        f.ok = good; f.src = good ? "public-api" : "unknown";
    }
    return f;
}
static const Field& field() { static const Field f = make_field_t(); return f; }
static void do_gf() {
    const Field& f = field();
    if (!f.ok) { ev::Ev("gfskip").s("why", "the field arithmetic could be reached neither through Shamir.cpp's helpers nor through the public API").emit(); return; }
    for (int a = 0; a < 256; ++a) {
        std::vector<long long> mul, div;
        for (int b = 0; b < 256; ++b) mul.push_back(f.mul[static_cast<size_t>(a)][static_cast<size_t>(b)]);
        div.push_back(-1);
        for (int b = 1; b < 256; ++b) div.push_back(f.quo[static_cast<size_t>(a)][static_cast<size_t>(b)]);
        ev::Ev("gfrow").i("a", a).ints("mul", mul).ints("div", div).s("div0", f.div0).i("add", f.add5a[a]).s("src", f.src).emit();
    }
}

// ---- case ----------------------------------------------------------------------------------
// the values random_device will return: per secret byte, t-1 draws; the coefficient is the low byte
static std::vector<unsigned> make_draws(const std::string& mode, long t, std::uint64_t seed, std::vector<long long>& coeffs_flat) {
    vrng::seed_harness(seed);
    std::vector<unsigned> draws;
    for (int byte = 0; byte < 32; ++byte)
        for (long d = 1; d < t; ++d) {
            unsigned low;
            if (mode == "zero") low = 0;
            else if (mode == "ones") low = 255;
            else if (mode == "topzero") low = (d == t - 1) ? 0 : static_cast<unsigned>(vrng::below(256));
            else low = static_cast<unsigned>(vrng::below(256));
            const unsigned high = static_cast<unsigned>(vrng::below(1u << 24));
            draws.push_back((high << 8) | low);
            coeffs_flat.push_back(low);
        }
    return draws;
}
static bool parse_share(const std::string& tok, const std::vector<ShamirShare>& base, ShamirShare& out) {
    size_t p = 0; long pos = 0;
    while (p < tok.size() && std::isdigit(static_cast<unsigned char>(tok[p]))) pos = pos * 10 + (tok[p++] - '0');
    if (pos < 1 || pos > static_cast<long>(base.size())) return false;
    out = base[static_cast<size_t>(pos - 1)];
    while (p < tok.size()) {
        const char c = tok[p++];
        if (c == 'i') { long v = 0; while (p < tok.size() && std::isdigit(static_cast<unsigned char>(tok[p]))) v = v * 10 + (tok[p++] - '0'); out.index = static_cast<std::uint8_t>(v); }
        else if (c == 'z') out.value.fill(0);
        else if (c == 'h') { for (int k = 0; k < 16; ++k) out.value[k] = 0; }
        else if (c == 'f') out.value[0] ^= 0x01;
        else if (c == 'r') { for (auto& b : out.value) b = static_cast<std::uint8_t>(vrng::below(256)); }
    }
    return true;
}
static void do_case(const ev::Cmd& c) {
    const long t = c.i("t"), n = c.i("n"), id = c.i("id");
    const auto secret = hex32(c.s("secret"));
    std::vector<long long> coeffs;
    auto draws = make_draws(c.s("cmode", "rand"), t, static_cast<std::uint64_t>(c.i("cseed", 1)), coeffs);
    vrng::seed(static_cast<std::uint64_t>(c.i("cseed", 1)) * 7919u + 13u);
    vrng::script(draws);
    std::vector<ShamirShare> shares;
    begin("split", t, n);
    const std::string outcome = guarded([&] { shares = Shamir::split(secret, static_cast<std::uint8_t>(t), static_cast<std::uint8_t>(n)); });
    {
        std::vector<std::string> probes;
        for (const auto& set : splitstr(c.s("probes"), '/')) {
            std::vector<long long> pos; bool ok = true;
            for (const auto& tok : splitstr(set, '.')) { long v = std::atol(tok.c_str()); if (v < 1 || v > static_cast<long>(shares.size())) ok = false; pos.push_back(v); }
            if (!ok || pos.empty()) continue;
            std::string a = "[";
            for (size_t j = 0; j < pos.size(); ++j) { if (j) a += ","; a += std::to_string(pos[j]); }
            probes.push_back(a + "]");
        }
        ev::Ev("split").i("id", id).i("t", t).i("n", n).bytes("secret", secret).ints("coeffs", coeffs).s("outcome", outcome)
            .i("count", static_cast<long long>(shares.size())).raw("shares", shares_json(shares)).raw("probes", ev::jlist(probes)).emit();
        std::fflush(ev::out());
    }
    if (outcome != "ok") return;
    const long tc = c.i("tc", t);
    vrng::seed_harness(static_cast<std::uint64_t>(c.i("cseed", 1)) + 99u);
    for (const auto& set : splitstr(c.s("subs"), '/')) {
        std::vector<ShamirShare> sub; bool ok = true, pristine = true;
        for (const auto& tok : splitstr(set, '.')) {
            if (tok.empty()) continue;
            ShamirShare s{};
            if (!parse_share(tok, shares, s)) { ok = false; break; }
            if (tok.find_first_of("izhfr") != std::string::npos) pristine = false;
            sub.push_back(s);
        }
        if (!ok) continue;
        std::array<std::uint8_t, 32> value{};
        begin("combine", tc, static_cast<long>(sub.size()));
        std::string oc = guarded([&] { value = Shamir::combine(sub, static_cast<std::uint8_t>(tc)); });
        if (oc == "ok") oc = "value";
        ev::Ev("combine").i("id", id).i("t", t).i("tc", tc).s("spec", set).b("pristine", pristine).bytes("secret", secret)
            .raw("shares", shares_json(sub)).s("outcome", oc).bytes("value", value).emit();
        std::fflush(ev::out());
    }
}

// ---- bij -----------------------------------------------------------------------------------
static void do_bij(const ev::Cmd& c) {
    const long t = c.i("t", 2), x = c.i("x", 1), y = c.i("y", 2);
    const auto secret = hex32(c.s("secret"));
    const long n = std::max<long>(t, std::max(x, t == 3 ? y : x));
    // fixed draws for everything but the coefficients of secret byte 0
    vrng::seed_harness(static_cast<std::uint64_t>(c.i("cseed", 5)));
    std::vector<unsigned> base;
    for (int byte = 0; byte < 32; ++byte) for (long d = 1; d < t; ++d) base.push_back(static_cast<unsigned>(vrng::below(1ull << 32)));
    const long total = (t == 2) ? 256 : 65536;
    std::vector<long long> outs; outs.reserve(static_cast<size_t>(total));
    std::set<std::string> others;
    begin("bij", t, n);
    std::string outcome = "ok";
    for (long v = 0; v < total && outcome == "ok"; ++v) {
        auto draws = base;
        draws[0] = (draws[0] & 0xffffff00u) | static_cast<unsigned>(v & 0xff);
        if (t == 3) draws[1] = (draws[1] & 0xffffff00u) | static_cast<unsigned>((v >> 8) & 0xff);
        vrng::seed(12345);
        vrng::script(draws);
        std::vector<ShamirShare> sh;
        outcome = guarded([&] { sh = Shamir::split(secret, static_cast<std::uint8_t>(t), static_cast<std::uint8_t>(n)); });
        if (outcome != "ok" || static_cast<long>(sh.size()) < n) { if (outcome == "ok") outcome = "short"; break; }
        long long o = sh[static_cast<size_t>(x - 1)].value[0];
        if (t == 3) o = o * 256 + sh[static_cast<size_t>(y - 1)].value[0];
        outs.push_back(o);
        std::string sig;
        for (const auto& s : sh) { sig += static_cast<char>(s.index); sig.append(reinterpret_cast<const char*>(s.value.data()) + 1, 31); }
        others.insert(sig);
    }
    ev::Ev("bij").i("t", t).i("x", x).i("y", t == 3 ? y : 0).i("n", n).bytes("secret", secret).s("outcome", outcome)
        .i("other_variants", static_cast<long long>(others.size())).ints("outs", outs).emit();
}


// ---- indep ---------------------------------------------------------------------------------
// Secrecy needs the t-1 random coefficients of each of the 32 per-byte polynomials to be independent uniform bytes.  However split()
// consumes its randomness, the coefficients it used can be recovered from t shares (interpolation over the real field operations);
// over `runs` splits with different randomness no two coefficient slots may agree every time and no slot may be constant.
static std::vector<std::uint8_t> interpolate(const std::vector<std::uint8_t>& xs, const std::vector<std::uint8_t>& ys, const Field& F) {
    const size_t t = xs.size();
    auto add = [](std::uint8_t a, std::uint8_t b) { return static_cast<std::uint8_t>(a ^ b); };
    std::vector<std::uint8_t> master(t + 1, 0);          // M(x) = prod (x + x_j), coefficients low to high
    master[0] = 1;
    size_t deg = 0;
    for (size_t j = 0; j < t; ++j) {
        std::vector<std::uint8_t> next(t + 1, 0);
        for (size_t k = 0; k <= deg; ++k) {
            next[k + 1] = add(next[k + 1], master[k]);
            next[k] = add(next[k], F.m(master[k], xs[j]));
        }
        master = next; ++deg;
    }
    std::vector<std::uint8_t> coeff(t, 0);
    for (size_t i = 0; i < t; ++i) {
        std::vector<std::uint8_t> q(t, 0);               // N_i(x) = M(x) / (x + x_i) by synthetic division (high to low)
        std::uint8_t carry = 0;
        for (size_t k = t; k-- > 0;) { carry = add(master[k + 1], F.m(carry, xs[i])); q[k] = carry; }
        std::uint8_t denom = 1;
        for (size_t j = 0; j < t; ++j) if (j != i) denom = F.m(denom, add(xs[i], xs[j]));
        const int sc = F.quo[ys[i]][denom];
        const auto scale = static_cast<std::uint8_t>(sc < 0 ? 0 : sc);
        for (size_t k = 0; k < t; ++k) coeff[k] = add(coeff[k], F.m(q[k], scale));
    }
    return coeff;
}
static void do_indep(const ev::Cmd& c) {
    const long t = c.i("t"), n = c.i("n", t), runs = c.i("runs", 8);
    const auto secret = hex32(c.s("secret"));
    const Field& F = field();
    if (!F.ok) { ev::Ev("indep").i("t", t).i("n", n).i("runs", runs).s("outcome", "skipped").i("slots", 0).i("dup", 0).i("constant", 0).i("wrong_secret", 0).i("dup_a", -1).i("dup_b", -1).emit(); return; }
    const size_t slots = static_cast<size_t>(32 * (t - 1));
    std::vector<std::vector<std::uint8_t>> seen(static_cast<size_t>(runs));     // per run: all coefficient slots (byte-major, degree 1..t-1)
    std::string outcome = "ok";
    long wrong_secret = 0;
    for (long r = 0; r < runs && outcome == "ok"; ++r) {
        vrng::seed(static_cast<std::uint64_t>(c.i("cseed", 1)) * 1000003u + static_cast<std::uint64_t>(r) * 7919u + 17u);
        vrng::script({});
        std::vector<ShamirShare> sh;
        begin("split", t, n);
        outcome = guarded([&] { sh = Shamir::split(secret, static_cast<std::uint8_t>(t), static_cast<std::uint8_t>(n)); });
        if (outcome != "ok") break;
        if (static_cast<long>(sh.size()) < t) { outcome = "short"; break; }
        std::vector<std::uint8_t> xs;
        for (long i = 0; i < t; ++i) xs.push_back(sh[static_cast<size_t>(i)].index);
        auto& row = seen[static_cast<size_t>(r)];
        for (int byte = 0; byte < 32; ++byte) {
            std::vector<std::uint8_t> ys;
            for (long i = 0; i < t; ++i) ys.push_back(sh[static_cast<size_t>(i)].value[static_cast<size_t>(byte)]);
            const auto co = interpolate(xs, ys, F);
            if (co[0] != secret[static_cast<size_t>(byte)]) ++wrong_secret;
            for (long d = 1; d < t; ++d) row.push_back(co[static_cast<size_t>(d)]);
        }
    }
    long long dup = 0, constant = 0;
    long long firstdup_a = -1, firstdup_b = -1;
    if (outcome == "ok" && slots > 0) {
        for (size_t a = 0; a < slots; ++a) {
            bool same = true;
            for (long r = 1; r < runs && same; ++r) same = seen[static_cast<size_t>(r)][a] == seen[0][a];
            if (same) ++constant;
        }
        // slots that agree in every run: bucket by the tuple of their values over the runs
        std::map<std::string, size_t> first;
        for (size_t a = 0; a < slots; ++a) {
            std::string key;
            for (long r = 0; r < runs; ++r) key.push_back(static_cast<char>(seen[static_cast<size_t>(r)][a]));
            auto it = first.find(key);
            if (it == first.end()) first.emplace(key, a);
            else { ++dup; if (firstdup_a < 0) { firstdup_a = static_cast<long long>(it->second); firstdup_b = static_cast<long long>(a); } }
        }
    }
    ev::Ev("indep").i("t", t).i("n", n).i("runs", runs).s("outcome", outcome).i("slots", static_cast<long long>(slots)).i("dup", dup).i("constant", constant)
        .i("wrong_secret", wrong_secret).i("dup_a", firstdup_a).i("dup_b", firstdup_b).emit();
}

int main(int argc, char** argv) {
    if (argc < 3) { std::fprintf(stderr, "usage: shamir <script> <trace>\n"); return 2; }
    std::ifstream in(argv[1]);
    if (!in) { std::perror(argv[1]); return 2; }
    ev::open(argv[2]);
    const int rfd = ::open(argv[2], O_RDONLY);   // the trace stream is write-only: read back through a second descriptor
    if (rfd < 0) { std::perror(argv[2]); return 2; }
    if (const char* w = std::getenv("VERIF_WATCHDOG_S")) g_watchdog_s = std::atol(w);
    ev::Cmd c;
    long line = 0;
    while (ev::read_cmd(in, c)) {
        ++line;
        if (c.op == "reset") { ev::Ev("reset").i("line", line).emit(); continue; }
        {   // the script line itself, so that a failing behaviour can be replayed (tools/check --replay)
            std::string txt = c.op;
            for (const auto& kv : c.kv) txt += " " + kv.first + "=" + kv.second;
            ev::Ev("cmd").s("text", txt).emit();
        }
        std::fflush(ev::out());
        const long start = std::ftell(ev::out());
        const pid_t pid = fork();
        if (pid < 0) { std::perror("fork"); return 2; }
        const long budget = (c.op == "bij" || c.op == "gf" || c.op == "indep") ? g_watchdog_s * 10 : g_watchdog_s;
        if (pid == 0) {
            // watchdog: CPU seconds (a runaway loop burns CPU; robust against a loaded machine) plus a generous
            // wall-clock alarm; address-space limit so that a runaway allocation ends in bad_alloc, not in swap
            struct rlimit rl; rl.rlim_cur = rl.rlim_max = 1500ull * 1024 * 1024;
#if !defined(__SANITIZE_ADDRESS__)
            setrlimit(RLIMIT_AS, &rl);
#endif
            struct rlimit cpu; cpu.rlim_cur = static_cast<rlim_t>(budget); cpu.rlim_max = static_cast<rlim_t>(budget + 1);
            setrlimit(RLIMIT_CPU, &cpu);
            alarm(static_cast<unsigned>(budget * 20));
            if (c.op == "gf") do_gf();
            else if (c.op == "case") do_case(c);
            else if (c.op == "bij") do_bij(c);
            else if (c.op == "indep") do_indep(c);
            std::fflush(ev::out());
            _exit(0);
        }
        int st = 0;
        if (waitpid(pid, &st, 0) < 0) { std::perror("waitpid"); return 2; }
        const bool abnormal = WIFSIGNALED(st) || WEXITSTATUS(st) != 0;
        if (abnormal) {
            // the child may have died in the middle of a line: cut the file back to its last complete line
            const int fd = fileno(ev::out());
            const off_t size = lseek(fd, 0, SEEK_END);
            off_t keep = start;
            if (size > start) {
                std::vector<char> buf(static_cast<size_t>(size - start));
                if (pread(rfd, buf.data(), buf.size(), start) == static_cast<ssize_t>(buf.size()))
                    for (size_t k = buf.size(); k > 0; --k) if (buf[k - 1] == '\n') { keep = start + static_cast<off_t>(k); break; }
            }
            if (ftruncate(fd, keep) != 0) std::perror("ftruncate");
        }
        std::fseek(ev::out(), 0, SEEK_END);
        if (WIFSIGNALED(st)) {
            const int sig = WTERMSIG(st);
            ev::Ev("abnormal").i("line", line).s("cmd", c.op).s("how", (sig == SIGALRM || sig == SIGXCPU || sig == SIGKILL) ? "hang" : "crash").i("sig", sig).i("watchdog_s", budget).emit();
        } else if (WEXITSTATUS(st) != 0) {
            ev::Ev("abnormal").i("line", line).s("cmd", c.op).s("how", "exit").i("sig", WEXITSTATUS(st)).i("watchdog_s", budget).emit();
        }
    }
    std::fflush(ev::out());
    return 0;
}
