# shamir.cpp #includes $(REPO)/src/crypto/Shamir.cpp (gf_mul/gf_div live in an anonymous namespace)
EXCL_shamir := crypto/Shamir.o
CXXFLAGS_shamir := -I$(REPO)/src
