// Driver for C33: the real parse_stun_response (anonymous namespace of src/network/NatTraversal.cpp,
// reached by including the translation unit).  Script: one case per line
//     parse d=<hex datagram> tid=<hex 12 bytes> src=<label>
// Every datagram and the transaction id are copied into exact-size heap blocks before the call, so a
// read outside the datagram is a read outside an allocation (caught by the asan flavour).
//   stun <script> <trace-out>
#include "network/NatTraversal.cpp"   // = $(REPO)/src/network/NatTraversal.cpp (stun.mk adds -I$(REPO)/src, so VERIF_REPO is honoured)

#include "parsers_sup.hpp"

#include <arpa/inet.h>

using ephemeralnet::network::parse_stun_response;

struct Case { std::string d, tid, src; };

static void emit_input(ev::Ev& e, const Case& c) {
    e.bytes("d", c.d.begin(), c.d.end()).bytes("tid", c.tid.begin(), c.tid.end()).s("src", c.src);
}

int main(int argc, char** argv) {
    if (argc < 3) { std::fprintf(stderr, "usage: stun <script> <trace>\n"); return 2; }
    std::ifstream in(argv[1]);
    std::vector<Case> cases;
    ev::Cmd cmd;
    while (ev::read_cmd(in, cmd)) {
        if (cmd.op != "parse") continue;
        Case c{sup::unhex(cmd.s("d")), sup::unhex(cmd.s("tid")), cmd.s("src")};
        if (c.tid.size() != 12) { std::fprintf(stderr, "bad tid\n"); return 2; }
        cases.push_back(std::move(c));
    }
    ev::open(argv[2]);
    sup::Options opt; opt.stderr_path = std::string(argv[2]) + ".stderr";
    auto run_case = [&](long k) {
        const Case& c = cases[static_cast<std::size_t>(k)];
        sup::Exact buf(c.d);
        auto* tid = new std::array<std::uint8_t, 12>();
        std::memcpy(tid->data(), c.tid.data(), 12);
        const auto res = parse_stun_response(buf.p, buf.n, *tid);
        delete tid;
        ev::Ev e("parse");
        emit_input(e, c);
        e.b("ok", res.has_value());
        if (res.has_value()) {
            // the reported text is turned back into address bytes; fam 0 = the text is not an address
            unsigned char a[16];
            int fam = 0; std::size_t n = 0;
            if (inet_pton(AF_INET, res->address.c_str(), a) == 1) { fam = 4; n = 4; }
            else if (inet_pton(AF_INET6, res->address.c_str(), a) == 1) { fam = 6; n = 16; }
            e.s("text", res->address).i("fam", fam).bytes("addr", a, a + n).i("port", res->port);
        }
        e.emit();
    };
    auto died = [&](long k, const std::string& how, const std::string& detail) {
        ev::Ev e("died");
        emit_input(e, cases[static_cast<std::size_t>(k)]);
        e.i("case", k).s("how", how).s("detail", detail.substr(0, 300)).emit();
        std::fflush(ev::out());
    };
    sup::run(static_cast<long>(cases.size()), run_case, died, opt);
    std::fflush(ev::out());
    return 0;
}
