# C33: the harness TU includes src/network/NatTraversal.cpp itself (anonymous-namespace parser)
EXCL_stun := network/NatTraversal.o
CXXFLAGS_stun := -I$(REPO)/src
