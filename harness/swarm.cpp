// Driver for swarm distribution plans (C22).  Reads a script (see common/ev.hpp), drives the REAL
// SwarmCoordinator::compute_plan on a REAL KademliaTable (level "store"), or a real Node
// (register_peer_contact / store_chunk / tick -> swarm_plan, level "node"), under the virtual
// clock, and writes one ndjson event per call.
//   swarm <script> <trace-out>
//
// Peer ids: the script names peers by small integers 0..255.  PeerId(i) = B xor be(i+1), where B
// is the behaviour's base id (store level: the chunk id; node level: the node id), so that the
// XOR distance to B orders contacts by their number and -- when the table's own id is B
// (tself=base) -- contact i lives in bucket msb(i+1).  tself=far puts every contact in ONE bucket.
// The plan's `self` is a peer number too (store level; it may or may not be a contact of the
// table); at node level self is number 255 = the node id itself.
//
// Script commands
//   reset  self=<n> tself=far|base sample= target= minp= seed= base=<n>
//   cfg    sample= target= minp=                 (the coordinator holds the Config by reference)
//   contact id=<n> via=reg|zero|add exp=<abs ms> | ttl=<s>
//   load   id=<n> au= pu= ad= pd= sd= le= rep= hasrep= choked=     /  clearloads
//   adv ms=   /  sweep
//   plan   shards=<n>|<l1,l2,...> thr= x=<n>       (chunk id = B xor be(x))
//   nreset sample= target= minp= seed= total= thr= rebalance=<s> base=<n>
//   ncontact id=<n> exp=<abs ms>   (id=255: the node's own id)
//   ncfg   sample= target= minp=
//   nstore c=<n> size= ttl=<s>   /  ntick
#include "common/ev.hpp"
#include "common/vclock.hpp"
#include "common/vrng.hpp"
#include "ephemeralnet/core/Node.hpp"
#include "ephemeralnet/core/SwarmCoordinator.hpp"

#include <algorithm>
#include <memory>
#include <set>
#include <unordered_map>

using namespace ephemeralnet;

static PeerId xor_be(PeerId b, unsigned long long v) {
    for (int k = 0; k < 8; ++k) b[31 - k] ^= static_cast<std::uint8_t>((v >> (8 * k)) & 0xff);
    return b;
}
static long long to_ms(std::chrono::steady_clock::time_point tp) { return vclock::steady_to_ns(tp) / 1'000'000LL; }
static std::chrono::steady_clock::time_point at_ms(long long ms) {
    return std::chrono::steady_clock::time_point(std::chrono::nanoseconds(vclock::kSteadyEpochNs + ms * 1'000'000LL));
}

struct Driver {
    // ---- common
    PeerId base{};
    std::unordered_map<std::string, long> who;     // peer_id_to_string -> peer number
    std::map<int, std::set<long>> bucket_ids;      // bucket index -> peer numbers ever inserted
    PeerId tself{};
    bool node_level = false;

    PeerId pid(long i) const { return (node_level && i == 255) ? base : xor_be(base, static_cast<unsigned long long>(i) + 1); }
    long num(const PeerId& p) const { auto it = who.find(peer_id_to_string(p)); return it == who.end() ? -1 : it->second; }
    std::map<std::string, std::unordered_map<std::string, long>> who_cache;
    void index_ids() {
        const std::string key = peer_id_to_string(base) + (node_level ? "n" : "s");
        auto it = who_cache.find(key);
        if (it == who_cache.end()) {
            std::unordered_map<std::string, long> w;
            for (long i = 0; i < 255; ++i) w[peer_id_to_string(pid(i))] = i;
            if (node_level) w[peer_id_to_string(base)] = 255;
            it = who_cache.emplace(key, std::move(w)).first;
        }
        who = it->second;
    }
    int bucket_of(const PeerId& p) const {
        for (std::size_t i = 0; i < p.size(); ++i) {
            const auto d = static_cast<std::uint8_t>(tself[i] ^ p[i]);
            if (d == 0) continue;
            int msb = 7; while (!((d >> msb) & 1)) --msb;
            return static_cast<int>((p.size() - i - 1) * 8) + msb;
        }
        return -1;
    }
    void note_insert(long i) { const int b = bucket_of(pid(i)); if (b >= 0) bucket_ids[b].insert(i); }
    bool may_evict() const { for (auto& [b, s] : bucket_ids) if (s.size() > 16) return true; return false; }

    // ---- store level
    Config cfg;
    std::unique_ptr<KademliaTable> table;
    std::unique_ptr<SwarmCoordinator> coord;
    SwarmPeerLoadMap loads;
    long self_num = 0;

    // ---- node level
    std::unique_ptr<Node> node;
    std::vector<ChunkId> stored;
    std::map<std::string, long long> logged_created;   // chunk key -> created_at already logged
    std::map<std::string, protocol::Manifest> manifests; // chunk key -> manifest store_chunk returned

    void log_plan(const char* level, const SwarmDistributionPlan& plan, const protocol::Manifest& m,
                  const std::vector<PeerContact>* present, long x) {
        ev::Ev e("plan");
        e.s("level", level).i("t", to_ms(plan.created_at)).i("clock", vclock::now_ns() / 1'000'000LL).i("x", x);
        std::vector<long long> labels; for (auto& s : m.shards) labels.push_back(s.index);
        e.ints("shards", labels).i("thr", m.threshold);
        std::vector<std::string> as;
        for (auto& a : plan.assignments) {
            std::string sh = "[";
            for (std::size_t j = 0; j < a.shard_indices.size(); ++j) { if (j) sh += ","; sh += std::to_string(static_cast<unsigned>(a.shard_indices[j])); }
            as.push_back("{\"peer\":" + std::to_string(num(a.peer.id)) + ",\"sh\":" + sh + "]}");
        }
        e.raw("plan", ev::jlist(as));
        if (present && may_evict()) { std::vector<long long> p; for (auto& c : *present) p.push_back(num(c.id)); std::sort(p.begin(), p.end()); e.ints("present", p); }
        e.i("evict", may_evict() ? 1 : 0);
        long ncand = -1;   // informational: "Candidate peers discovered: N"
        for (auto& d : plan.diagnostics) { const std::string k = "Candidate peers discovered: "; if (d.rfind(k, 0) == 0) ncand = std::atol(d.c_str() + k.size()); }
        e.i("ncand", ncand);
        e.emit();
    }

    static protocol::Manifest manifest_for(const ChunkId& chunk, const std::string& shards, long thr) {
        protocol::Manifest m{};
        m.chunk_id = chunk;
        m.threshold = static_cast<std::uint8_t>(thr);
        m.expires_at = std::chrono::system_clock::now() + std::chrono::hours(1);
        std::vector<long> labels;
        if (shards.find(',') == std::string::npos && !shards.empty() && shards[0] != 'L') {
            const long n = std::atol(shards.c_str());
            for (long k = 1; k <= n; ++k) labels.push_back(k);
        } else {
            std::stringstream ss(shards[0] == 'L' ? shards.substr(1) : shards); std::string tok;
            while (std::getline(ss, tok, ',')) if (!tok.empty()) labels.push_back(std::atol(tok.c_str()));
        }
        m.total_shares = static_cast<std::uint8_t>(labels.size());
        for (long lb : labels) { protocol::KeyShard ks{}; ks.index = static_cast<std::uint8_t>(lb); ks.value.fill(static_cast<std::uint8_t>(lb)); m.shards.push_back(ks); }
        return m;
    }

    void run(const ev::Cmd& c) {
        if (c.op == "reset") {
            node.reset(); coord.reset(); table.reset(); loads.clear(); bucket_ids.clear(); stored.clear(); logged_created.clear(); manifests.clear();
            node_level = false;
            vclock::set_ns(0);
            base = ev::id32(c.i("base", 1), 0x5A);
            index_ids();
            cfg = Config{};
            cfg.identity_seed = static_cast<std::uint32_t>(c.i("seed", 1));
            cfg.swarm_candidate_sample = static_cast<std::uint16_t>(c.i("sample", 8));
            cfg.swarm_target_replicas = static_cast<std::uint16_t>(c.i("target", 3));
            cfg.swarm_min_providers = static_cast<std::uint16_t>(c.i("minp", 2));
            tself = base;
            if (c.s("tself", "far") == "far") tself[0] ^= 0x80;
            self_num = c.i("self", 250);
            table = std::make_unique<KademliaTable>(tself, cfg);
            coord = std::make_unique<SwarmCoordinator>(cfg);
            ev::Ev("reset").s("level", "store").i("t", 0).i("self", self_num).s("tself", c.s("tself", "far"))
                .i("sample", cfg.swarm_candidate_sample).i("target", cfg.swarm_target_replicas).i("minp", cfg.swarm_min_providers).emit();
        } else if (c.op == "cfg" || c.op == "ncfg") {
            Config& k = node_level ? node->config() : cfg;
            k.swarm_candidate_sample = static_cast<std::uint16_t>(c.i("sample", k.swarm_candidate_sample));
            k.swarm_target_replicas = static_cast<std::uint16_t>(c.i("target", k.swarm_target_replicas));
            k.swarm_min_providers = static_cast<std::uint16_t>(c.i("minp", k.swarm_min_providers));
            ev::Ev("cfg").i("sample", k.swarm_candidate_sample).i("target", k.swarm_target_replicas).i("minp", k.swarm_min_providers).emit();
        } else if (c.op == "contact") {
            const long i = c.i("id");
            PeerContact pc{}; pc.id = pid(i); pc.address = "10.0." + std::to_string(i / 250) + "." + std::to_string(i % 250 + 1);
            const std::string via = c.s("via", "reg");
            long long exp = 0;
            if (via == "add") {
                exp = vclock::now_ns() / 1'000'000LL + c.i("ttl", 1) * 1000;
                ChunkId some = ev::id32(7, 0xC1);
                table->add_contact(some, pc, std::chrono::seconds(c.i("ttl", 1)));
            } else if (via == "zero") {
                exp = vclock::now_ns() / 1'000'000LL;      // register_peer stamps "now" on a contact without expiry
                table->register_peer(pc);
            } else {
                exp = c.i("exp");
                pc.expires_at = at_ms(exp);
                table->register_peer(pc);
            }
            note_insert(i);
            ev::Ev("contact").i("t", vclock::now_ns() / 1'000'000LL).i("id", i).i("exp", exp).s("via", via).emit();
        } else if (c.op == "ncontact") {
            const long i = c.i("id");
            PeerContact pc{}; pc.id = pid(i); pc.address = "10.1.0." + std::to_string(i % 250 + 1);
            pc.expires_at = at_ms(c.i("exp"));
            node->register_peer_contact(pc);
            if (i != 255) note_insert(i);
            ev::Ev("contact").i("t", vclock::now_ns() / 1'000'000LL).i("id", i).i("exp", c.i("exp")).s("via", "node").emit();
        } else if (c.op == "load") {
            auto& l = loads[peer_id_to_string(pid(c.i("id")))];
            l.active_uploads = static_cast<std::size_t>(c.i("au")); l.pending_uploads = static_cast<std::size_t>(c.i("pu"));
            l.active_downloads = static_cast<std::size_t>(c.i("ad")); l.pending_downloads = static_cast<std::size_t>(c.i("pd"));
            l.seed_roles = static_cast<std::size_t>(c.i("sd")); l.leecher_roles = static_cast<std::size_t>(c.i("le"));
            l.reputation = static_cast<int>(c.i("rep")); l.has_reputation = c.i("hasrep", 1) != 0; l.is_choked = c.i("choked") != 0;
            ev::Ev("load").i("id", c.i("id")).i("au", c.i("au")).i("pu", c.i("pu")).i("ad", c.i("ad")).i("pd", c.i("pd"))
                .i("sd", c.i("sd")).i("le", c.i("le")).i("rep", c.i("rep")).i("choked", c.i("choked")).emit();
        } else if (c.op == "clearloads") {
            loads.clear();
            ev::Ev("clearloads").emit();
        } else if (c.op == "adv") {
            vclock::advance_ms(c.i("ms"));
            ev::Ev("adv").i("t", vclock::now_ns() / 1'000'000LL).emit();
        } else if (c.op == "sweep") {
            if (table) table->sweep_expired();
            ev::Ev("sweep").i("t", vclock::now_ns() / 1'000'000LL).emit();
        } else if (c.op == "plan") {
            const long x = c.i("x", 0);
            ChunkId chunk = xor_be(base, static_cast<unsigned long long>(x));
            auto m = manifest_for(chunk, c.s("shards", "0"), c.i("thr", 0));
            const auto plan = coord->compute_plan(chunk, m, *table, pid(self_num), loads);
            PeerId target{}; std::copy(chunk.begin(), chunk.end(), target.begin());
            const auto present = table->closest_peers(target, 100000);
            log_plan("store", plan, m, &present, x);
        } else if (c.op == "nreset") {
            node.reset(); coord.reset(); table.reset(); loads.clear(); bucket_ids.clear(); stored.clear(); logged_created.clear(); manifests.clear();
            node_level = true;
            vclock::set_ns(0);
            vrng::seed(static_cast<std::uint64_t>(c.i("seed", 1)) + 17);
            base = ev::id32(c.i("base", 1), 0x4E);
            tself = base;
            index_ids();
            Config k{};
            k.identity_seed = static_cast<std::uint32_t>(c.i("seed", 1));
            k.swarm_candidate_sample = static_cast<std::uint16_t>(c.i("sample", 8));
            k.swarm_target_replicas = static_cast<std::uint16_t>(c.i("target", 3));
            k.swarm_min_providers = static_cast<std::uint16_t>(c.i("minp", 2));
            k.shard_total = static_cast<std::uint8_t>(c.i("total", 5));
            k.shard_threshold = static_cast<std::uint8_t>(c.i("thr", 3));
            k.swarm_rebalance_interval = std::chrono::seconds(c.i("rebalance", 1800));
            k.storage_persistent_enabled = false;
            k.bootstrap_nodes.clear();
            node = std::make_unique<Node>(base, k);
            const Config& eff = node->config();
            ev::Ev("reset").s("level", "node").i("t", 0).i("self", 255).s("tself", "base")
                .i("sample", eff.swarm_candidate_sample).i("target", eff.swarm_target_replicas).i("minp", eff.swarm_min_providers)
                .i("total", eff.shard_total).i("thr", eff.shard_threshold).emit();
        } else if (c.op == "nstore") {
            const ChunkId chunk = ev::id32(c.i("c", 1), 0xC0);
            ChunkData data(static_cast<std::size_t>(c.i("size", 64)));
            for (std::size_t k = 0; k < data.size(); ++k) data[k] = static_cast<std::uint8_t>(k * 7 + c.i("c", 1));
            protocol::Manifest m{};
            try { m = node->store_chunk(chunk, data, std::chrono::seconds(c.i("ttl", 3600))); }
            catch (const std::exception& ex) { ev::Ev("error").s("what", ex.what()).i("c", c.i("c", 1)).emit(); return; }
            if (std::find(stored.begin(), stored.end(), chunk) == stored.end()) stored.push_back(chunk);
            const auto plan = node->swarm_plan(chunk);
            manifests[chunk_id_to_string(chunk)] = m;
            if (!plan.has_value()) { ev::Ev("noplan").i("c", c.i("c", 1)).emit(); return; }
            logged_created[chunk_id_to_string(chunk)] = to_ms(plan->created_at);
            log_plan("node", *plan, m, nullptr, c.i("c", 1));
        } else if (c.op == "ntick") {
            node->tick();
            ev::Ev("tick").i("t", vclock::now_ns() / 1'000'000LL).emit();
            // plans the tick recomputed (rebalance): only those created at this very instant are judged,
            // an older plan was made against an older table
            for (const auto& chunk : stored) {
                const auto plan = node->swarm_plan(chunk);
                if (!plan.has_value()) continue;
                const auto key = chunk_id_to_string(chunk);
                const auto created = to_ms(plan->created_at);
                if (created != vclock::now_ns() / 1'000'000LL || logged_created[key] == created) continue;
                logged_created[key] = created;
                log_plan("node", *plan, manifests[key], nullptr, 0);
            }
        } else {
            std::fprintf(stderr, "swarm: unknown command %s\n", c.op.c_str());
            std::exit(2);
        }
    }
};

int main(int argc, char** argv) {
    if (argc < 3) { std::fprintf(stderr, "usage: swarm <script> <trace-out>\n"); return 2; }
    std::ifstream in(argv[1]);
    if (!in) { std::perror(argv[1]); return 2; }
    ev::open(argv[2]);
    Driver d;
    ev::Cmd c;
    while (ev::read_cmd(in, c)) d.run(c);
    std::fclose(ev::out());
    return 0;
}
