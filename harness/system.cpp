// Driver for the end-to-end composition (spec/System.tla): N real Nodes connected over loopback under
// the virtual clock. Every protocol message a node receives is intercepted (SessionManager::TestHooks::
// drop_receive), parked in a queue and delivered -- or lost -- when the replayed TLC schedule says so,
// by calling the receiver's Node::handle_transport_message on the driver thread. So delivery order and
// delay are fully controlled, including arbitrarily late delivery after the manifest has expired.
// After every step the affected node's dated state is logged in the event format of
// spec/NodeTtlTrace.tla (one stream per node, field "node").
//   system <script> <trace-out> <workdir>
#include "common/ev.hpp"
#include "common/vclock.hpp"
#include "common/vrng.hpp"
#include "ephemeralnet/core/Node.hpp"
#include "ephemeralnet/protocol/Manifest.hpp"
#include "ephemeralnet/protocol/Message.hpp"
#include <unistd.h>
#include <deque>
#include <filesystem>
#include <memory>
#include <mutex>
#include <set>
#include <cmath>

using namespace ephemeralnet;
namespace ephemeralnet::test {
class NodeTestAccess {
public:
    static auto& store(Node& n) { return n.chunk_store_; }
    static auto& dht(Node& n) { return n.dht_; }
    static auto& cache(Node& n) { return n.manifest_cache_; }
    static auto& plans(Node& n) { return n.swarm_plans_; }
    static auto& pending(Node& n) { return n.pending_chunk_fetches_; }
    static auto last_cleanup(Node& n) { return n.last_cleanup_; }
    static std::recursive_mutex& mtx(Node& n) { return n.scheduler_mutex_; }
    static void deliver(Node& n, const network::TransportMessage& m) { n.handle_transport_message(m); }
    static std::optional<std::uint64_t> work(Node& n, const PeerId& p) { return n.generate_handshake_work(p); }
};
}
using Acc = ephemeralnet::test::NodeTestAccess;
static constexpr long kClampMs = 2'000'000'000L;
static long long clampms(long long ms) { return std::max<long long>(-kClampMs, std::min<long long>(kClampMs, ms)); }
static long long st_ms(std::chrono::steady_clock::time_point tp) { if (tp == std::chrono::steady_clock::time_point{}) return -kClampMs; if (tp == std::chrono::steady_clock::time_point::max()) return kClampMs; return clampms(vclock::steady_to_ns(tp) / 1'000'000LL); }
static long long sy_ms(std::chrono::system_clock::time_point tp) {
    if (tp == std::chrono::system_clock::time_point{}) return -kClampMs;
    long double ms = (static_cast<long double>(std::chrono::duration_cast<std::chrono::nanoseconds>(tp.time_since_epoch()).count()) - static_cast<long double>(vclock::kSystemEpochNs)) / 1e6L;
    if (ms > kClampMs) return kClampMs; if (ms < -kClampMs) return -kClampMs; return static_cast<long long>(std::floor(ms));
}
static long long now_ms() { return vclock::now_ns() / 1'000'000LL; }
static PeerId pid(long p) { return ev::id32(p, 0xA0); }
static ChunkId cid(long c) { return ev::id32(c, 0xC0); }
static std::vector<std::uint8_t> payload_bytes(long k) { std::vector<std::uint8_t> v(static_cast<size_t>(30 + k)); for (size_t i = 0; i < v.size(); ++i) v[i] = static_cast<std::uint8_t>(1 + (k * 31 + i * 7) % 255); return v; }

struct Parked { long from, to; std::string type; network::TransportMessage msg; long long exp_ms; long c; bool accepted = false; };
static std::mutex g_qm;
static std::deque<network::TransportMessage> g_raw;   // intercepted, not yet classified

struct Driver {
    std::vector<std::unique_ptr<Node>> nodes;   // index 1..n
    std::map<std::string, long> peer_of, chunk_of;
    std::vector<Parked> parked;
    network::SessionManager::TestHooks hooks;
    long n = 0;

    long cnum(const std::string& k) { auto it = chunk_of.find(k); return it == chunk_of.end() ? -1 : it->second; }
    long pnum(const PeerId& id) { auto it = peer_of.find(peer_id_to_string(id)); return it == peer_of.end() ? -1 : it->second; }

    std::string proj(long i) {
        Node& a = *nodes[i];
        std::unique_lock<std::recursive_mutex> lk(Acc::mtx(a));
        std::vector<std::string> chunks, cache, shard, loc, pend, plans;
        for (auto& s : Acc::store(a).snapshot()) chunks.push_back("[" + std::to_string(cnum(s.key)) + "," + std::to_string(st_ms(s.expires_at)) + "]");
        for (auto& [k, m] : Acc::cache(a)) cache.push_back("[" + std::to_string(cnum(k)) + "," + std::to_string(sy_ms(m.expires_at)) + "]");
        for (long c = 0; c < 8; ++c) if (auto r = Acc::dht(a).shard_record(cid(c))) shard.push_back("[" + std::to_string(c) + "," + std::to_string(st_ms(r->expires_at)) + "]");
        for (auto& l : Acc::dht(a).snapshot_locators()) {
            std::vector<std::string> hs;
            for (auto& h : l.holders) hs.push_back("[" + std::to_string(h.id == a.id() ? 0 : pnum(h.id)) + "," + std::to_string(st_ms(h.expires_at)) + "]");
            loc.push_back("[" + std::to_string(cnum(chunk_id_to_string(l.id))) + "," + std::to_string(st_ms(l.expires_at)) + "," + ev::jlist(hs) + "]");
        }
        for (auto& [k, s] : Acc::pending(a)) pend.push_back("[" + std::to_string(cnum(k)) + "," + std::to_string(sy_ms(s.manifest_expires)) + "," + std::to_string(s.attempts) + "]");
        for (auto& [k, p] : Acc::plans(a)) plans.push_back(std::to_string(cnum(k)));
        return "{\"chunks\":" + ev::jlist(chunks) + ",\"listed\":[],\"cache\":" + ev::jlist(cache) + ",\"shard\":" + ev::jlist(shard) + ",\"loc\":" + ev::jlist(loc) +
               ",\"pend\":" + ev::jlist(pend) + ",\"plans\":" + ev::jlist(plans) + "}";
    }
    void fin(ev::Ev& e, long i) { e.i("node", i).i("t", now_ms()).raw("proj", proj(i)); e.emit(); }

    // classify intercepted messages: receiver = the node whose session key with the sender verifies the MAC
    void settle() {
        for (int quiet = 0, spins = 0; quiet < 4 && spins < 200; ++spins) {
            usleep(10000);
            std::deque<network::TransportMessage> batch;
            { std::scoped_lock lk(g_qm); batch.swap(g_raw); }
            if (batch.empty()) { ++quiet; continue; }
            quiet = 0;
            for (auto& m : batch) {
                long from = pnum(m.peer_id);
                for (long to = 1; to <= n; ++to) {
                    if (to == from) continue;
                    auto key = nodes[to]->session_key(m.peer_id);
                    if (!key) continue;
                    auto dec = protocol::decode_signed(m.payload, std::span<const std::uint8_t>(key->data(), key->size()));
                    if (!dec) continue;
                    Parked p{from, to, "other", m, -kClampMs, -1};
                    if (auto* ap = std::get_if<protocol::AnnouncePayload>(&dec->payload)) { p.type = "ann"; p.c = cnum(chunk_id_to_string(ap->chunk_id)); try { p.exp_ms = sy_ms(protocol::decode_manifest(ap->manifest_uri).expires_at); } catch (...) {} }
                    else if (auto* rp = std::get_if<protocol::RequestPayload>(&dec->payload)) { p.type = "req"; p.c = cnum(chunk_id_to_string(rp->chunk_id)); }
                    else if (auto* cp = std::get_if<protocol::ChunkPayload>(&dec->payload)) { p.type = "chunk"; p.c = cnum(chunk_id_to_string(cp->chunk_id)); }
                    else if (auto* kp = std::get_if<protocol::AcknowledgePayload>(&dec->payload)) { p.type = "ack"; p.accepted = kp->accepted; }
                    parked.push_back(std::move(p));
                    break;
                }
            }
        }
    }
    std::string queue_json() {
        std::vector<std::string> js;
        for (auto& p : parked) js.push_back("[" + ev::jstr(p.type) + "," + std::to_string(p.from) + "," + std::to_string(p.to) + "]");
        return ev::jlist(js);
    }
    int find(const std::string& type, long from, long to) { for (size_t i = 0; i < parked.size(); ++i) if (parked[i].type == type && parked[i].from == from && parked[i].to == to) return static_cast<int>(i); return -1; }

    void run(const ev::Cmd& c) {
        if (c.op == "reset") {
            network::SessionManager::set_test_hooks(nullptr);
            for (auto& nd : nodes) if (nd) nd->stop_transport();
            nodes.clear(); parked.clear(); { std::scoped_lock lk(g_qm); g_raw.clear(); }
            vclock::set_ns(0);
            n = c.i("n", 2);
            peer_of.clear(); chunk_of.clear();
            for (long k = 0; k < 16; ++k) { peer_of[peer_id_to_string(pid(k))] = k; chunk_of[chunk_id_to_string(cid(k))] = k; }
            nodes.resize(n + 1);
            for (long i = 1; i <= n; ++i) {
                Config cfg{}; cfg.identity_seed = 0x5000u + static_cast<std::uint32_t>(i);
                cfg.handshake_pow_difficulty = 0; cfg.announce_pow_difficulty = 0; cfg.relay_enabled = false; cfg.nat_stun_enabled = false;
                cfg.handshake_cooldown = std::chrono::seconds(0);
                cfg.min_manifest_ttl = std::chrono::seconds(c.i("min", 2)); cfg.max_manifest_ttl = std::chrono::seconds(c.i("max", 3));
                cfg.default_chunk_ttl = std::chrono::seconds(c.i("default", 2)); cfg.cleanup_interval = std::chrono::seconds(c.i("cleanup", 1));
                cfg.announce_min_interval = std::chrono::seconds(1); cfg.announce_burst_limit = 100000; cfg.announce_burst_window = std::chrono::seconds(1);
                cfg.key_rotation_interval = std::chrono::seconds(3600);
                cfg.shard_threshold = 2; cfg.shard_total = 3; cfg.swarm_target_replicas = static_cast<std::uint16_t>(n); cfg.swarm_min_providers = 1;
                cfg.fetch_retry_attempt_limit = 1;    // the schedule, not the node's retry timer, decides re-dispatch
                cfg.control_host = "127.0.0.1";
                nodes[i] = std::make_unique<Node>(pid(i), cfg);
                nodes[i]->start_transport(0);
            }
            for (long i = 1; i <= n; ++i) for (long j = 1; j <= n; ++j) if (i != j) {
                auto w = Acc::work(*nodes[j], nodes[i]->id());
                nodes[i]->perform_handshake(nodes[j]->id(), nodes[j]->public_identity(), w.value_or(0));
                PeerContact pc{}; pc.id = nodes[j]->id(); pc.address = "127.0.0.1:" + std::to_string(nodes[j]->transport_port());
                pc.expires_at = std::chrono::steady_clock::now() + std::chrono::hours(100);
                nodes[i]->register_peer_contact(pc);
            }
            hooks.drop_receive = [](const network::TransportMessage& m) { std::scoped_lock lk(g_qm); g_raw.push_back(m); return true; };
            network::SessionManager::set_test_hooks(&hooks);
            static long bi = 0; ++bi;
            for (long i = 1; i <= n; ++i) {
                const auto& sc = nodes[i]->config();
                ev::Ev e("reset"); e.i("bi", bi).i("min", sc.min_manifest_ttl.count() * 1000).i("max", sc.max_manifest_ttl.count() * 1000).i("deflt", sc.default_chunk_ttl.count() * 1000)
                    .i("rot", sc.key_rotation_interval.count() * 1000).i("apow", sc.announce_pow_difficulty).i("hpow", sc.handshake_pow_difficulty).i("spow", sc.store_pow_difficulty);
                fin(e, i);
            }
            return;
        }
        vclock::advance_ms(0);
        if (c.op == "store") {
            long i = c.i("n"), ch = c.i("c", 1), b = c.i("b", 1); long long ttl = c.i("ttl");
            auto m = nodes[i]->store_chunk(cid(ch), payload_bytes(b), std::chrono::seconds(ttl));
            settle();
            long long dl = -kClampMs, sexp = -kClampMs, aexp = -kClampMs;
            { std::unique_lock<std::recursive_mutex> lk(Acc::mtx(*nodes[i]));
              for (auto& s : Acc::store(*nodes[i]).snapshot()) if (s.id == cid(ch)) dl = st_ms(s.expires_at);
              if (auto r = Acc::dht(*nodes[i]).shard_record(cid(ch))) sexp = st_ms(r->expires_at);
              for (auto& l : Acc::dht(*nodes[i]).snapshot_locators()) if (l.id == cid(ch)) for (auto& h : l.holders) if (h.id == nodes[i]->id()) aexp = st_ms(h.expires_at); }
            ev::Ev e("store"); e.i("c", ch).i("b", b).i("ttl", clampms(ttl * 1000)).i("dl", dl).i("mexp", sy_ms(m.expires_at)).i("sexp", sexp).i("aexp", aexp).raw("queue", queue_json());
            fin(e, i);
        } else if (c.op == "ann" || c.op == "req" || c.op == "chunk") {
            long from = c.i("from"), to = c.i("to");
            int k = find(c.op, from, to);
            if (k < 0) { ev::Ev e("nomatch"); e.s("want", c.op).i("from", from).raw("queue", queue_json()); fin(e, to); return; }
            Parked p = parked[k]; parked.erase(parked.begin() + k);
            size_t before = parked.size();
            bool held_before; { std::unique_lock<std::recursive_mutex> lk(Acc::mtx(*nodes[to])); held_before = false; for (auto& s : Acc::store(*nodes[to]).snapshot()) if (cnum(s.key) == p.c && std::chrono::steady_clock::now() < s.expires_at) held_before = true; }
            Acc::deliver(*nodes[to], p.msg);
            settle();
            if (c.op == "ann") {
                ev::Ev e("manifest"); e.s("via", "announce").i("c", p.c).i("p", from).i("exp", p.exp_ms).raw("queue", queue_json()); fin(e, to);
            } else if (c.op == "req") {
                bool served = false; for (size_t q = before; q < parked.size(); ++q) if (parked[q].type == "chunk" && parked[q].from == to && parked[q].to == from) served = true;
                ev::Ev e("get"); e.i("c", p.c).s("via", "peerreq").i("p", from).s("res", served ? "hit" : "miss").i("b", -8).raw("queue", queue_json()); fin(e, to);
            } else {
                long long dl = -kClampMs, exp = -kClampMs; bool held = false;
                { std::unique_lock<std::recursive_mutex> lk(Acc::mtx(*nodes[to]));
                  for (auto& s : Acc::store(*nodes[to]).snapshot()) if (cnum(s.key) == p.c) { dl = st_ms(s.expires_at); held = std::chrono::steady_clock::now() < s.expires_at; }
                  auto it = Acc::cache(*nodes[to]).find(chunk_id_to_string(cid(p.c))); if (it != Acc::cache(*nodes[to]).end()) exp = sy_ms(it->second.expires_at); }
                // accepted iff the receiver acknowledged the chunk positively (its reply to the sender)
                bool ok = false; for (size_t q = before; q < parked.size(); ++q) if (parked[q].type == "ack" && parked[q].from == to && parked[q].to == from) ok = parked[q].accepted;
                (void)held; (void)held_before;
                ev::Ev e("replica"); e.s("via", "chunkin").i("c", p.c).i("b", -1).i("cls", -1).i("corrupt", 0).i("exp", exp).b("ok", ok).i("dl", dl).raw("queue", queue_json()); fin(e, to);
            }
        } else if (c.op == "lose") {
            int k = find(c.s("type"), c.i("from"), c.i("to"));
            if (k >= 0) parked.erase(parked.begin() + k);
            ev::Ev e("lose"); e.b("found", k >= 0); fin(e, c.i("to"));
        } else if (c.op == "tick") {
            long i = c.i("n");
            auto before = Acc::last_cleanup(*nodes[i]);
            nodes[i]->tick();
            settle();
            bool cleaned = Acc::last_cleanup(*nodes[i]) != before;
            auto rep = nodes[i]->audit_ttl();
            ev::Ev e("tick"); e.b("cleaned", cleaned).b("healthy", rep.healthy()).i("a_local", rep.expired_local_chunks.size()).i("a_loc", rep.expired_locator_chunks.size()).i("a_contacts", rep.expired_contacts.size()).raw("queue", queue_json());
            fin(e, i);
        } else if (c.op == "adv") {
            vclock::advance_ms(c.i("ms"));
            for (long i = 1; i <= n; ++i) { ev::Ev e("adv"); e.i("ms", c.i("ms")); fin(e, i); }
        } else { std::fprintf(stderr, "system: unknown op %s\n", c.op.c_str()); std::exit(2); }
    }
};

int main(int argc, char** argv) {
    if (argc < 4) return 2;
    std::filesystem::create_directories(argv[3]);
    if (!std::getenv("VERIF_VERBOSE")) std::freopen("/dev/null", "w", stderr);
    ev::open(argv[2]);
    std::ifstream in(argv[1]);
    Driver d; ev::Cmd c;
    while (ev::read_cmd(in, c)) d.run(c);
    network::SessionManager::set_test_hooks(nullptr);
    for (auto& nd : d.nodes) if (nd) nd->stop_transport();
    std::fflush(ev::out());
    _exit(0);
}
