# EXCL_<harness>: repo objects (relative to src/, .o) the harness replaces by #including the .cpp
# EXTRA_<harness>: extra repo objects to link (daemon/relay), relative to src/
LIBS_chunkstore := -ldl
