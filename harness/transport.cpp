// Driver for C14 (transport sessions): REAL network::SessionManager objects over loopback TCP.
//   transport <script> <trace-out>
// Three arrangements per behaviour (reset mode=...):
//   pair : two real SessionManagers, A connects to B (handshake handler on B supplies the session key);
//          payloads are sent with the real send() in either direction and recorded by the real message handlers.
//   out  : a real SessionManager A connects to a raw TCP listener owned by the harness; the harness reads the
//          32-byte identity (+ optional transport handshake, optional encrypted ack written by hand) and then
//          parses the raw frames A puts on the socket: nonce | big-endian length | ciphertext.
//   in   : the harness connects to the real listener of B, writes identity + handshake by hand and then writes
//          crafted frames (any announced length, body present or not, in chunks of any size).
// In out/in mode the harness can also write crafted frames towards the real node and the real node can send()
// towards the harness, so both directions of both arrangements are covered.
// Observations are queued in arrival order and written at sync points:
//   send    the real send() returned (lane = sending thread, n, sha-256 of the payload, ok, connected before)
//   raw     the harness wrote a frame by hand (announced length as [hi16, lo16], body bytes written, plaintext hash)
//   wire    the harness read a frame the real node produced (nonce, announced length, sha-256 of the body, the
//           body decrypted with counter 0 under the session key: hash; for small frames body and plaintext bytes)
//   deliver the real message handler was called (n, sha-256)
//   alloc   a thread of the real SessionManager asked for more than 1 MiB + 4 KiB in one allocation
//   state   after waiting: is_connected on the real side(s), whether the harness' socket saw EOF/RST,
//           largest single allocation made by SessionManager threads in this behaviour
// Real time is used only to wait (generous time-outs, VERIF_TRANSPORT_TIMEOUT_MS); no verdict depends on a duration
// other than "did not happen within the time-out".  The virtual clock stays frozen.
#include "common/ev.hpp"
#include "common/vclock.hpp"
#include "common/vrng.hpp"
#include "ephemeralnet/network/SessionManager.hpp"
#include "ephemeralnet/crypto/ChaCha20.hpp"
#include "ephemeralnet/protocol/Message.hpp"

#include <arpa/inet.h>
#include <netinet/in.h>
#include <netinet/tcp.h>
#include <poll.h>
#include <signal.h>
#include <sys/socket.h>
#include <time.h>
#include <unistd.h>

#include <atomic>
#include <cstring>
#include <deque>
#include <memory>
#include <mutex>
#include <new>
#include <thread>

using namespace ephemeralnet;
using network::SessionManager;

static constexpr std::size_t kMax = 1u << 20;   // the limit the property names (1 MiB)
static constexpr std::size_t kSmall = 256;      // frames up to this size are logged byte for byte

// ------------------------------------------------------------------------------------------------
// allocation monitor: every operator new made on a thread that is NOT a harness thread (i.e. on the accept /
// receive threads the SessionManager starts) is measured.  An honest receive loop needs at most the payload
// (<= 1 MiB) per allocation.  Requests above 64 MiB are refused (bad_alloc) after being logged: a receive loop
// that sizes a buffer from an announced length of 2^31 would otherwise zero-fill gigabytes on a shared machine.
static thread_local bool tl_harness = false;
static std::atomic<unsigned long long> g_maxalloc{0};
static std::atomic<bool> g_alloc_logged{false};
static void note_alloc(std::size_t n);
static void* counted_alloc(std::size_t n) {
    if (!tl_harness && n > kMax) note_alloc(n);
    if (!tl_harness && n > (64u << 20)) throw std::bad_alloc();
    void* p = std::malloc(n ? n : 1);
    if (!p) throw std::bad_alloc();
    return p;
}
void* operator new(std::size_t n) { return counted_alloc(n); }
void* operator new[](std::size_t n) { return counted_alloc(n); }
void* operator new(std::size_t n, const std::nothrow_t&) noexcept { try { return counted_alloc(n); } catch (...) { return nullptr; } }
void* operator new[](std::size_t n, const std::nothrow_t&) noexcept { try { return counted_alloc(n); } catch (...) { return nullptr; } }
void operator delete(void* p) noexcept { std::free(p); }
void operator delete[](void* p) noexcept { std::free(p); }
void operator delete(void* p, std::size_t) noexcept { std::free(p); }
void operator delete[](void* p, std::size_t) noexcept { std::free(p); }
void operator delete(void* p, const std::nothrow_t&) noexcept { std::free(p); }
void operator delete[](void* p, const std::nothrow_t&) noexcept { std::free(p); }

struct HarnessThread { bool prev; HarnessThread() : prev(tl_harness) { tl_harness = true; } ~HarnessThread() { tl_harness = prev; } };

// ------------------------------------------------------------------------------------------------
// independent SHA-256 (FIPS 180-4) for payload identity in the trace; not the repo's implementation
namespace sha {
static const std::uint32_t K[64] = {
    0x428a2f98, 0x71374491, 0xb5c0fbcf, 0xe9b5dba5, 0x3956c25b, 0x59f111f1, 0x923f82a4, 0xab1c5ed5, 0xd807aa98, 0x12835b01, 0x243185be, 0x550c7dc3,
    0x72be5d74, 0x80deb1fe, 0x9bdc06a7, 0xc19bf174, 0xe49b69c1, 0xefbe4786, 0x0fc19dc6, 0x240ca1cc, 0x2de92c6f, 0x4a7484aa, 0x5cb0a9dc, 0x76f988da,
    0x983e5152, 0xa831c66d, 0xb00327c8, 0xbf597fc7, 0xc6e00bf3, 0xd5a79147, 0x06ca6351, 0x14292967, 0x27b70a85, 0x2e1b2138, 0x4d2c6dfc, 0x53380d13,
    0x650a7354, 0x766a0abb, 0x81c2c92e, 0x92722c85, 0xa2bfe8a1, 0xa81a664b, 0xc24b8b70, 0xc76c51a3, 0xd192e819, 0xd6990624, 0xf40e3585, 0x106aa070,
    0x19a4c116, 0x1e376c08, 0x2748774c, 0x34b0bcb5, 0x391c0cb3, 0x4ed8aa4a, 0x5b9cca4f, 0x682e6ff3, 0x748f82ee, 0x78a5636f, 0x84c87814, 0x8cc70208,
    0x90befffa, 0xa4506ceb, 0xbef9a3f7, 0xc67178f2};
static inline std::uint32_t ror(std::uint32_t x, int r) { return (x >> r) | (x << (32 - r)); }
static void block(std::uint32_t* h, const std::uint8_t* p) {
    std::uint32_t w[64];
    for (int i = 0; i < 16; ++i) w[i] = (std::uint32_t(p[4 * i]) << 24) | (std::uint32_t(p[4 * i + 1]) << 16) | (std::uint32_t(p[4 * i + 2]) << 8) | p[4 * i + 3];
    for (int i = 16; i < 64; ++i) {
        std::uint32_t s0 = ror(w[i - 15], 7) ^ ror(w[i - 15], 18) ^ (w[i - 15] >> 3), s1 = ror(w[i - 2], 17) ^ ror(w[i - 2], 19) ^ (w[i - 2] >> 10);
        w[i] = w[i - 16] + s0 + w[i - 7] + s1;
    }
    std::uint32_t a = h[0], b = h[1], c = h[2], d = h[3], e = h[4], f = h[5], g = h[6], hh = h[7];
    for (int i = 0; i < 64; ++i) {
        std::uint32_t t1 = hh + (ror(e, 6) ^ ror(e, 11) ^ ror(e, 25)) + ((e & f) ^ (~e & g)) + K[i] + w[i];
        std::uint32_t t2 = (ror(a, 2) ^ ror(a, 13) ^ ror(a, 22)) + ((a & b) ^ (a & c) ^ (b & c));
        hh = g; g = f; f = e; e = d + t1; d = c; c = b; b = a; a = t1 + t2;
    }
    h[0] += a; h[1] += b; h[2] += c; h[3] += d; h[4] += e; h[5] += f; h[6] += g; h[7] += hh;
}
static std::string hex(const std::uint8_t* data, std::size_t n) {
    std::uint32_t h[8] = {0x6a09e667, 0xbb67ae85, 0x3c6ef372, 0xa54ff53a, 0x510e527f, 0x9b05688c, 0x1f83d9ab, 0x5be0cd19};
    std::size_t i = 0;
    for (; i + 64 <= n; i += 64) block(h, data + i);
    std::uint8_t tail[128] = {0};
    std::size_t r = n - i;
    if (r) std::memcpy(tail, data + i, r);
    tail[r] = 0x80;
    std::size_t tl = (r + 9 <= 64) ? 64 : 128;
    unsigned long long bits = static_cast<unsigned long long>(n) * 8;
    for (int k = 0; k < 8; ++k) tail[tl - 1 - k] = static_cast<std::uint8_t>(bits >> (8 * k));
    block(h, tail);
    if (tl == 128) block(h, tail + 64);
    static const char* d = "0123456789abcdef";
    std::string out;
    for (int k = 0; k < 8; ++k) for (int s = 28; s >= 0; s -= 4) out += d[(h[k] >> s) & 15];
    return out;
}
static std::string hex(const std::vector<std::uint8_t>& v) { return hex(v.data(), v.size()); }
}

// ------------------------------------------------------------------------------------------------
static long long real_ms() { timespec ts; clock_gettime(CLOCK_MONOTONIC, &ts); return ts.tv_sec * 1000LL + ts.tv_nsec / 1000000; }
static long long g_timeout_ms = 10000;

static std::vector<std::uint8_t> gen_payload(std::size_t n, unsigned long long seed) {
    std::vector<std::uint8_t> v(n, 0);
    if (seed == 0) return v;          // all-zero payload: the body on the wire is the bare keystream
    unsigned long long s = seed * 0x9E3779B97F4A7C15ull + n * 0xD1B54A32D192ED03ull + 1;
    for (std::size_t i = 0; i < n; i += 8) {
        s ^= s << 13; s ^= s >> 7; s ^= s << 17;
        unsigned long long x = s * 0x2545F4914F6CDD1Dull;
        for (std::size_t k = 0; k < 8 && i + k < n; ++k) v[i + k] = static_cast<std::uint8_t>(x >> (8 * k));
    }
    return v;
}

static std::string limbs(unsigned long long v) {   // 32-bit value as [hi16, lo16]; larger values saturate
    if (v > 0xFFFFFFFFull) v = 0xFFFFFFFFull;
    return "[" + std::to_string(v >> 16) + "," + std::to_string(v & 0xFFFF) + "]";
}

struct Obs {
    char kind;                 // 'D' deliver, 'W' wire, 'S' send (recorded from a non-script thread), 'A' alloc
    std::string dir, lane, h, cth;
    unsigned long long n = 0, L = 0;
    bool ok = true, conn = true, truncated = false;
    std::array<std::uint8_t, 12> nonce{};
    std::vector<std::uint8_t> ct, pt;
};

static std::mutex g_obs_m;
static std::deque<Obs> g_obs;
static std::atomic<int> g_seen_AB{0}, g_seen_BA{0}, g_seen_wire{0};   // deliveries to B, to A, frames read by the harness
static void push(Obs&& o) { std::scoped_lock l(g_obs_m); g_obs.push_back(std::move(o)); }

static void note_alloc(std::size_t n) {
    unsigned long long cur = g_maxalloc.load();
    while (n > cur && !g_maxalloc.compare_exchange_weak(cur, n)) {}
    if (n > kMax + 4096 && !g_alloc_logged.exchange(true)) {
        // written at once (the process may not survive a refused allocation inside a library thread)
        bool prev = tl_harness; tl_harness = true;
        { ev::Ev e("alloc"); e.raw("n", limbs(n)); e.emit(); std::fflush(ev::out()); }
        tl_harness = prev;
    }
}

static bool write_all(int fd, const std::uint8_t* p, std::size_t n, std::size_t chunk, std::size_t& wrote) {
    wrote = 0;
    while (wrote < n) {
        std::size_t want = n - wrote;
        if (chunk && want > chunk) want = chunk;
        ssize_t r = ::send(fd, p + wrote, want, MSG_NOSIGNAL);
        if (r <= 0) return false;
        wrote += static_cast<std::size_t>(r);
        if (chunk) sched_yield();
    }
    return true;
}
static bool read_all(int fd, std::uint8_t* p, std::size_t n) {
    std::size_t got = 0;
    while (got < n) { ssize_t r = ::recv(fd, p + got, n - got, 0); if (r <= 0) return false; got += static_cast<std::size_t>(r); }
    return true;
}

struct Driver {
    std::string mode;
    std::unique_ptr<SessionManager> A, B;
    PeerId idA = ev::id32(1, 0xA1), idB = ev::id32(2, 0xB2), idH = ev::id32(3, 0xC3);
    std::array<std::uint8_t, 32> key{};
    int hs = -1;                          // harness end of the raw connection (out / in mode)
    std::thread reader;                   // parses frames the real node writes to hs
    std::atomic<bool> hclosed{false};
    std::atomic<bool> gate{false}, gate_abort{false};
    std::atomic<int> released{0};
    std::atomic<long long> slow_us{0};
    std::atomic<int> entered{0};          // handler invocations so far (gate bookkeeping)
    int accepted_AB = 0, accepted_BA = 0, accepted_wire = 0;   // what the harness waits for at sync
    bool expect_close = false;
    unsigned long long hnonce = 1;
    bool any_session = false;

    SessionManager* node(const std::string& who) { return who == "A" ? A.get() : B.get(); }
    PeerId peer_of(const std::string& who) const { return mode == "pair" ? (who == "A" ? idB : idA) : idH; }
    std::string real_name() const { return mode == "in" ? "B" : "A"; }

    void handler(const std::string& dir, const network::TransportMessage& m) {
        HarnessThread ht;
        int my = entered.fetch_add(1);
        while (gate.load() && !gate_abort.load() && released.load() <= my) usleep(100);
        if (slow_us.load() && !gate_abort.load()) usleep(static_cast<useconds_t>(slow_us.load()));   // a slow consumer: the sender's socket buffer fills up
        Obs o; o.kind = 'D'; o.dir = dir; o.n = m.payload.size(); o.h = sha::hex(m.payload);
        push(std::move(o));
        if (dir[1] == 'B') ++g_seen_AB; else ++g_seen_BA;
    }

    std::vector<std::uint8_t> ack_bytes() {
        protocol::Message ack{}; ack.version = protocol::kCurrentMessageVersion; ack.type = protocol::MessageType::HandshakeAck;
        protocol::HandshakeAckPayload p{}; p.accepted = true; p.negotiated_version = protocol::kCurrentMessageVersion; p.responder_public = 0x1234u;
        ack.payload = p;
        return protocol::encode_signed(ack, std::span<const std::uint8_t>(key.data(), key.size()));
    }
    std::vector<std::uint8_t> frame_for(const std::vector<std::uint8_t>& pt, std::array<std::uint8_t, 12>& nonce_out) {
        crypto::Key k{}; k.bytes = key;
        crypto::Nonce nn{};
        unsigned long long x = hnonce++ * 0x9E3779B97F4A7C15ull;
        for (int i = 0; i < 8; ++i) nn.bytes[i] = static_cast<std::uint8_t>(x >> (8 * i));
        nn.bytes[8] = 0x48; nn.bytes[9] = 0x52; nn.bytes[10] = static_cast<std::uint8_t>(hnonce >> 8); nn.bytes[11] = static_cast<std::uint8_t>(hnonce);
        std::copy(nn.bytes.begin(), nn.bytes.end(), nonce_out.begin());
        std::vector<std::uint8_t> ct(pt.size());
        crypto::ChaCha20::apply(k, nn, pt, ct, 0u);
        std::vector<std::uint8_t> f(16 + ct.size());
        std::copy(nn.bytes.begin(), nn.bytes.end(), f.begin());
        std::uint32_t L = static_cast<std::uint32_t>(ct.size());
        f[12] = L >> 24; f[13] = L >> 16; f[14] = L >> 8; f[15] = L;
        std::copy(ct.begin(), ct.end(), f.begin() + 16);
        return f;
    }

    // frames the real node writes towards the harness
    void reader_loop(std::string dir) {
        HarnessThread ht;
        for (;;) {
            std::uint8_t hdr[16];
            if (!read_all(hs, hdr, 16)) break;
            Obs o; o.kind = 'W'; o.dir = dir;
            std::copy(hdr, hdr + 12, o.nonce.begin());
            o.L = (static_cast<unsigned long long>(hdr[12]) << 24) | (hdr[13] << 16) | (hdr[14] << 8) | hdr[15];
            std::size_t want = o.L > 4 * kMax ? 4 * kMax : static_cast<std::size_t>(o.L);   // never buffer more than 4 MiB ourselves
            std::vector<std::uint8_t> ct(want);
            bool full = want == 0 || read_all(hs, ct.data(), want);
            o.truncated = !full || want != o.L;
            crypto::Key k{}; k.bytes = key;
            crypto::Nonce nn{}; std::copy(hdr, hdr + 12, nn.bytes.begin());
            std::vector<std::uint8_t> pt(ct.size());
            crypto::ChaCha20::apply(k, nn, ct, pt, 0u);
            o.n = pt.size(); o.h = sha::hex(pt); o.cth = sha::hex(ct);
            if (ct.size() <= kSmall) { o.ct = ct; o.pt = pt; }
            push(std::move(o));
            ++g_seen_wire;
            if (!full || want != o.L) break;
            if (slow_us.load() && !gate_abort.load()) usleep(static_cast<useconds_t>(slow_us.load()));   // slow consumer on the harness side
        }
        // the stream cannot be followed any further (EOF, reset, or a length we refuse to buffer): make that visible to
        // the real sender too, so that its send() calls fail instead of blocking on a socket nobody reads
        ::shutdown(hs, SHUT_RDWR);
        hclosed = true;
    }

    void teardown() {
        HarnessThread ht;
        gate_abort = true;
        // every real manager was start()ed, so stop() tears its sessions down and waits for the reader threads
        if (B) B->stop();
        if (A) A->stop();
        if (hs >= 0) { ::shutdown(hs, SHUT_RDWR); }
        if (reader.joinable()) reader.join();
        if (hs >= 0) { ::close(hs); hs = -1; }
        for (long long dl = real_ms() + g_timeout_ms; real_ms() < dl && ((A && A->active_session_count()) || (B && B->active_session_count()));) usleep(200);
        A.reset(); B.reset();
    }

    void flush() {
        std::deque<Obs> q;
        { std::scoped_lock l(g_obs_m); q.swap(g_obs); }
        for (auto& o : q) {
            if (o.kind == 'D') { ev::Ev e("deliver"); e.s("dir", o.dir).i("n", static_cast<long long>(o.n)).s("h", o.h); e.emit(); }
            else if (o.kind == 'S') { ev::Ev e("send"); e.s("dir", o.dir).s("lane", o.lane).i("n", static_cast<long long>(o.n)).s("h", o.h).b("ok", o.ok).b("conn", o.conn); e.emit(); }
            else if (o.kind == 'W') {
                ev::Ev e("wire"); e.s("dir", o.dir).bytes("nonce", o.nonce).raw("L", limbs(o.L)).i("n", static_cast<long long>(o.n)).s("h", o.h).s("cth", o.cth).b("trunc", o.truncated);
                if (o.L <= kSmall && !o.truncated) { e.bytes("ct", o.ct).bytes("pt", o.pt); }
                e.emit();
            }
        }
    }

    bool conn(const std::string& who) { auto* n = node(who); return n && n->is_connected(peer_of(who)); }

    void state(bool final, bool timedout) {
        ev::Ev e("state");
        e.i("ca", A ? (A->is_connected(peer_of("A")) ? 1 : 0) : -1).i("cb", B ? (B->is_connected(peer_of("B")) ? 1 : 0) : -1)
         .b("hc", hclosed.load()).raw("alloc", limbs(g_maxalloc.load())).b("final", final).b("timedout", timedout)
         .i("sa", A ? static_cast<long long>(A->active_session_count()) : -1).i("sb", B ? static_cast<long long>(B->active_session_count()) : -1);
        e.emit();
    }

    bool wait_for(bool closing) {
        long long deadline = real_ms() + g_timeout_ms;
        for (;;) {
            bool done;
            if (closing) {
                done = hclosed.load() && !conn(real_name());
            } else {
                bool ab = g_seen_AB.load() >= accepted_AB || (mode == "pair" && !conn("B")) || (mode == "in" && hclosed.load());
                bool ba = g_seen_BA.load() >= accepted_BA || (mode == "pair" && !conn("A")) || (mode == "out" && hclosed.load());
                bool w = g_seen_wire.load() >= accepted_wire || hclosed.load();
                done = ab && ba && w;
            }
            if (done) return false;
            if (real_ms() > deadline) {
                // something that should have happened did not (this is reported through the trace); do not spend the
                // full patience again on every later wait of this run
                if (g_timeout_ms > 300) g_timeout_ms = 300;
                return true;
            }
            usleep(200);
        }
    }

    void do_send(const std::string& from, const std::string& lane, std::size_t n, unsigned long long seed, bool emit_now, std::vector<Obs>* sink) {
        auto payload = gen_payload(n, seed);
        auto* nd = node(from);
        const PeerId peer = peer_of(from);
        Obs o; o.kind = 'S'; o.lane = lane; o.n = n; o.h = sha::hex(payload);
        o.dir = from + (mode == "pair" ? (from == "A" ? "B" : "A") : "H");
        o.conn = nd->is_connected(peer);
        o.ok = nd->send(peer, std::span<const std::uint8_t>(payload.data(), payload.size()));
        if (sink) { sink->push_back(std::move(o)); return; }
        ev::Ev e("send"); e.s("dir", o.dir).s("lane", o.lane).i("n", static_cast<long long>(o.n)).s("h", o.h).b("ok", o.ok).b("conn", o.conn); e.emit();
    }
    void count_accept(const std::string& dir, bool ok, std::size_t n) {
        if (!ok) return;
        if (dir[1] == 'H') ++accepted_wire; else if (dir[1] == 'B') ++accepted_AB; else ++accepted_BA;
    }

    void run(const ev::Cmd& c) {
        HarnessThread ht;
        if (c.op == "reset") {
            // keep=1 (mode out, same seed): the real manager A of the previous behaviour stays alive; only its session to the harness
            // peer ends, and A connects again under the same key -- frames of the new session must not reuse nonces of the old one
            const bool keep = c.i("keep", 0) != 0 && A && mode == "out" && c.s("mode", "pair") == "out";
            if (keep) {
                HarnessThread hk;
                gate_abort = true;
                if (hs >= 0) ::shutdown(hs, SHUT_RDWR);
                if (reader.joinable()) reader.join();
                if (hs >= 0) { ::close(hs); hs = -1; }
                for (long long dl = real_ms() + g_timeout_ms; real_ms() < dl && A->is_connected(idH);) usleep(200);
            } else {
                teardown();
            }
            { std::scoped_lock l(g_obs_m); g_obs.clear(); }
            g_seen_AB = 0; g_seen_BA = 0; g_seen_wire = 0; g_maxalloc = 0; g_alloc_logged = false;
            accepted_AB = accepted_BA = accepted_wire = 0; expect_close = false; hclosed = false;
            gate = c.i("gate", 0) != 0; gate_abort = false; released = 0; entered = 0; hnonce = 1 + static_cast<unsigned long long>(c.i("seed", 1)) * 1000003ull;
            mode = c.s("mode", "pair");
            slow_us = c.i("slow", 0);
            const long long seed = c.i("seed", 1);
            if (!keep) vrng::seed(0xC14C14ull + static_cast<unsigned long long>(seed) * 7919ull);   // a kept manager goes on drawing from its stream
            auto k = gen_payload(32, 0x5EED0000ull + static_cast<unsigned long long>(seed)); std::copy(k.begin(), k.end(), key.begin());
            const bool use_hs = c.i("hs", 1) != 0, use_ack = c.i("ack", 0) != 0;
            bool connected = false;
            SessionManager::OutboundHandshake oh{};
            oh.payload.public_identity = 0xABCDu; oh.payload.work_nonce = 77; oh.session_key = key; oh.expect_ack = use_ack;
            auto acceptor = [this, use_ack](const char* dirname) {
                return [this, use_ack, dirname](const PeerId&, const protocol::TransportHandshakePayload&) -> std::optional<SessionManager::HandshakeAcceptance> {
                    HarnessThread h2;
                    SessionManager::HandshakeAcceptance acc{}; acc.accepted = true; acc.session_key = key;
                    if (use_ack) {
                        acc.ack_payload = ack_bytes();
                        if (mode == "in") {   // the ack is a frame the real node puts on the wire towards the harness
                            Obs o; o.kind = 'S'; o.dir = dirname; o.lane = "ack"; o.n = acc.ack_payload.size(); o.h = sha::hex(acc.ack_payload); o.ok = true; o.conn = true;
                            push(std::move(o));
                        }
                    }
                    return acc;
                };
            };
            if (mode == "pair") {
                A = std::make_unique<SessionManager>(idA); B = std::make_unique<SessionManager>(idB);
                A->set_message_handler([this](const network::TransportMessage& m) { handler("BA", m); });
                B->set_message_handler([this](const network::TransportMessage& m) { handler("AB", m); });
                B->set_handshake_handler(acceptor("BA"));
                B->start(0); A->start(0);
                A->register_peer_key(idB, key);
                connected = A->connect(idB, "127.0.0.1", B->listening_port(), &oh);
                for (long long dl = real_ms() + g_timeout_ms; connected && !B->is_connected(idA) && real_ms() < dl;) usleep(200);
                connected = connected && B->is_connected(idA) && A->is_connected(idB);
            } else if (mode == "out") {
                if (!keep) {
                    A = std::make_unique<SessionManager>(idA);
                    A->set_message_handler([this](const network::TransportMessage& m) { handler("HA", m); });
                    A->start(0);
                }
                int ls = ::socket(AF_INET, SOCK_STREAM, 0);
                sockaddr_in addr{}; addr.sin_family = AF_INET; addr.sin_addr.s_addr = htonl(INADDR_LOOPBACK); addr.sin_port = 0;
                if (c.i("rcvbuf", 0)) { int rb = static_cast<int>(c.i("rcvbuf")); ::setsockopt(ls, SOL_SOCKET, SO_RCVBUF, &rb, sizeof rb); }   // small window: the real sender blocks inside a frame
                ::bind(ls, reinterpret_cast<sockaddr*>(&addr), sizeof addr); ::listen(ls, 4);
                socklen_t al = sizeof addr; ::getsockname(ls, reinterpret_cast<sockaddr*>(&addr), &al);
                bool hok = false;
                std::thread acc([&] {
                    HarnessThread h3;
                    pollfd pf{ls, POLLIN, 0};
                    if (::poll(&pf, 1, static_cast<int>(g_timeout_ms)) <= 0) return;
                    hs = ::accept(ls, nullptr, nullptr);
                    if (hs < 0) return;
                    timeval tv{static_cast<time_t>(g_timeout_ms / 1000), 0};
                    ::setsockopt(hs, SOL_SOCKET, SO_RCVTIMEO, &tv, sizeof tv);
                    std::uint8_t ident[32];
                    if (!read_all(hs, ident, 32) || std::memcmp(ident, idA.data(), 32) != 0) return;
                    if (use_hs) {
                        std::uint8_t lb[4];
                        if (!read_all(hs, lb, 4)) return;
                        std::size_t len = (lb[0] << 24) | (lb[1] << 16) | (lb[2] << 8) | lb[3];
                        if (len == 0 || len > 2048) return;
                        std::vector<std::uint8_t> msg(len);
                        if (!read_all(hs, msg.data(), len)) return;
                        auto dec = protocol::decode(msg);
                        if (!dec || dec->type != protocol::MessageType::TransportHandshake) return;
                        if (use_ack) {
                            std::array<std::uint8_t, 12> nn{};
                            auto f = frame_for(ack_bytes(), nn);
                            std::size_t w = 0;
                            if (!write_all(hs, f.data(), f.size(), 0, w)) return;
                        }
                    }
                    timeval tz{0, 0};
                    ::setsockopt(hs, SOL_SOCKET, SO_RCVTIMEO, &tz, sizeof tz);
                    hok = true;
                });
                A->register_peer_key(idH, key);
                connected = A->connect(idH, "127.0.0.1", ntohs(addr.sin_port), use_hs ? &oh : nullptr);
                acc.join();
                ::close(ls);
                connected = connected && hok && A->is_connected(idH);
            } else {   // in
                B = std::make_unique<SessionManager>(idB);
                B->set_message_handler([this](const network::TransportMessage& m) { handler("HB", m); });
                B->set_handshake_handler(acceptor("BH"));
                B->start(0);
                hs = ::socket(AF_INET, SOCK_STREAM, 0);
                sockaddr_in addr{}; addr.sin_family = AF_INET; addr.sin_addr.s_addr = htonl(INADDR_LOOPBACK); addr.sin_port = htons(B->listening_port());
                bool ok = ::connect(hs, reinterpret_cast<sockaddr*>(&addr), sizeof addr) == 0;
                protocol::Message m{}; m.version = protocol::kCurrentMessageVersion; m.type = protocol::MessageType::TransportHandshake; m.payload = oh.payload;
                auto enc = protocol::encode(m);
                std::vector<std::uint8_t> hello(idH.begin(), idH.end());
                std::uint32_t len = static_cast<std::uint32_t>(enc.size());
                hello.push_back(len >> 24); hello.push_back(len >> 16); hello.push_back(len >> 8); hello.push_back(len);
                hello.insert(hello.end(), enc.begin(), enc.end());
                std::size_t w = 0;
                ok = ok && write_all(hs, hello.data(), hello.size(), static_cast<std::size_t>(c.i("chunk", 0)), w);
                for (long long dl = real_ms() + g_timeout_ms; ok && !B->is_connected(idH) && real_ms() < dl;) usleep(200);
                connected = ok && B->is_connected(idH);
                if (use_ack) accepted_wire += 1;
            }
            if (hs >= 0) {
                int one = 1; ::setsockopt(hs, IPPROTO_TCP, TCP_NODELAY, &one, sizeof one);
                timeval tv{static_cast<time_t>(g_timeout_ms / 1000), 0};
                ::setsockopt(hs, SOL_SOCKET, SO_SNDTIMEO, &tv, sizeof tv);
                reader = std::thread([this] { reader_loop(real_name() + "H"); });
            }
            ev::Ev e("reset");
            e.s("mode", mode).bytes("key", key).i("max", static_cast<long long>(kMax)).b("connected", connected).b("gate", gate.load()).b("hs", use_hs).b("ack", use_ack).i("seed", seed).i("keep", keep ? 1 : 0);
            e.emit();
            flush();   // the handshake ack the real listener produced (in mode) is part of this behaviour's sends
        } else if (c.op == "send") {
            const std::string from = c.s("from", "A");
            const std::size_t n = static_cast<std::size_t>(c.i("n"));
            int count = static_cast<int>(c.i("count", 1));
            for (int k = 0; k < count; ++k) {
                std::size_t nk = n;
                if (c.i("vary", 0)) nk = static_cast<std::size_t>((n + static_cast<std::size_t>(k) * c.i("vary")) % (kMax + 1));
                auto payload_seed = c.has("seed") && c.i("seed") == 0 ? 0ull : static_cast<unsigned long long>(c.i("seed", 1)) * 131ull + k + 1;
                // log through a sink to learn ok, then emit (script thread: order is the call order)
                std::vector<Obs> sink;
                do_send(from, c.s("lane", "0"), nk, payload_seed, false, &sink);
                count_accept(sink[0].dir, sink[0].ok && sink[0].n <= kMax, sink[0].n);
                ev::Ev e("send"); e.s("dir", sink[0].dir).s("lane", sink[0].lane).i("n", static_cast<long long>(sink[0].n)).s("h", sink[0].h).b("ok", sink[0].ok).b("conn", sink[0].conn); e.emit();
                if (c.i("us", 0)) usleep(static_cast<useconds_t>(c.i("us")));
            }
        } else if (c.op == "csend") {
            // concurrent senders: thread i sends `count` payloads from node froms[i % |froms|]; one lane per thread
            std::vector<std::string> froms;
            { std::string f = c.s("from", "A"); for (char ch : f) if (ch == 'A' || ch == 'B') froms.push_back(std::string(1, ch)); }
            int threads = static_cast<int>(c.i("threads", 2)), count = static_cast<int>(c.i("count", 4));
            std::vector<std::vector<Obs>> sinks(threads);
            std::atomic<int> ready{0};
            std::vector<std::thread> ts;
            for (int t = 0; t < threads; ++t) ts.emplace_back([&, t] {
                HarnessThread h4;
                ++ready; while (ready.load() < threads) sched_yield();
                for (int k = 0; k < count; ++k) {
                    std::size_t nk = static_cast<std::size_t>(c.i("n"));
                    if (c.i("vary", 0)) nk = static_cast<std::size_t>((nk + static_cast<std::size_t>(k * threads + t) * c.i("vary")) % (kMax + 1));
                    do_send(froms[t % froms.size()], "t" + std::to_string(t), nk, static_cast<unsigned long long>(c.i("seed", 1)) * 7919ull + t * 1009ull + k + 1, false, &sinks[t]);
                }
            });
            for (auto& t : ts) t.join();
            for (auto& s : sinks) for (auto& o : s) {
                count_accept(o.dir, o.ok && o.n <= kMax, o.n);
                ev::Ev e("send"); e.s("dir", o.dir).s("lane", o.lane).i("n", static_cast<long long>(o.n)).s("h", o.h).b("ok", o.ok).b("conn", o.conn); e.emit();
            }
        } else if (c.op == "raw") {
            // a frame written by hand towards the real node
            const unsigned long long L = std::strtoull(c.s("L", "0").c_str(), nullptr, 10);
            const bool valid = c.i("valid", 0) != 0;
            const std::size_t chunk = static_cast<std::size_t>(c.i("chunk", 0));
            const std::string dir = "H" + real_name();
            std::vector<std::uint8_t> f;
            std::array<std::uint8_t, 12> nn{};
            std::vector<std::uint8_t> pt;
            std::size_t body = 0;
            if (valid) {
                pt = gen_payload(static_cast<std::size_t>(L), c.has("seed") && c.i("seed") == 0 ? 0ull : static_cast<unsigned long long>(c.i("seed", 1)) * 257ull + 3);
                f = frame_for(pt, nn);
                body = pt.size();
            } else {
                body = static_cast<std::size_t>(c.i("body", 0));
                auto filler = gen_payload(body, static_cast<unsigned long long>(c.i("seed", 1)) * 263ull + 5);
                auto dummy = frame_for({}, nn);
                f.assign(dummy.begin(), dummy.begin() + 12);
                f.push_back(static_cast<std::uint8_t>(L >> 24)); f.push_back(static_cast<std::uint8_t>(L >> 16)); f.push_back(static_cast<std::uint8_t>(L >> 8)); f.push_back(static_cast<std::uint8_t>(L));
                f.insert(f.end(), filler.begin(), filler.end());
            }
            std::size_t wrote = 0;
            bool wok = hs >= 0 && write_all(hs, f.data(), f.size(), chunk, wrote);
            if (L > kMax) expect_close = true;
            else if (valid && wok) { if (dir[1] == 'B') ++accepted_AB; else ++accepted_BA; }
            ev::Ev e("raw");
            e.s("dir", dir).raw("L", limbs(L)).i("k", static_cast<long long>(body)).i("wrote", static_cast<long long>(wrote > 16 ? wrote - 16 : 0)).b("hdr", wrote >= 16).b("wok", wok).b("valid", valid)
             .i("n", static_cast<long long>(pt.size())).s("h", valid ? sha::hex(pt) : std::string("")).bytes("nonce", nn).i("chunk", static_cast<long long>(chunk));
            if (valid && pt.size() <= kSmall) { e.bytes("pt", pt).bytes("ct", f.begin() + 16, f.end()); }
            e.emit();
        } else if (c.op == "recv") {
            // gated receiver: let the handler take one more message, wait until it has
            int before = g_seen_AB.load() + g_seen_BA.load();
            ++released;
            long long dl = real_ms() + g_timeout_ms; bool to = false;
            while (g_seen_AB.load() + g_seen_BA.load() == before) { if (real_ms() > dl) { to = true; break; } usleep(100); }
            flush();
            ev::Ev e("recv"); e.b("timedout", to); e.emit();
        } else if (c.op == "pause") {
            usleep(static_cast<useconds_t>(c.i("us", 1000)));
        } else if (c.op == "sync") {
            if (gate.load()) released = 1 << 30;
            bool to = wait_for(false);
            if (expect_close) to = wait_for(true) || to;
            flush();
            state(false, to);
        } else if (c.op == "close") {
            if (gate.load()) released = 1 << 30;
            bool to = wait_for(false);
            if (expect_close) to = wait_for(true) || to;
            flush();
            state(false, to);
            teardown();
            flush();
            ev::Ev e("closed"); e.emit();
        }
    }
};

int main(int argc, char** argv) {
    tl_harness = true;
    if (argc < 3) { std::fprintf(stderr, "usage: transport <script> <trace>\n"); return 2; }
    ::signal(SIGPIPE, SIG_IGN);
    if (const char* t = std::getenv("VERIF_TRANSPORT_TIMEOUT_MS")) g_timeout_ms = std::atoll(t);
    if (!std::getenv("VERIF_TRANSPORT_STDERR")) { std::cerr.setstate(std::ios::failbit); std::clog.setstate(std::ios::failbit); }
    std::ifstream in(argv[1]);
    ev::open(argv[2]);
    vclock::set_ns(0);
    Driver d;
    ev::Cmd c;
    while (ev::read_cmd(in, c)) { d.run(c); std::fflush(ev::out()); }
    d.teardown();
    d.flush();
    std::fclose(ev::out());
    return 0;
}
